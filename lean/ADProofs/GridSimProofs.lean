import ADProofs.GridProofs
import ADProofs.SimProofs

/-!
# ADProofs.GridSimProofs — the concrete grid transformations satisfy the hypotheses of the
equivariance theorem (C16, C17)

A coordinate map `g` between two shapes is lifted to flat indices by `liftC`.

* `hadj_of_coord`, `liftC_inj`, `liftC_lt` : bridge from coordinates to flat indices
* `coord_adj`, `coord_inj`               : a coordinate map that relabels axes (`β`), acts on every
  axis separately by an adjacency preserving injection (`f`) and is constant on the remaining
  axes of the target preserves the coordinate adjacency / is injective
* instances: cyclic shift (`shift_hadj`), flip (`flip_hadj`), axis permutation (`perm_hadj`,
  adjacent swap `swap_hadj`), unit axis (`unit_hadj`), padding (`pad_hadj`)
* `coord_invariance` and the corollaries `shift_invariance` (C17), `flip_invariance`,
  `perm_invariance`, `swap_invariance`, `unit_axis_invariance`, `pad_invariance` (C16)

Core Lean only.
-/
open Tree GridProofs

namespace P19

/-- the renaming of flat indices induced by a coordinate map -/
def liftC (shape shape' : List Nat) (g : List Nat → List Nat) (p : Nat) : Nat :=
  Grid.ravel shape' (g (Grid.unravel shape p))

/-! ## bridge: coordinates → flat indices -/

theorem ravel_inj (shape c d : List Nat) (hc : InRange shape c) (hd : InRange shape d)
    (h : Grid.ravel shape c = Grid.ravel shape d) : c = d := by
  rw [← unravel_ravel shape c hc, ← unravel_ravel shape d hd, h]

theorem mem_map_ravel (shape periodic c d : List Nat) (hc : InRange shape c)
    (hd : InRange shape d) :
    Grid.ravel shape d ∈ (Grid.nbrsC shape periodic c).map (Grid.ravel shape) ↔
      d ∈ Grid.nbrsC shape periodic c := by
  rw [List.mem_map]
  constructor
  · rintro ⟨e, he, hed⟩
    have her := (nbrsC_symm shape periodic c e hc he).1
    rw [← ravel_inj shape e d her hd hed]
    exact he
  · intro h
    exact ⟨d, h, rfl⟩

theorem liftC_lt (shape shape' : List Nat) (g : List Nat → List Nat)
    (hg_range : ∀ c, InRange shape c → InRange shape' (g c))
    (p : Nat) (hp : p < Grid.size shape) : liftC shape shape' g p < Grid.size shape' :=
  ravel_lt shape' _ (hg_range _ (unravel_inRange shape p hp))

theorem hadj_of_coord (shape shape' periodic periodic' : List Nat) (g : List Nat → List Nat)
    (hg_range : ∀ c, InRange shape c → InRange shape' (g c))
    (hg_adj : ∀ c d, InRange shape c → InRange shape d →
      (d ∈ Grid.nbrsC shape periodic c ↔ g d ∈ Grid.nbrsC shape' periodic' (g c)))
    (p q : Nat) (hp : p < Grid.size shape) (hq : q < Grid.size shape) :
    q ∈ Grid.nbrs shape periodic p ↔
      liftC shape shape' g q ∈ Grid.nbrs shape' periodic' (liftC shape shape' g p) := by
  have hc := unravel_inRange shape p hp
  have hd := unravel_inRange shape q hq
  have hc' := hg_range _ hc
  have hd' := hg_range _ hd
  unfold Grid.nbrs liftC
  rw [unravel_ravel shape' _ hc', mem_map_ravel shape' periodic' _ _ hc' hd',
    ← hg_adj _ _ hc hd]
  conv => lhs; rw [← ravel_unravel shape q hq]
  exact mem_map_ravel shape periodic _ _ hc hd

theorem liftC_inj (shape shape' : List Nat) (g : List Nat → List Nat)
    (hg_range : ∀ c, InRange shape c → InRange shape' (g c))
    (hg_inj : ∀ c d, InRange shape c → InRange shape d → g c = g d → c = d)
    (p q : Nat) (hp : p < Grid.size shape) (hq : q < Grid.size shape)
    (h : liftC shape shape' g p = liftC shape shape' g q) : p = q := by
  have hc := unravel_inRange shape p hp
  have hd := unravel_inRange shape q hq
  have h1 := ravel_inj shape' _ _ (hg_range _ hc) (hg_range _ hd) h
  have h2 := hg_inj _ _ hc hd h1
  rw [← ravel_unravel shape p hp, ← ravel_unravel shape q hq, h2]

/-! ## axis-wise coordinate maps -/

theorem getD_of_le (c : List Nat) (i : Nat) (h : c.length ≤ i) : c.getD i 0 = 0 := by
  simp [List.getD_eq_getElem?_getD, h]

/-- a coordinate map that relabels the axes by `β`, acts on axis `b` by `f b`, and is constant
(with a value that is not its own neighbour) on the axes of the target outside the image of `β` -/
structure AxisMap (shape shape' periodic periodic' : List Nat) (g : List Nat → List Nat)
    (β : Nat → Nat) (f : Nat → Nat → Nat) : Prop where
  range : ∀ c, InRange shape c → InRange shape' (g c)
  β_lt : ∀ b, b < shape.length → β b < shape'.length
  β_inj : ∀ b b', b < shape.length → b' < shape.length → β b = β b' → b = b'
  get : ∀ c b, InRange shape c → b < shape.length → (g c).getD (β b) 0 = f b (c.getD b 0)
  f_inj : ∀ b x y, b < shape.length → x < shape.getD b 0 → y < shape.getD b 0 →
    f b x = f b y → x = y
  f_adj : ∀ b x y, b < shape.length → x < shape.getD b 0 → y < shape.getD b 0 →
    (y ∈ Grid.axisNbrs (shape.getD b 0) (periodic.contains b) x ↔
      f b y ∈ Grid.axisNbrs (shape'.getD (β b) 0) (periodic'.contains (β b)) (f b x))
  rest : ∀ i', i' < shape'.length → (∃ b, b < shape.length ∧ β b = i') ∨
    (∀ c d, InRange shape c → InRange shape d → (g d).getD i' 0 = (g c).getD i' 0 ∧
      (g c).getD i' 0 ∉
        Grid.axisNbrs (shape'.getD i' 0) (periodic'.contains i') ((g c).getD i' 0))

theorem coord_inj {shape shape' periodic periodic' : List Nat} {g : List Nat → List Nat}
    {β : Nat → Nat} {f : Nat → Nat → Nat} (H : AxisMap shape shape' periodic periodic' g β f)
    (c d : List Nat) (hc : InRange shape c) (hd : InRange shape d) (h : g c = g d) : c = d := by
  apply ext_getD (by rw [hc.1, hd.1])
  intro i
  by_cases hi : i < shape.length
  · apply H.f_inj i _ _ hi (hc.2 i hi) (hd.2 i hi)
    rw [← H.get c i hc hi, ← H.get d i hd hi, h]
  · have hi := Nat.le_of_not_lt hi
    rw [getD_of_le c i (by rw [hc.1]; exact hi), getD_of_le d i (by rw [hd.1]; exact hi)]

theorem coord_adj {shape shape' periodic periodic' : List Nat} {g : List Nat → List Nat}
    {β : Nat → Nat} {f : Nat → Nat → Nat} (H : AxisMap shape shape' periodic periodic' g β f)
    (c d : List Nat) (hc : InRange shape c) (hd : InRange shape d) :
    d ∈ Grid.nbrsC shape periodic c ↔ g d ∈ Grid.nbrsC shape' periodic' (g c) := by
  have hc' := H.range c hc
  have hd' := H.range d hd
  rw [nbrsC_mem_pointwise shape periodic c d hc hd,
    nbrsC_mem_pointwise shape' periodic' _ _ hc' hd']
  constructor
  · rintro ⟨b, hb, hne, hax⟩
    refine ⟨β b, H.β_lt b hb, ?_, ?_⟩
    · intro i' hi'
      by_cases hl : i' < shape'.length
      · rcases H.rest i' hl with ⟨i, hi, rfl⟩ | hconst
        · rw [H.get c i hc hi, H.get d i hd hi, hne i (fun e => hi' (e ▸ rfl))]
        · exact (hconst c d hc hd).1
      · have hl := Nat.le_of_not_lt hl
        rw [getD_of_le (g c) i' (by rw [hc'.1]; exact hl),
          getD_of_le (g d) i' (by rw [hd'.1]; exact hl)]
    · rw [H.get c b hc hb, H.get d b hd hb]
      exact (H.f_adj b _ _ hb (hc.2 b hb) (hd.2 b hb)).mp hax
  · rintro ⟨b', hb', hne, hax⟩
    rcases H.rest b' hb' with ⟨b, hb, rfl⟩ | hconst
    · refine ⟨b, hb, ?_, ?_⟩
      · intro i hi
        by_cases hl : i < shape.length
        · apply H.f_inj i _ _ hl (hd.2 i hl) (hc.2 i hl)
          rw [← H.get c i hc hl, ← H.get d i hd hl]
          exact hne (β i) (fun e => hi (H.β_inj i b hl hb e))
        · have hl := Nat.le_of_not_lt hl
          rw [getD_of_le c i (by rw [hc.1]; exact hl), getD_of_le d i (by rw [hd.1]; exact hl)]
      · rw [H.get c b hc hb, H.get d b hd hb] at hax
        exact (H.f_adj b _ _ hb (hc.2 b hb) (hd.2 b hb)).mpr hax
    · obtain ⟨h1, h2⟩ := hconst c d hc hd
      rw [h1] at hax
      exact absurd hax h2

/-! ## the flat-level statement and the equivariance corollary for an `AxisMap` -/

theorem AxisMap.hadj {shape shape' periodic periodic' : List Nat} {g : List Nat → List Nat}
    {β : Nat → Nat} {f : Nat → Nat → Nat} (H : AxisMap shape shape' periodic periodic' g β f)
    (p q : Nat) (hp : p < Grid.size shape) (hq : q < Grid.size shape) :
    q ∈ Grid.nbrs shape periodic p ↔
      liftC shape shape' g q ∈ Grid.nbrs shape' periodic' (liftC shape shape' g p) :=
  hadj_of_coord shape shape' periodic periodic' g H.range (coord_adj H) p q hp hq

theorem AxisMap.inj {shape shape' periodic periodic' : List Nat} {g : List Nat → List Nat}
    {β : Nat → Nat} {f : Nat → Nat → Nat} (H : AxisMap shape shape' periodic periodic' g β f)
    (p q : Nat) (hp : p < Grid.size shape) (hq : q < Grid.size shape)
    (h : liftC shape shape' g p = liftC shape shape' g q) : p = q :=
  liftC_inj shape shape' g H.range (coord_inj H) p q hp hq h

/-- **equivariance for a coordinate map**: if `g` maps the grid `shape` into the grid `shape'`,
preserves the coordinate adjacency and is injective, and the data of run 2 on the image pixels
are the data of run 1, the two hierarchies are similar. -/
theorem coord_invariance (shape shape' periodic periodic' : List Nat) (g : List Nat → List Nat)
    (hg_range : ∀ c, InRange shape c → InRange shape' (g c))
    (hg_adj : ∀ c d, InRange shape c → InRange shape d →
      (d ∈ Grid.nbrsC shape periodic c ↔ g d ∈ Grid.nbrsC shape' periodic' (g c)))
    (hg_inj : ∀ c d, InRange shape c → InRange shape d → g c = g d → c = d)
    (val : Nat → Int) (order : List Nat) (cs : List Crit)
    (horder : ∀ p ∈ order, p < Grid.size shape)
    (hseeds : ∀ c ∈ cs, ∀ s ∈ P10.seedsOf c, s < Grid.size shape)
    (val' : Nat → Int) (hval : ∀ p ∈ order, val' (liftC shape shape' g p) = val p) :
    P10.SimL (liftC shape shape' g)
      (run (envOf val (Grid.nbrs shape periodic) cs) order)
      (run (envOf val' (Grid.nbrs shape' periodic')
        (cs.map (P10.critRename (liftC shape shape' g)))) (order.map (liftC shape shape' g))) := by
  apply P10.run_sim_builtin_rename val val' _ _ _ order hval
  · intro p hp q hq
    exact hadj_of_coord shape shape' periodic periodic' g hg_range hg_adj p q
      (horder p hp) (horder q hq)
  · intro c hc s hs x hx e
    exact liftC_inj shape shape' g hg_range hg_inj x s (horder x hx) (hseeds c hc s hs) e

theorem AxisMap.invariance {shape shape' periodic periodic' : List Nat} {g : List Nat → List Nat}
    {β : Nat → Nat} {f : Nat → Nat → Nat} (H : AxisMap shape shape' periodic periodic' g β f)
    (val : Nat → Int) (order : List Nat) (cs : List Crit)
    (horder : ∀ p ∈ order, p < Grid.size shape)
    (hseeds : ∀ c ∈ cs, ∀ s ∈ P10.seedsOf c, s < Grid.size shape)
    (val' : Nat → Int) (hval : ∀ p ∈ order, val' (liftC shape shape' g p) = val p) :
    P10.SimL (liftC shape shape' g)
      (run (envOf val (Grid.nbrs shape periodic) cs) order)
      (run (envOf val' (Grid.nbrs shape' periodic')
        (cs.map (P10.critRename (liftC shape shape' g)))) (order.map (liftC shape shape' g))) :=
  coord_invariance shape shape' periodic periodic' g H.range (coord_adj H) (coord_inj H)
    val order cs horder hseeds val' hval

/-! ## maps acting on a single axis (shift, flip) -/

theorem axisMap_set (shape periodic : List Nat) (a : Nat) (φ : Nat → Nat)
    (hφ_lt : a < shape.length → ∀ x, x < shape.getD a 0 → φ x < shape.getD a 0)
    (hφ_inj : a < shape.length → ∀ x y, x < shape.getD a 0 → y < shape.getD a 0 →
      φ x = φ y → x = y)
    (hφ_adj : a < shape.length → ∀ x y, x < shape.getD a 0 → y < shape.getD a 0 →
      (y ∈ Grid.axisNbrs (shape.getD a 0) (periodic.contains a) x ↔
        φ y ∈ Grid.axisNbrs (shape.getD a 0) (periodic.contains a) (φ x))) :
    AxisMap shape shape periodic periodic (fun c => c.set a (φ (c.getD a 0))) (fun b => b)
      (fun b x => if b = a then φ x else x) where
  range := by
    intro c hc
    by_cases ha : a < shape.length
    · exact inRange_set hc (hφ_lt ha _ (hc.2 a ha))
    · rw [List.set_eq_of_length_le (by rw [hc.1]; exact Nat.le_of_not_lt ha)]
      exact hc
  β_lt := fun b hb => hb
  β_inj := fun b b' _ _ h => h
  get := by
    intro c b hc hb
    show (c.set a _).getD b 0 = _
    by_cases h : b = a
    · subst h
      rw [getD_set_self c b _ (by rw [hc.1]; exact hb), if_pos rfl]
    · rw [getD_set_ne c a b _ (Ne.symm h), if_neg h]
  f_inj := by
    intro b x y hb hx hy
    by_cases h : b = a
    · subst h
      simp only [if_pos]
      exact hφ_inj hb x y hx hy
    · simp only [if_neg h]
      exact fun e => e
  f_adj := by
    intro b x y hb hx hy
    by_cases h : b = a
    · subst h
      simp only [if_pos]
      exact hφ_adj hb x y hx hy
    · simp only [if_neg h]
  rest := fun i' hi' => Or.inl ⟨i', hi', rfl⟩

/-! ### 1. cyclic shift along a periodic axis -/

theorem shift_axisMap (shape periodic : List Nat) (a k : Nat)
    (ha : periodic.contains a = true) :
    AxisMap shape shape periodic periodic (shiftC shape a k) (fun b => b)
      (fun b x => if b = a then (x + k) % shape.getD a 0 else x) :=
  axisMap_set shape periodic a (fun x => (x + k) % shape.getD a 0)
    (fun _ x hx => Nat.mod_lt _ (by omega))
    (fun _ x y hx hy h => (shift_inj _ k x y hx hy).mp h)
    (fun _ x y hx hy => by rw [ha]; exact axis_shift _ k x y hx hy)

theorem shift_hadj (shape periodic : List Nat) (a k : Nat) (ha : periodic.contains a = true)
    (p q : Nat) (hp : p < Grid.size shape) (hq : q < Grid.size shape) :
    q ∈ Grid.nbrs shape periodic p ↔
      liftC shape shape (shiftC shape a k) q ∈
        Grid.nbrs shape periodic (liftC shape shape (shiftC shape a k) p) :=
  (shift_axisMap shape periodic a k ha).hadj p q hp hq

theorem shift_inj_flat (shape periodic : List Nat) (a k : Nat) (ha : periodic.contains a = true)
    (p q : Nat) (hp : p < Grid.size shape) (hq : q < Grid.size shape)
    (h : liftC shape shape (shiftC shape a k) p = liftC shape shape (shiftC shape a k) q) :
    p = q :=
  (shift_axisMap shape periodic a k ha).inj p q hp hq h

/-- **C17**: cyclically shifting the data along a periodic axis yields the same hierarchy on the
shifted pixels. -/
theorem shift_invariance (shape periodic : List Nat) (a k : Nat) (ha : periodic.contains a = true)
    (val : Nat → Int) (order : List Nat) (cs : List Crit)
    (horder : ∀ p ∈ order, p < Grid.size shape)
    (hseeds : ∀ c ∈ cs, ∀ s ∈ P10.seedsOf c, s < Grid.size shape)
    (val' : Nat → Int)
    (hval : ∀ p ∈ order, val' (liftC shape shape (shiftC shape a k) p) = val p) :
    P10.SimL (liftC shape shape (shiftC shape a k))
      (run (envOf val (Grid.nbrs shape periodic) cs) order)
      (run (envOf val' (Grid.nbrs shape periodic)
        (cs.map (P10.critRename (liftC shape shape (shiftC shape a k)))))
        (order.map (liftC shape shape (shiftC shape a k)))) :=
  (shift_axisMap shape periodic a k ha).invariance val order cs horder hseeds val' hval

/-! ### 2. flip along an axis -/

/-- reverse coordinate `a` -/
def flipC (shape : List Nat) (a : Nat) (c : List Nat) : List Nat :=
  c.set a (shape.getD a 0 - 1 - c.getD a 0)

theorem axis_flip (n : Nat) (per : Bool) (x y : Nat) (hx : x < n) (hy : y < n) :
    y ∈ Grid.axisNbrs n per x ↔ n - 1 - y ∈ Grid.axisNbrs n per (n - 1 - x) := by
  rw [axisNbrs_mem n per x y hx, axisNbrs_mem n per _ _ (by omega)]
  cases per <;> simp <;> omega

theorem flip_axisMap (shape periodic : List Nat) (a : Nat) :
    AxisMap shape shape periodic periodic (flipC shape a) (fun b => b)
      (fun b x => if b = a then shape.getD a 0 - 1 - x else x) :=
  axisMap_set shape periodic a (fun x => shape.getD a 0 - 1 - x)
    (fun _ x hx => by omega)
    (fun _ x y hx hy h => by omega)
    (fun _ x y hx hy => axis_flip _ _ x y hx hy)

theorem flip_hadj (shape periodic : List Nat) (a : Nat)
    (p q : Nat) (hp : p < Grid.size shape) (hq : q < Grid.size shape) :
    q ∈ Grid.nbrs shape periodic p ↔
      liftC shape shape (flipC shape a) q ∈
        Grid.nbrs shape periodic (liftC shape shape (flipC shape a) p) :=
  (flip_axisMap shape periodic a).hadj p q hp hq

theorem flip_invariance (shape periodic : List Nat) (a : Nat)
    (val : Nat → Int) (order : List Nat) (cs : List Crit)
    (horder : ∀ p ∈ order, p < Grid.size shape)
    (hseeds : ∀ c ∈ cs, ∀ s ∈ P10.seedsOf c, s < Grid.size shape)
    (val' : Nat → Int)
    (hval : ∀ p ∈ order, val' (liftC shape shape (flipC shape a) p) = val p) :
    P10.SimL (liftC shape shape (flipC shape a))
      (run (envOf val (Grid.nbrs shape periodic) cs) order)
      (run (envOf val' (Grid.nbrs shape periodic)
        (cs.map (P10.critRename (liftC shape shape (flipC shape a)))))
        (order.map (liftC shape shape (flipC shape a)))) :=
  (flip_axisMap shape periodic a).invariance val order cs horder hseeds val' hval

theorem contains_map_inj (β : Nat → Nat) (hβ : ∀ x y, β x = β y → x = y) (l : List Nat) (b : Nat) :
    (l.map β).contains (β b) = l.contains b := by
  rw [Bool.eq_iff_iff, List.contains_iff_mem, List.contains_iff_mem, List.mem_map]
  constructor
  · rintro ⟨x, hx, e⟩
    rw [← hβ x b e]; exact hx
  · intro h
    exact ⟨b, h, rfl⟩

/-! ### 4. inserting a unit axis -/

/-- insert coordinate `0` at position `j` -/
def insC (j : Nat) (c : List Nat) : List Nat := c.take j ++ [0] ++ c.drop j

/-- the shape with a unit axis inserted at position `j` -/
def insShape (j : Nat) (shape : List Nat) : List Nat := shape.take j ++ [1] ++ shape.drop j

/-- axis `x` of the old grid is axis `insAxis j x` of the new one -/
def insAxis (j x : Nat) : Nat := if x ≥ j then x + 1 else x

theorem getD_ins (j v : Nat) (l : List Nat) (hj : j ≤ l.length) (i : Nat) :
    (l.take j ++ [v] ++ l.drop j).getD i 0 =
      if i < j then l.getD i 0 else if i = j then v else l.getD (i - 1) 0 := by
  simp only [List.getD_eq_getElem?_getD, List.append_assoc, List.getElem?_append,
    List.length_take, Nat.min_eq_left hj, List.getElem?_take, List.getElem?_drop]
  by_cases h1 : i < j
  · simp [h1]
  · by_cases h2 : i = j
    · subst h2; simp
    · have h3 : i - j = (i - j - 1) + 1 := by omega
      have h4 : j + (i - j - 1) = i - 1 := by omega
      simp only [h1, h2, if_false]
      rw [h3]
      simp [h4]

theorem length_ins (j v : Nat) (l : List Nat) (hj : j ≤ l.length) :
    (l.take j ++ [v] ++ l.drop j).length = l.length + 1 := by
  simp only [List.length_append, List.length_take, List.length_drop, Nat.min_eq_left hj,
    List.length_singleton]
  omega

theorem insAxis_inj (j x y : Nat) (h : insAxis j x = insAxis j y) : x = y := by
  unfold insAxis at h
  split at h <;> split at h <;> omega

theorem insAxis_ne (j x : Nat) : insAxis j x ≠ j := by
  unfold insAxis
  split <;> omega

theorem getD_insAxis (j v : Nat) (l : List Nat) (hj : j ≤ l.length) (b : Nat) :
    (l.take j ++ [v] ++ l.drop j).getD (insAxis j b) 0 = l.getD b 0 := by
  rw [getD_ins j v l hj]
  unfold insAxis
  by_cases h : b ≥ j
  · rw [if_pos h, if_neg (by omega), if_neg (by omega)]
    rfl
  · rw [if_neg h, if_pos (by omega)]

theorem unit_axisMap (shape periodic : List Nat) (j : Nat) (hj : j ≤ shape.length) :
    AxisMap shape (insShape j shape) periodic (periodic.map (fun x => if x ≥ j then x + 1 else x))
      (insC j) (insAxis j) (fun _ x => x) where
  range := by
    intro c hc
    have hjc : j ≤ c.length := by rw [hc.1]; exact hj
    refine ⟨by unfold insC insShape; rw [length_ins j 0 c hjc, length_ins j 1 shape hj, hc.1], ?_⟩
    intro i hi
    unfold insShape at hi
    rw [length_ins j 1 shape hj] at hi
    unfold insC insShape
    rw [getD_ins j 0 c hjc, getD_ins j 1 shape hj]
    by_cases h1 : i < j
    · rw [if_pos h1, if_pos h1]; exact hc.2 i (by omega)
    · by_cases h2 : i = j
      · rw [if_neg h1, if_neg h1, if_pos h2, if_pos h2]; exact Nat.zero_lt_one
      · rw [if_neg h1, if_neg h1, if_neg h2, if_neg h2]; exact hc.2 (i - 1) (by omega)
  β_lt := by
    intro b hb
    unfold insShape
    rw [length_ins j 1 shape hj]
    unfold insAxis
    split <;> omega
  β_inj := fun b b' _ _ h => insAxis_inj j b b' h
  get := by
    intro c b hc _
    exact getD_insAxis j 0 c (by rw [hc.1]; exact hj) b
  f_inj := fun _ _ _ _ _ _ h => h
  f_adj := by
    intro b x y _ _ _
    have h1 : (insShape j shape).getD (insAxis j b) 0 = shape.getD b 0 :=
      getD_insAxis j 1 shape hj b
    have h2 : (periodic.map (fun x => if x ≥ j then x + 1 else x)).contains (insAxis j b)
        = periodic.contains b := contains_map_inj (insAxis j) (insAxis_inj j) periodic b
    rw [h1, h2]
  rest := by
    intro i' hi'
    unfold insShape at hi'
    rw [length_ins j 1 shape hj] at hi'
    by_cases h1 : i' < j
    · exact Or.inl ⟨i', by omega, by unfold insAxis; rw [if_neg (by omega)]⟩
    · by_cases h2 : i' = j
      · subst h2
        right
        intro c d hc hd
        have hjc : i' ≤ c.length := by rw [hc.1]; exact hj
        have hjd : i' ≤ d.length := by rw [hd.1]; exact hj
        have e1 : (insC i' c).getD i' 0 = 0 := by
          unfold insC; rw [getD_ins i' 0 c hjc, if_neg (Nat.lt_irrefl _), if_pos rfl]
        have e2 : (insC i' d).getD i' 0 = 0 := by
          unfold insC; rw [getD_ins i' 0 d hjd, if_neg (Nat.lt_irrefl _), if_pos rfl]
        have e3 : (insShape i' shape).getD i' 0 = 1 := by
          unfold insShape; rw [getD_ins i' 1 shape hj, if_neg (Nat.lt_irrefl _), if_pos rfl]
        have e4 : (periodic.map (fun x => if x ≥ i' then x + 1 else x)).contains i' = false := by
          rw [Bool.eq_false_iff]
          intro h
          rw [List.contains_iff_mem, List.mem_map] at h
          obtain ⟨x, _, e⟩ := h
          exact insAxis_ne i' x e
        rw [e1, e2, e3, e4]
        exact ⟨rfl, by decide⟩
      · exact Or.inl ⟨i' - 1, by omega, by unfold insAxis; rw [if_pos (by omega)]; omega⟩

theorem unit_hadj (shape periodic : List Nat) (j : Nat) (hj : j ≤ shape.length)
    (p q : Nat) (hp : p < Grid.size shape) (hq : q < Grid.size shape) :
    q ∈ Grid.nbrs shape periodic p ↔
      liftC shape (insShape j shape) (insC j) q ∈
        Grid.nbrs (insShape j shape) (periodic.map (fun x => if x ≥ j then x + 1 else x))
          (liftC shape (insShape j shape) (insC j) p) :=
  (unit_axisMap shape periodic j hj).hadj p q hp hq

theorem unit_axis_invariance (shape periodic : List Nat) (j : Nat) (hj : j ≤ shape.length)
    (val : Nat → Int) (order : List Nat) (cs : List Crit)
    (horder : ∀ p ∈ order, p < Grid.size shape)
    (hseeds : ∀ c ∈ cs, ∀ s ∈ P10.seedsOf c, s < Grid.size shape)
    (val' : Nat → Int)
    (hval : ∀ p ∈ order, val' (liftC shape (insShape j shape) (insC j) p) = val p) :
    P10.SimL (liftC shape (insShape j shape) (insC j))
      (run (envOf val (Grid.nbrs shape periodic) cs) order)
      (run (envOf val'
          (Grid.nbrs (insShape j shape) (periodic.map (fun x => if x ≥ j then x + 1 else x)))
          (cs.map (P10.critRename (liftC shape (insShape j shape) (insC j)))))
        (order.map (liftC shape (insShape j shape) (insC j)))) :=
  (unit_axisMap shape periodic j hj).invariance val order cs horder hseeds val' hval

/-! ### 5. padding (non-periodic grids) -/

/-- move the coordinates by the low padding -/
def padC (lo : List Nat) (c : List Nat) : List Nat := List.zipWith (· + ·) c lo

/-- the padded shape `n + l + h` per axis (core Lean has no `zipWith3`) -/
def padShape (shape lo hi : List Nat) : List Nat :=
  List.zipWith (· + ·) (List.zipWith (· + ·) shape lo) hi

theorem getD_zipWith_add (a b : List Nat) (h : a.length = b.length) (i : Nat) :
    (List.zipWith (· + ·) a b).getD i 0 = a.getD i 0 + b.getD i 0 := by
  simp only [List.getD_eq_getElem?_getD, List.getElem?_zipWith]
  by_cases hi : i < a.length
  · have hi' : i < b.length := h ▸ hi
    simp [List.getElem?_eq_getElem hi, List.getElem?_eq_getElem hi']
  · have h1 : a.length ≤ i := Nat.le_of_not_lt hi
    have h2 : b.length ≤ i := h ▸ h1
    simp [List.getElem?_eq_none h1, List.getElem?_eq_none h2]

theorem axis_pad (n l h x y : Nat) (hx : x < n) (hy : y < n) :
    y ∈ Grid.axisNbrs n false x ↔ y + l ∈ Grid.axisNbrs (n + l + h) false (x + l) := by
  rw [axisNbrs_mem n false x y hx, axisNbrs_mem (n + l + h) false _ _ (by omega)]
  simp
  omega

theorem pad_axisMap (shape lo hi : List Nat) (hlo : lo.length = shape.length)
    (hhi : hi.length = shape.length) :
    AxisMap shape (padShape shape lo hi) [] [] (padC lo) (fun b => b)
      (fun b x => x + lo.getD b 0) where
  range := by
    intro c hc
    refine ⟨by simp [padC, padShape, hc.1, hlo, hhi], ?_⟩
    intro i hi'
    have hil : i < shape.length := by simpa [padShape, hlo, hhi] using hi'
    unfold padC padShape
    rw [getD_zipWith_add c lo (by rw [hc.1, hlo]),
      getD_zipWith_add _ hi (by simp [hlo, hhi]), getD_zipWith_add shape lo hlo.symm]
    have := hc.2 i hil
    omega
  β_lt := by
    intro b hb
    simpa [padShape, hlo, hhi] using hb
  β_inj := fun b b' _ _ h => h
  get := by
    intro c b hc _
    exact getD_zipWith_add c lo (by rw [hc.1, hlo]) b
  f_inj := by
    intro b x y _ _ _ h
    omega
  f_adj := by
    intro b x y _ hx hy
    have h1 : (padShape shape lo hi).getD b 0 = shape.getD b 0 + lo.getD b 0 + hi.getD b 0 := by
      unfold padShape
      rw [getD_zipWith_add _ hi (by simp [hlo, hhi]), getD_zipWith_add shape lo hlo.symm]
    rw [h1]
    exact axis_pad _ _ _ x y hx hy
  rest := by
    intro i' hi'
    exact Or.inl ⟨i', by simpa [padShape, hlo, hhi] using hi', rfl⟩

theorem pad_hadj (shape lo hi : List Nat) (hlo : lo.length = shape.length)
    (hhi : hi.length = shape.length)
    (p q : Nat) (hp : p < Grid.size shape) (hq : q < Grid.size shape) :
    q ∈ Grid.nbrs shape [] p ↔
      liftC shape (padShape shape lo hi) (padC lo) q ∈
        Grid.nbrs (padShape shape lo hi) [] (liftC shape (padShape shape lo hi) (padC lo) p) :=
  (pad_axisMap shape lo hi hlo hhi).hadj p q hp hq

theorem pad_invariance (shape lo hi : List Nat) (hlo : lo.length = shape.length)
    (hhi : hi.length = shape.length)
    (val : Nat → Int) (order : List Nat) (cs : List Crit)
    (horder : ∀ p ∈ order, p < Grid.size shape)
    (hseeds : ∀ c ∈ cs, ∀ s ∈ P10.seedsOf c, s < Grid.size shape)
    (val' : Nat → Int)
    (hval : ∀ p ∈ order, val' (liftC shape (padShape shape lo hi) (padC lo) p) = val p) :
    P10.SimL (liftC shape (padShape shape lo hi) (padC lo))
      (run (envOf val (Grid.nbrs shape []) cs) order)
      (run (envOf val' (Grid.nbrs (padShape shape lo hi) [])
          (cs.map (P10.critRename (liftC shape (padShape shape lo hi) (padC lo)))))
        (order.map (liftC shape (padShape shape lo hi) (padC lo)))) :=
  (pad_axisMap shape lo hi hlo hhi).invariance val order cs horder hseeds val' hval

/-! ### 3. permuting the axes; swapping two adjacent axes -/

/-- new axis `i` holds old axis `τ i` -/
def permC (τ : Nat → Nat) (c : List Nat) : List Nat :=
  (List.range c.length).map (fun i => c.getD (τ i) 0)

theorem getD_permC (τ : Nat → Nat) (c : List Nat) (i : Nat) (hi : i < c.length) :
    (permC τ c).getD i 0 = c.getD (τ i) 0 := by
  simp [permC, List.getD_eq_getElem?_getD, hi]

theorem length_permC (τ : Nat → Nat) (c : List Nat) : (permC τ c).length = c.length := by
  simp [permC]

/-- general axis permutation: `τ` and `τ'` are mutually inverse and preserve `[0, ndim)`; the
new axis `i` is the old axis `τ i`, so the old axis `x` becomes the new axis `τ' x`. -/
theorem perm_axisMap (shape periodic : List Nat) (τ τ' : Nat → Nat)
    (h1 : ∀ i, τ (τ' i) = i) (h2 : ∀ i, τ' (τ i) = i)
    (hτ : ∀ i, i < shape.length → τ i < shape.length)
    (hτ' : ∀ i, i < shape.length → τ' i < shape.length) :
    AxisMap shape (permC τ shape) periodic (periodic.map τ') (permC τ) τ' (fun _ x => x) where
  range := by
    intro c hc
    refine ⟨by rw [length_permC, length_permC, hc.1], ?_⟩
    intro i hi
    rw [length_permC] at hi
    rw [getD_permC τ c i (by rw [hc.1]; exact hi), getD_permC τ shape i hi]
    exact hc.2 (τ i) (hτ i hi)
  β_lt := by
    intro b hb
    rw [length_permC]
    exact hτ' b hb
  β_inj := by
    intro b b' _ _ h
    rw [← h1 b, ← h1 b', h]
  get := by
    intro c b hc hb
    rw [getD_permC τ c (τ' b) (by rw [hc.1]; exact hτ' b hb), h1]
  f_inj := fun _ _ _ _ _ _ h => h
  f_adj := by
    intro b x y hb _ _
    have e1 : (permC τ shape).getD (τ' b) 0 = shape.getD b 0 := by
      rw [getD_permC τ shape (τ' b) (hτ' b hb), h1]
    have e2 : (periodic.map τ').contains (τ' b) = periodic.contains b :=
      contains_map_inj τ' (fun x y h => by rw [← h1 x, ← h1 y, h]) periodic b
    rw [e1, e2]
  rest := by
    intro i' hi'
    rw [length_permC] at hi'
    exact Or.inl ⟨τ i', hτ i' hi', h2 i'⟩

theorem perm_hadj (shape periodic : List Nat) (τ τ' : Nat → Nat)
    (h1 : ∀ i, τ (τ' i) = i) (h2 : ∀ i, τ' (τ i) = i)
    (hτ : ∀ i, i < shape.length → τ i < shape.length)
    (hτ' : ∀ i, i < shape.length → τ' i < shape.length)
    (p q : Nat) (hp : p < Grid.size shape) (hq : q < Grid.size shape) :
    q ∈ Grid.nbrs shape periodic p ↔
      liftC shape (permC τ shape) (permC τ) q ∈
        Grid.nbrs (permC τ shape) (periodic.map τ') (liftC shape (permC τ shape) (permC τ) p) :=
  (perm_axisMap shape periodic τ τ' h1 h2 hτ hτ').hadj p q hp hq

theorem perm_invariance (shape periodic : List Nat) (τ τ' : Nat → Nat)
    (h1 : ∀ i, τ (τ' i) = i) (h2 : ∀ i, τ' (τ i) = i)
    (hτ : ∀ i, i < shape.length → τ i < shape.length)
    (hτ' : ∀ i, i < shape.length → τ' i < shape.length)
    (val : Nat → Int) (order : List Nat) (cs : List Crit)
    (horder : ∀ p ∈ order, p < Grid.size shape)
    (hseeds : ∀ c ∈ cs, ∀ s ∈ P10.seedsOf c, s < Grid.size shape)
    (val' : Nat → Int)
    (hval : ∀ p ∈ order, val' (liftC shape (permC τ shape) (permC τ) p) = val p) :
    P10.SimL (liftC shape (permC τ shape) (permC τ))
      (run (envOf val (Grid.nbrs shape periodic) cs) order)
      (run (envOf val' (Grid.nbrs (permC τ shape) (periodic.map τ'))
          (cs.map (P10.critRename (liftC shape (permC τ shape) (permC τ)))))
        (order.map (liftC shape (permC τ shape) (permC τ)))) :=
  (perm_axisMap shape periodic τ τ' h1 h2 hτ hτ').invariance val order cs horder hseeds val' hval

/-- the transposition of the axes `a` and `a+1` -/
def swapIdx (a x : Nat) : Nat := if x = a then a + 1 else if x = a + 1 then a else x

/-- swap the entries `a` and `a+1` of `c` -/
def swapC (a : Nat) (c : List Nat) : List Nat := permC (swapIdx a) c

example : swapC 1 [5, 6, 7, 8] = [5, 7, 6, 8] := by decide
example : swapC 0 [3, 4] = [4, 3] := by decide

theorem swapIdx_swapIdx (a i : Nat) : swapIdx a (swapIdx a i) = i := by
  unfold swapIdx
  split <;> split <;> (try split) <;> omega

theorem swapIdx_lt (a n : Nat) (ha : a + 1 < n) (i : Nat) (hi : i < n) : swapIdx a i < n := by
  unfold swapIdx
  split <;> (try split) <;> omega

theorem swap_hadj (shape periodic : List Nat) (a : Nat) (ha : a + 1 < shape.length)
    (p q : Nat) (hp : p < Grid.size shape) (hq : q < Grid.size shape) :
    q ∈ Grid.nbrs shape periodic p ↔
      liftC shape (swapC a shape) (swapC a) q ∈
        Grid.nbrs (swapC a shape)
          (periodic.map (fun x => if x = a then a + 1 else if x = a + 1 then a else x))
          (liftC shape (swapC a shape) (swapC a) p) :=
  perm_hadj shape periodic (swapIdx a) (swapIdx a) (swapIdx_swapIdx a) (swapIdx_swapIdx a)
    (swapIdx_lt a _ ha) (swapIdx_lt a _ ha) p q hp hq

theorem swap_invariance (shape periodic : List Nat) (a : Nat) (ha : a + 1 < shape.length)
    (val : Nat → Int) (order : List Nat) (cs : List Crit)
    (horder : ∀ p ∈ order, p < Grid.size shape)
    (hseeds : ∀ c ∈ cs, ∀ s ∈ P10.seedsOf c, s < Grid.size shape)
    (val' : Nat → Int)
    (hval : ∀ p ∈ order, val' (liftC shape (swapC a shape) (swapC a) p) = val p) :
    P10.SimL (liftC shape (swapC a shape) (swapC a))
      (run (envOf val (Grid.nbrs shape periodic) cs) order)
      (run (envOf val' (Grid.nbrs (swapC a shape)
            (periodic.map (fun x => if x = a then a + 1 else if x = a + 1 then a else x)))
          (cs.map (P10.critRename (liftC shape (swapC a shape) (swapC a)))))
        (order.map (liftC shape (swapC a shape) (swapC a)))) :=
  perm_invariance shape periodic (swapIdx a) (swapIdx a) (swapIdx_swapIdx a) (swapIdx_swapIdx a)
    (swapIdx_lt a _ ha) (swapIdx_lt a _ ha) val order cs horder hseeds val' hval

/-- the 2-D transpose is the instance `a = 0` -/
example (n0 n1 : Nat) : swapC 0 [n0, n1] = [n1, n0] := rfl

end P19
