import ADModel
/-!
# ADProofs.PickProofs — line picking in the viewer (property C19)

viewer.py:241-272: `peaks = [structure of line i .get_peak()[1] for i in ind];
ind[np.argmax(peaks)]` — numpy's `argmax` returns the FIRST maximal element.

All declarations live in namespace `P29b`.
-/

namespace P29b

/-- index of the first maximal element (`np.argmax`); `0` for `[]` -/
def argmaxFirst : List Int → Nat
  | [] => 0
  | x :: xs => if xs.all (fun y => decide (y ≤ x)) then 0 else argmaxFirst xs + 1

/-- the structure selected by a pick event: `ind` are the indices of the lines hit by the
    event, `lineStruct` maps a line index to its structure, `peak` gives the peak value of a
    structure -/
def pickLine (lineStruct : List Nat) (peak : Nat → Int) (ind : List Nat) : Option Nat :=
  if ind = [] then none
  else some (lineStruct.getD
    (ind.getD (argmaxFirst (ind.map fun i => peak (lineStruct.getD i 0))) 0) 0)

theorem getD_of_lt {α : Type} (l : List α) (k : Nat) (d : α) (h : k < l.length) :
    l.getD k d = l[k] := by
  simp [List.getD_eq_getElem?_getD, h]

theorem argmaxFirst_lt (l : List Int) (h : l ≠ []) : argmaxFirst l < l.length := by
  induction l with
  | nil => exact absurd rfl h
  | cons x xs ih =>
    unfold argmaxFirst
    split
    · simp
    · next hall =>
      have hne : xs ≠ [] := by
        intro he; subst he; simp at hall
      have := ih hne
      simp only [List.length_cons]; omega

/-- the selected element is maximal -/
theorem argmaxFirst_max (l : List Int) : ∀ y ∈ l, y ≤ l.getD (argmaxFirst l) 0 := by
  induction l with
  | nil => intro y hy; simp at hy
  | cons x xs ih =>
    intro y hy
    unfold argmaxFirst
    split
    · next hall =>
      simp only [List.getD_cons_zero]
      rcases List.mem_cons.mp hy with rfl | hy'
      · exact Int.le_refl _
      · have := List.all_eq_true.mp hall y hy'
        simpa using this
    · next hall =>
      simp only [List.getD_cons_succ]
      rcases List.mem_cons.mp hy with rfl | hy'
      · have : ∃ z ∈ xs, ¬ z ≤ y := by
          simpa [List.all_eq_true] using hall
        obtain ⟨z, hz, hzy⟩ := this
        have := ih z hz
        omega
      · exact ih y hy'

/-- every element before the selected one is strictly smaller: the selected element is the
    FIRST maximal one -/
theorem argmaxFirst_first (l : List Int) :
    ∀ j < argmaxFirst l, l.getD j 0 < l.getD (argmaxFirst l) 0 := by
  induction l with
  | nil => intro j hj; simp [argmaxFirst] at hj
  | cons x xs ih =>
    intro j hj
    unfold argmaxFirst at hj ⊢
    split
    · next hall => simp [hall] at hj
    · next hall =>
      simp only [hall] at hj
      simp only [List.getD_cons_succ]
      cases j with
      | zero =>
        simp only [List.getD_cons_zero]
        have : ∃ z ∈ xs, ¬ z ≤ x := by
          simpa [List.all_eq_true] using hall
        obtain ⟨z, hz, hzx⟩ := this
        have := argmaxFirst_max xs z hz
        omega
      | succ j =>
        simp only [List.getD_cons_succ]
        exact ih j (by simpa using hj)

/-- `argmaxFirst` is characterised by the three properties above: any in-range index whose
    element is maximal and strictly above everything before it is `argmaxFirst l` -/
theorem argmaxFirst_unique (l : List Int) (k : Nat) (hk : k < l.length)
    (hmax : ∀ y ∈ l, y ≤ l.getD k 0) (hfirst : ∀ j < k, l.getD j 0 < l.getD k 0) :
    k = argmaxFirst l := by
  have hne : l ≠ [] := by intro h; subst h; simp at hk
  have hlt := argmaxFirst_lt l hne
  rcases Nat.lt_trichotomy k (argmaxFirst l) with h | h | h
  · have h1 := argmaxFirst_first l k h
    have h2 := hmax (l.getD (argmaxFirst l) 0) (by
      rw [getD_of_lt _ _ _ hlt]; exact List.getElem_mem _)
    omega
  · exact h
  · have h1 := hfirst _ h
    have h2 := argmaxFirst_max l (l.getD k 0) (by
      rw [getD_of_lt _ _ _ hk]; exact List.getElem_mem _)
    omega

theorem pickLine_none_iff (ls : List Nat) (peak : Nat → Int) (ind : List Nat) :
    pickLine ls peak ind = none ↔ ind = [] := by
  unfold pickLine; split <;> simp [*]

/-- position of the picked line inside `ind` -/
def pickPos (ls : List Nat) (peak : Nat → Int) (ind : List Nat) : Nat :=
  argmaxFirst (ind.map fun i => peak (ls.getD i 0))

theorem pickPos_lt (ls : List Nat) (peak : Nat → Int) (ind : List Nat) (h : ind ≠ []) :
    pickPos ls peak ind < ind.length := by
  have := argmaxFirst_lt (ind.map fun i => peak (ls.getD i 0)) (by simpa using h)
  simpa [pickPos] using this

theorem pickLine_some (ls : List Nat) (peak : Nat → Int) (ind : List Nat) (s : Nat)
    (h : pickLine ls peak ind = some s) :
    ind ≠ [] ∧ s = ls.getD (ind.getD (pickPos ls peak ind) 0) 0 := by
  unfold pickLine at h
  split at h
  · simp at h
  · next hne => exact ⟨hne, by simpa [pickPos] using h.symm⟩

theorem getD_map_peak (ls : List Nat) (peak : Nat → Int) (ind : List Nat) (k : Nat)
    (hk : k < ind.length) :
    (ind.map fun i => peak (ls.getD i 0)).getD k 0 = peak (ls.getD (ind.getD k 0) 0) := by
  rw [getD_of_lt _ _ _ (by simpa using hk), getD_of_lt _ _ _ hk]
  simp

/-- the picked structure is the structure of one of the lines hit by the event -/
theorem pick_is_picked {ls : List Nat} {peak : Nat → Int} {ind : List Nat} {s : Nat} :
    pickLine ls peak ind = some s → ∃ i ∈ ind, s = ls.getD i 0 := by
  intro h
  obtain ⟨hne, hs⟩ := pickLine_some ls peak ind s h
  have hk := pickPos_lt ls peak ind hne
  refine ⟨ind.getD (pickPos ls peak ind) 0, ?_, hs⟩
  rw [getD_of_lt _ _ _ hk]; exact List.getElem_mem _

/-- the picked structure has the highest peak among the lines hit by the event -/
theorem pick_has_max_peak {ls : List Nat} {peak : Nat → Int} {ind : List Nat} {s : Nat} :
    pickLine ls peak ind = some s → ∀ i ∈ ind, peak (ls.getD i 0) ≤ peak s := by
  intro h i hi
  obtain ⟨hne, hs⟩ := pickLine_some ls peak ind s h
  have hk := pickPos_lt ls peak ind hne
  have := argmaxFirst_max (ind.map fun i => peak (ls.getD i 0)) (peak (ls.getD i 0))
    (List.mem_map.mpr ⟨i, hi, rfl⟩)
  rw [getD_map_peak ls peak ind _ (by simpa [pickPos] using hk)] at this
  rw [hs]; exact this

/-- ties are broken towards the first line: every line listed before the picked one has a
    strictly lower peak -/
theorem pick_first_among_ties {ls : List Nat} {peak : Nat → Int} {ind : List Nat} {s : Nat} :
    pickLine ls peak ind = some s →
    ∀ j < pickPos ls peak ind, peak (ls.getD (ind.getD j 0) 0) < peak s := by
  intro h j hj
  obtain ⟨hne, hs⟩ := pickLine_some ls peak ind s h
  have hk := pickPos_lt ls peak ind hne
  have := argmaxFirst_first (ind.map fun i => peak (ls.getD i 0)) j hj
  rw [getD_map_peak ls peak ind j (by omega),
    getD_map_peak ls peak ind _ (by simpa [pickPos] using hk)] at this
  rw [hs]; exact this

end P29b
