/-! connectivity inside a pixel set; star-join lemma — core Lean only -/

/-- `Conn nb S a b`: `b` reachable from `a` by steps along `nb` whose targets lie in `S` -/
inductive Conn (nb : Nat → List Nat) (S : Nat → Prop) : Nat → Nat → Prop
  | refl (a) : Conn nb S a a
  | tail {a b c} : Conn nb S a b → c ∈ nb b → S c → Conn nb S a c

namespace Conn
variable {nb : Nat → List Nat} {S T : Nat → Prop}

theorem trans {a b c} (h1 : Conn nb S a b) (h2 : Conn nb S b c) : Conn nb S a c := by
  induction h2 with
  | refl => exact h1
  | tail _ hn hs ih => exact .tail ih hn hs

theorem mono (h : ∀ x, S x → T x) {a b} (hc : Conn nb S a b) : Conn nb T a b := by
  induction hc with
  | refl => exact .refl _
  | tail _ hn hs ih => exact .tail ih hn (h _ hs)

theorem single {a b} (hn : b ∈ nb a) (hs : S b) : Conn nb S a b := .tail (.refl a) hn hs

/-- symmetric adjacency ⇒ symmetric connectivity (the start point must be in `S`) -/
theorem symm (hsym : ∀ x y, y ∈ nb x → x ∈ nb y) {a b} (ha : S a) (h : Conn nb S a b) : Conn nb S b a := by
  induction h with
  | refl => exact .refl _
  | @tail b c _ hn hs ih =>
    have hb : S b ∨ b = a := by
      clear ih hn hs
      rename_i hab
      cases hab with
      | refl => exact Or.inr rfl
      | tail _ _ hs' => exact Or.inl hs'
    have hbS : S b := by rcases hb with h | h; exact h; exact h ▸ ha
    exact trans (single (hsym _ _ hn) hbS) ih
end Conn

def ConnSet (nb : Nat → List Nat) (S : Nat → Prop) : Prop := ∀ a b, S a → S b → Conn nb S a b

theorem connSet_congr {nb : Nat → List Nat} {S T : Nat → Prop} (h : ∀ x, S x ↔ T x) (hs : ConnSet nb S) : ConnSet nb T := by
  intro a b ha hb
  exact (hs a b ((h a).mpr ha) ((h b).mpr hb)).mono (fun x hx => (h x).mp hx)

/-- star join: `p` joins a family of connected sets each containing a neighbour of `p` -/
theorem star_join (nb : Nat → List Nat) (hsym : ∀ x y, y ∈ nb x → x ∈ nb y)
    (p : Nat) (parts : List (Nat → Prop))
    (hconn : ∀ P ∈ parts, ConnSet nb P)
    (htouch : ∀ P ∈ parts, ∃ q, P q ∧ q ∈ nb p) :
    ConnSet nb (fun x => x = p ∨ ∃ P ∈ parts, P x) := by
  let U : Nat → Prop := fun x => x = p ∨ ∃ P ∈ parts, P x
  have toP : ∀ x, U x → Conn nb U x p := by
    intro x hx
    rcases hx with rfl | ⟨P, hP, hPx⟩
    · exact .refl _
    · obtain ⟨q, hPq, hq⟩ := htouch P hP
      have h1 : Conn nb U x q := (hconn P hP x q hPx hPq).mono (fun y hy => Or.inr ⟨P, hP, hy⟩)
      exact .tail h1 (hsym _ _ hq) (Or.inl rfl)
  intro a b ha hb
  have h1 := toP a ha
  have h2 := (toP b hb).symm hsym hb
  exact h1.trans h2
