import ADProofs.CacheProofs

/-!
# GrowProofs (P37): the cached `Structure.ancestor` during `Dendrogram.compute`

`P17.history_sound` (CacheProofs) covers cached queries interleaved with *prunes*.  This file covers the
compute-time use (dendrogram.py:245-321): `structures[a].ancestor` is called for every labelled neighbour
on every step, while new leaves are created, new branches are created *above current roots* with
`Structure(coord, value, children=adjacent, idx=...)` (structure.py:59-86: `child.parent = self` for the
children, `_reset_cache()` of the new object only), and absorbed parentless leaves are removed with
`structures.pop(m.idx)`.

Definitions (executable, core Lean only):
* `Heap.newLeaf`, `Heap.attach`, `Heap.dropLeaf` : the three heap mutations of the pixel loop;
* `GOp`, `LegalG`, `stepG`, `LegalGrow`, `runGrow`, `traceGrow` : grow histories, legality, and the
  (cached answer, `specRoot` from the live links) pairs of the queries (`traceGrow` also records the heap);
* `AncSound` : every cached `_ancestor` of an alive object is a proper ancestor on the live parent chain.
  This is the `anc` field of `P17.CacheOK`.  The full `P17.Sound` cannot be used here: it demands
  `_level = 0` on parentless objects (seeded by `_make_trunk` only after the loop), which is false for
  freshly constructed structures (`newLeaf_not_sound`).  `P17.Sound` implies `AncSound` (`Sound.ancSound`).

Theorems:
* `P17.Reach.persist` : "once an object has been given a parent, that parent never changes" => every
  proper-ancestor fact survives;  `attach_inv`, `newLeaf_inv`, `dropLeaf_inv`, `ancestor_grow`, `stepG_inv` :
  every legal grow operation preserves `WF` (including the rank witness) and `AncSound`;
* `grow_history_sound` : MAIN; `grow_trace_sound`, `grow_invariant` : the same from any `WF`, `AncSound` heap;
* `seed_sound`, `grow_seed_sound` : after the loop, the trunk seeding gives `P17.WF` and `P17.Sound`, i.e. the
  hypotheses of `P17.history_sound`;
* `illegal_attach_stale_witness`, `reparent_stale_witness` : sharpness - re-parenting an object that
  already has a parent after a query makes the cached answer differ from `specRoot`.
-/

namespace Heap

/-- `Structure(coord, value, idx=i)` ; `structures[i] = leaf` : a fresh parentless object, all caches empty
    (precondition: `i` is not yet an object) -/
def newLeaf (h : Heap) (i : Nat) : Heap :=
  { objs := { id := i } :: h.objs, alive := i :: h.alive }

/-- `Structure(coord, value, children=ks, idx=b)` ; `structures[b] = branch` : for every child the assignment
    `child.parent = self` and nothing else (the caches of the children and of everything below them stay as
    they are); the new object has `kids := ks` and empty caches
    (preconditions: `b` fresh, every `k ∈ ks` alive and parentless, `ks` duplicate-free) -/
def attach (h : Heap) (b : Nat) (ks : List Nat) : Heap :=
  let h1 := ks.foldl (fun acc c => acc.update c (fun co => { co with parent := some b })) h
  { objs := { id := b, kids := ks } :: h1.objs, alive := b :: h1.alive }

/-- `structures.pop(m.idx)` for an absorbed parentless childless object: the key is removed, the object
    itself stays reachable -/
def dropLeaf (h : Heap) (m : Nat) : Heap := { h with alive := h.alive.erase m }

end Heap

namespace P37
open Heap P17

/-- operations of the pixel loop of `compute` -/
inductive GOp where
  | newLeaf (i : Nat)
  | attach (b : Nat) (ks : List Nat)
  | dropLeaf (m : Nat)
  | qAnc (i : Nat)
deriving Repr, Inhabited, DecidableEq

/-- legality of a grow operation in a heap -/
def LegalG (h : Heap) : GOp → Prop
  | .newLeaf i => h.get i = none
  | .attach b ks => h.get b = none ∧ ks.Nodup ∧
      ∀ k ∈ ks, k ∈ h.alive ∧ (h.get k).bind (·.parent) = none
  | .dropLeaf m => m ∈ h.alive ∧ (h.get m).bind (·.parent) = none ∧
      ((h.get m).map (·.kids)).getD [] = []
  | .qAnc i => i ∈ h.alive

instance decLegalG (h : Heap) : (op : GOp) → Decidable (LegalG h op)
  | .newLeaf i => inferInstanceAs (Decidable (h.get i = none))
  | .attach b ks => inferInstanceAs (Decidable (h.get b = none ∧ ks.Nodup ∧
      ∀ k ∈ ks, k ∈ h.alive ∧ (h.get k).bind (·.parent) = none))
  | .dropLeaf m => inferInstanceAs (Decidable (m ∈ h.alive ∧ (h.get m).bind (·.parent) = none ∧
      ((h.get m).map (·.kids)).getD [] = []))
  | .qAnc i => inferInstanceAs (Decidable (i ∈ h.alive))

/-- one grow operation (queries update the cache of the queried object) -/
def stepG (h : Heap) : GOp → Heap
  | .newLeaf i => h.newLeaf i
  | .attach b ks => h.attach b ks
  | .dropLeaf m => h.dropLeaf m
  | .qAnc i => (h.ancestor h.size i).1

/-- for every `qAnc i` of the history: (answer of the cached `ancestor`, `specRoot` from the live links) -/
def runGrow : Heap → List GOp → List (Option Nat × Option Nat)
  | _, [] => []
  | h, .qAnc i :: ops =>
    ((h.ancestor h.size i).2, h.specRoot h.size i) :: runGrow (stepG h (.qAnc i)) ops
  | h, op :: ops => runGrow (stepG h op) ops

/-- `runGrow` with the heap in which each query is asked -/
def traceGrow : Heap → List GOp → List (Heap × Option Nat × Option Nat)
  | _, [] => []
  | h, .qAnc i :: ops =>
    (h, (h.ancestor h.size i).2, h.specRoot h.size i) :: traceGrow (stepG h (.qAnc i)) ops
  | h, op :: ops => traceGrow (stepG h op) ops

/-- every operation of the history is legal in the heap it is applied to -/
def LegalGrow : Heap → List GOp → Prop
  | _, [] => True
  | h, op :: ops => LegalG h op ∧ LegalGrow (stepG h op) ops

instance decLegalGrow : (h : Heap) → (ops : List GOp) → Decidable (LegalGrow h ops)
  | _, [] => isTrue trivial
  | h, op :: ops =>
    have := decLegalGrow (stepG h op) ops
    inferInstanceAs (Decidable (LegalG h op ∧ LegalGrow (stepG h op) ops))

/-- every cached `_ancestor` of an alive object is a proper ancestor on the live parent chain -/
def AncSound (h : Heap) : Prop :=
  ∀ i ∈ h.alive, ∀ o, h.get i = some o → ∀ a, o.anc = some a → Reach h i a

/-! ## get lemmas -/

theorem get_newLeaf (h : Heap) (i j : Nat) :
    (h.newLeaf i).get j = if j = i then some { id := i } else h.get j := by
  unfold Heap.newLeaf Heap.get
  simp only [List.find?_cons]
  by_cases hji : j = i
  · subst hji; simp
  · have : (i == j) = false := by simp; exact fun e => hji e.symm
    simp [this, hji]

theorem get_attach (h : Heap) (b : Nat) (ks : List Nat) (x : Nat) :
    (h.attach b ks).get x =
      if x = b then some { id := b, kids := ks }
      else if x ∈ ks then (h.get x).map (fun co => { co with parent := some b }) else h.get x := by
  have key := get_foldl_setParent b ks h x
  unfold Heap.get at key
  unfold Heap.attach Heap.get
  simp only [List.find?_cons]
  by_cases hxb : x = b
  · subst hxb; simp
  · have : (b == x) = false := by simp; exact fun e => hxb e.symm
    simp only [this, hxb, if_false]
    exact key

theorem attach_alive (h : Heap) (b : Nat) (ks : List Nat) : (h.attach b ks).alive = b :: h.alive := by
  unfold Heap.attach
  simp only [foldl_setParent_alive]

theorem attach_size (h : Heap) (b : Nat) (ks : List Nat) : (h.attach b ks).size = h.size + 1 := by
  have := foldl_setParent_size b ks h
  unfold Heap.size at this ⊢
  unfold Heap.attach
  simp only [List.length_cons]
  omega

theorem newLeaf_size (h : Heap) (i : Nat) : (h.newLeaf i).size = h.size + 1 := by
  simp [Heap.newLeaf, Heap.size]

/-! ## the "parent never changes" lemma -/

/-- if no object that has a parent gets a different one, proper ancestors stay proper ancestors -/
theorem _root_.P17.Reach.persist {h h' : Heap}
    (hp : ∀ x o p, h.get x = some o → o.parent = some p → ∃ o', h'.get x = some o' ∧ o'.parent = some p)
    {i a : Nat} (r : Reach h i a) : Reach h' i a := by
  induction r with
  | one hg hpar => obtain ⟨o', hg', hp'⟩ := hp _ _ _ hg hpar; exact .one hg' hp'
  | step hg hpar _ ih => obtain ⟨o', hg', hp'⟩ := hp _ _ _ hg hpar; exact .step hg' hp' ih

theorem Sound.ancSound {h : Heap} (hs : Sound h) : AncSound h := by
  intro i hi o hg a ha
  have := (hs i hi o hg).anc a ha
  rwa [get_id hg] at this

/-! ## the cached query under `AncSound` -/

theorem walkAnc_grow {h : Heap} (w : WF h) (hs : AncSound h) {rk} (hr : RankOK h rk) (fuel a : Nat)
    (ha : a ∈ h.alive) (hf : rk a < fuel) :
    ∃ r, h.walkAnc fuel a = some r ∧ h.specRoot h.size a = some r := by
  induction fuel generalizing a with
  | zero => omega
  | succ fuel ih =>
    obtain ⟨ao, hg⟩ := w.alive_get a ha
    unfold Heap.walkAnc
    simp only [hg]
    cases hp : ao.parent with
    | none => exact ⟨a, rfl, specRoot_root hg hp⟩
    | some ap =>
      simp only []
      cases hc : ao.anc with
      | some aa =>
        simp only []
        have t : Reach h a aa := hs a ha ao hg aa hc
        have := t.alive_rank w hr ha
        obtain ⟨r, h1, h2⟩ := ih aa this.1 (by omega)
        exact ⟨r, h1, t.specRoot w ha h2⟩
      | none =>
        simp only []
        have hpa := (w.parent_ok a ha ao hg ap hp).1
        have := (hr a ha ao hg).2 ap hp
        obtain ⟨r, h1, h2⟩ := ih ap hpa (by omega)
        exact ⟨r, h1, specRoot_step w ha hg hp h2⟩

theorem specRoot_parentless {h : Heap} {n a r : Nat} (hv : h.specRoot n a = some r) :
    ∃ ro, h.get r = some ro ∧ ro.parent = none := by
  induction n generalizing a with
  | zero => simp [Heap.specRoot] at hv
  | succ n ih =>
    unfold Heap.specRoot at hv
    cases hg : h.get a with
    | none => simp [hg] at hv
    | some o =>
      simp only [hg] at hv
      cases hp : o.parent with
      | none => simp [hp] at hv; subst hv; exact ⟨o, hg, hp⟩
      | some p => simp only [hp] at hv; exact ih hv

theorem ancSound_setAnc {h : Heap} (hs : AncSound h) {i r : Nat} (tr : Reach h i r) :
    AncSound (h.update i (fun o => { o with anc := some r })) := by
  have s := sameLinks_update h i (fun o => { o with anc := some r }) (fun _ => rfl) (fun _ => rfl) (fun _ => rfl)
  intro j hj o' hg' a ha
  rw [get_update h i (fun o => { o with anc := some r }) (fun _ => rfl)] at hg'
  apply Reach.same s
  split at hg'
  · subst j
    cases hg : h.get i with
    | none => simp [hg] at hg'
    | some o =>
      simp [hg] at hg'
      subst hg'
      simp at ha
      subst ha
      exact tr
  · exact hs j hj o' hg' a ha

theorem ancestor_grow (h : Heap) (i : Nat) (hwf : WF h) (hs : AncSound h) (hi : i ∈ h.alive) :
    (h.ancestor h.size i).2 = h.specRoot h.size i ∧
    (∃ r ro, (h.ancestor h.size i).2 = some r ∧ r ∈ h.alive ∧ h.get r = some ro ∧ ro.parent = none) ∧
    WF (h.ancestor h.size i).1 ∧ AncSound (h.ancestor h.size i).1 ∧
    SameLinks h (h.ancestor h.size i).1 := by
  obtain ⟨rk, hr⟩ := hwf.rank
  suffices hsuff : (h.ancestor h.size i).2 = h.specRoot h.size i ∧ AncSound (h.ancestor h.size i).1 ∧
      SameLinks h (h.ancestor h.size i).1 by
    refine ⟨hsuff.1, ?_, hwf.same hsuff.2.2, hsuff.2.1, hsuff.2.2⟩
    obtain ⟨r, hr'⟩ := specRoot_isSome hwf hr h.size i hi (by
      obtain ⟨o, hg⟩ := hwf.alive_get i hi
      exact (hr i hi o hg).1)
    obtain ⟨ro, hgr, hpr⟩ := specRoot_parentless hr'
    refine ⟨r, ro, by rw [hsuff.1, hr'], ?_, hgr, hpr⟩
    rcases specRoot_reach hr' with e | t
    · rw [← e]; exact hi
    · exact (t.alive_rank hwf hr hi).1
  obtain ⟨o, hg⟩ := hwf.alive_get i hi
  unfold Heap.ancestor
  simp only [hg]
  cases hp : o.parent with
  | none => exact ⟨(specRoot_root hg hp).symm, hs, .refl h⟩
  | some p =>
    simp only []
    have hrk := hr i hi o hg
    have t : Reach h i (o.anc.getD p) := by
      cases ha : o.anc with
      | none => exact .one hg hp
      | some a => simpa using hs i hi o hg a ha
    have har := t.alive_rank hwf hr hi
    obtain ⟨r, h1, h2⟩ := walkAnc_grow hwf hs hr h.size _ har.1 (by omega)
    have hir := t.specRoot hwf hi h2
    simp only [h1]
    have tr : Reach h i r := by
      rcases specRoot_reach h2 with e | t'
      · rw [← e]; exact t
      · exact t.trans t'
    exact ⟨hir.symm, ancSound_setAnc hs tr,
      sameLinks_update h i _ (fun _ => rfl) (fun _ => rfl) (fun _ => rfl)⟩

/-! ## the grow operations preserve the invariants -/

theorem newLeaf_eq_attach (h : Heap) (i : Nat) : h.newLeaf i = h.attach i [] := rfl

theorem attach_inv {h : Heap} {b : Nat} {ks : List Nat} (w : WF h) (hs : AncSound h)
    (hf : h.get b = none) (hnd : ks.Nodup)
    (hks : ∀ k ∈ ks, k ∈ h.alive ∧ (h.get k).bind (·.parent) = none) :
    WF (h.attach b ks) ∧ AncSound (h.attach b ks) := by
  have hba : b ∉ h.alive := fun hb => by
    obtain ⟨o, hg⟩ := w.alive_get b hb; rw [hf] at hg; cases hg
  have hal := attach_alive h b ks
  have new : (h.attach b ks).get b = some { id := b, kids := ks } := by rw [get_attach, if_pos rfl]
  have orphan : ∀ k ∈ ks, ∀ o, h.get k = some o → o.parent = none := by
    intro k hk o hg
    have := (hks k hk).2
    rw [hg] at this
    simpa using this
  have view : ∀ x ∈ h.alive, ∀ o', (h.attach b ks).get x = some o' →
      x ≠ b ∧ ∃ o, h.get x = some o ∧ o'.kids = o.kids ∧ o'.anc = o.anc ∧
        o'.parent = (if x ∈ ks then some b else o.parent) := by
    intro x hx o' hg'
    have hxb : x ≠ b := fun e => hba (e ▸ hx)
    obtain ⟨o, hg⟩ := w.alive_get x hx
    rw [get_attach, if_neg hxb, hg] at hg'
    refine ⟨hxb, o, hg, ?_⟩
    by_cases hxk : x ∈ ks
    · simp only [if_pos hxk, Option.map_some, Option.some.injEq] at hg' ⊢
      subst hg'; exact ⟨rfl, rfl, rfl⟩
    · simp only [if_neg hxk, Option.some.injEq] at hg' ⊢
      subst hg'; exact ⟨rfl, rfl, rfl⟩
  have view2 : ∀ x ∈ h.alive, ∀ o, h.get x = some o →
      x ∈ (h.attach b ks).alive ∧ ∃ o', (h.attach b ks).get x = some o' ∧ o'.kids = o.kids ∧
        o'.parent = (if x ∈ ks then some b else o.parent) := by
    intro x hx o hg
    have hxb : x ≠ b := fun e => hba (e ▸ hx)
    refine ⟨by rw [hal]; exact List.mem_cons_of_mem _ hx, ?_⟩
    rw [get_attach, if_neg hxb, hg]
    by_cases hxk : x ∈ ks
    · simp only [if_pos hxk, Option.map_some]; exact ⟨_, rfl, rfl, rfl⟩
    · simp only [if_neg hxk]; exact ⟨_, rfl, rfl, rfl⟩
  have hbmem : b ∈ (h.attach b ks).alive := by rw [hal]; exact List.mem_cons_self
  obtain ⟨rk, hr⟩ := w.rank
  refine ⟨⟨?_, ?_, ?_, ?_, ?_, ⟨fun x => if x = b then 0 else rk x + 1, ?_⟩⟩, ?_⟩
  · rw [hal]; exact List.nodup_cons.2 ⟨hba, w.alive_nodup⟩
  · intro x hx
    rw [hal] at hx
    rcases List.mem_cons.1 hx with rfl | hx
    · exact ⟨_, new⟩
    · obtain ⟨o, hg⟩ := w.alive_get x hx
      obtain ⟨_, o', hg', _⟩ := view2 x hx o hg
      exact ⟨o', hg'⟩
  · -- parent_ok
    intro x hx o' hg' p hp
    rw [hal] at hx
    rcases List.mem_cons.1 hx with rfl | hx
    · rw [new] at hg'; cases hg'; simp at hp
    · obtain ⟨hxb, o, hg, _, _, hpar⟩ := view x hx o' hg'
      rw [hp] at hpar
      by_cases hxk : x ∈ ks
      · rw [if_pos hxk] at hpar
        cases hpar
        exact ⟨hbmem, _, new, hxk⟩
      · rw [if_neg hxk] at hpar
        obtain ⟨hpa, po, hgp, hk⟩ := w.parent_ok x hx o hg p hpar.symm
        obtain ⟨h1, po', h2, h3, _⟩ := view2 p hpa po hgp
        exact ⟨h1, po', h2, by rw [h3]; exact hk⟩
  · -- kids_ok
    intro x hx o' hg' c hc
    rw [hal] at hx
    rcases List.mem_cons.1 hx with rfl | hx
    · rw [new] at hg'; cases hg'
      simp only at hc
      obtain ⟨co, hgc⟩ := w.alive_get c (hks c hc).1
      obtain ⟨h1, co', h2, _, h3⟩ := view2 c (hks c hc).1 co hgc
      exact ⟨h1, co', h2, by rw [h3, if_pos hc]⟩
    · obtain ⟨hxb, o, hg, hkids, _, _⟩ := view x hx o' hg'
      rw [hkids] at hc
      obtain ⟨hca, co, hgc, hcp⟩ := w.kids_ok x hx o hg c hc
      obtain ⟨h1, co', h2, _, h3⟩ := view2 c hca co hgc
      refine ⟨h1, co', h2, ?_⟩
      rw [h3, if_neg]
      · exact hcp
      · intro hck
        have := orphan c hck co hgc
        rw [hcp] at this; cases this
  · -- kids_nodup
    intro x hx o' hg'
    rw [hal] at hx
    rcases List.mem_cons.1 hx with rfl | hx
    · rw [new] at hg'; cases hg'; exact hnd
    · obtain ⟨_, o, hg, hkids, _, _⟩ := view x hx o' hg'
      rw [hkids]; exact w.kids_nodup x hx o hg
  · -- rank
    intro x hx o' hg'
    rw [attach_size]
    rw [hal] at hx
    rcases List.mem_cons.1 hx with rfl | hx
    · rw [new] at hg'; cases hg'
      refine ⟨by simp, fun p hp => by simp at hp⟩
    · obtain ⟨hxb, o, hg, _, _, hpar⟩ := view x hx o' hg'
      have hrx := hr x hx o hg
      simp only [if_neg hxb]
      refine ⟨by omega, fun p hp => ?_⟩
      rw [hp] at hpar
      by_cases hxk : x ∈ ks
      · rw [if_pos hxk] at hpar
        cases hpar
        simp
      · rw [if_neg hxk] at hpar
        have hpa := (w.parent_ok x hx o hg p hpar.symm).1
        have hpb : p ≠ b := fun e => hba (e ▸ hpa)
        have := hrx.2 p hpar.symm
        simp only [if_neg hpb]
        omega
  · -- AncSound: the parent of an object that had one is unchanged
    intro x hx o' hg' a ha
    rw [hal] at hx
    rcases List.mem_cons.1 hx with rfl | hx
    · rw [new] at hg'; cases hg'; simp at ha
    · obtain ⟨_, o, hg, _, hanc, _⟩ := view x hx o' hg'
      rw [hanc] at ha
      refine (hs x hx o hg a ha).persist ?_
      intro y yo p hgy hyp
      have hyb : y ≠ b := by intro e; subst e; rw [hf] at hgy; cases hgy
      have hyk : y ∉ ks := by
        intro hyk
        have := orphan y hyk yo hgy
        rw [hyp] at this; cases this
      exact ⟨yo, by rw [get_attach, if_neg hyb, if_neg hyk]; exact hgy, hyp⟩

theorem newLeaf_inv {h : Heap} {i : Nat} (w : WF h) (hs : AncSound h) (hf : h.get i = none) :
    WF (h.newLeaf i) ∧ AncSound (h.newLeaf i) := by
  rw [newLeaf_eq_attach]
  exact attach_inv w hs hf List.nodup_nil (fun k hk => by cases hk)

theorem dropLeaf_inv {h : Heap} {m : Nat} (w : WF h) (hs : AncSound h) (hm : m ∈ h.alive)
    (hp : (h.get m).bind (·.parent) = none) (hk : ((h.get m).map (·.kids)).getD [] = []) :
    WF (h.dropLeaf m) ∧ AncSound (h.dropLeaf m) := by
  obtain ⟨mo, hgm⟩ := w.alive_get m hm
  rw [hgm] at hp hk
  have hmp : mo.parent = none := by simpa using hp
  have hmk : mo.kids = [] := by simpa using hk
  have hal : ∀ x, x ∈ (h.dropLeaf m).alive ↔ x ≠ m ∧ x ∈ h.alive := by
    intro x; exact w.alive_nodup.mem_erase_iff
  have hget : ∀ x, (h.dropLeaf m).get x = h.get x := fun _ => rfl
  obtain ⟨rk, hr⟩ := w.rank
  refine ⟨⟨w.alive_nodup.erase m, ?_, ?_, ?_, ?_, ⟨rk, ?_⟩⟩, ?_⟩
  · intro x hx; exact w.alive_get x ((hal x).1 hx).2
  · intro x hx o hg p hpar
    have hx' := ((hal x).1 hx).2
    obtain ⟨hpa, po, hgp, hxk⟩ := w.parent_ok x hx' o hg p hpar
    refine ⟨(hal p).2 ⟨?_, hpa⟩, po, hgp, hxk⟩
    intro e; subst e
    rw [hgm] at hgp; cases hgp
    rw [hmk] at hxk; cases hxk
  · intro x hx o hg c hc
    have hx' := ((hal x).1 hx).2
    obtain ⟨hca, co, hgc, hcp⟩ := w.kids_ok x hx' o hg c hc
    refine ⟨(hal c).2 ⟨?_, hca⟩, co, hgc, hcp⟩
    intro e; subst e
    rw [hgm] at hgc; cases hgc
    rw [hmp] at hcp; cases hcp
  · intro x hx o hg; exact w.kids_nodup x ((hal x).1 hx).2 o hg
  · intro x hx o hg; exact hr x ((hal x).1 hx).2 o hg
  · intro x hx o hg a ha
    exact P17.Reach.persist (h := h) (h' := h.dropLeaf m) (fun y yo p hgy hyp => ⟨yo, hgy, hyp⟩)
      (hs x ((hal x).1 hx).2 o hg a ha)

/-- 1. every legal grow operation preserves `WF` (with its rank witness) and `AncSound` -/
theorem stepG_inv (h : Heap) (op : GOp) (w : WF h) (hs : AncSound h) (hl : LegalG h op) :
    WF (stepG h op) ∧ AncSound (stepG h op) := by
  cases op with
  | newLeaf i => exact newLeaf_inv w hs hl
  | attach b ks => exact attach_inv w hs hl.1 hl.2.1 hl.2.2
  | dropLeaf m => exact dropLeaf_inv w hs hl.1 hl.2.1 hl.2.2
  | qAnc i =>
    obtain ⟨_, _, h3, h4, _⟩ := ancestor_grow h i w hs hl
    exact ⟨h3, h4⟩

theorem empty_wf : WF ({} : Heap) :=
  ⟨List.nodup_nil, fun _ hi => (by cases hi), fun _ hi => (by cases hi), fun _ hi => (by cases hi),
    fun _ hi => (by cases hi), ⟨fun _ => 0, fun _ hi => (by cases hi)⟩⟩

theorem empty_ancSound : AncSound ({} : Heap) := fun _ hi => by cases hi

/-- the answer `ans` is a parentless alive object of `h` -/
def IsRootOf (h : Heap) (ans : Option Nat) : Prop :=
  ∃ r ro, ans = some r ∧ r ∈ h.alive ∧ h.get r = some ro ∧ ro.parent = none

theorem grow_trace_sound (h : Heap) (ops : List GOp) (w : WF h) (hs : AncSound h)
    (hl : LegalGrow h ops) :
    ∀ t ∈ traceGrow h ops, t.2.1 = t.2.2 ∧ IsRootOf t.1 t.2.1 := by
  induction ops generalizing h with
  | nil => intro t ht; simp [traceGrow] at ht
  | cons op ops ih =>
    obtain ⟨w', hs'⟩ := stepG_inv h op w hs hl.1
    have hrec := ih (stepG h op) w' hs' hl.2
    cases op with
    | qAnc i =>
      intro t ht
      simp only [traceGrow, List.mem_cons] at ht
      rcases ht with rfl | ht
      · obtain ⟨h1, h2, _⟩ := ancestor_grow h i w hs hl.1
        exact ⟨h1, h2⟩
      · exact hrec t ht
    | newLeaf i => simpa only [traceGrow] using hrec
    | attach b ks => simpa only [traceGrow] using hrec
    | dropLeaf m => simpa only [traceGrow] using hrec

theorem runGrow_eq_trace (h : Heap) (ops : List GOp) : runGrow h ops = (traceGrow h ops).map (·.2) := by
  induction ops generalizing h with
  | nil => rfl
  | cons op ops ih => cases op <;> simp [runGrow, traceGrow, ih]

/-- the invariants hold after every legal history -/
theorem grow_invariant (h : Heap) (ops : List GOp) (w : WF h) (hs : AncSound h) (hl : LegalGrow h ops) :
    WF (ops.foldl stepG h) ∧ AncSound (ops.foldl stepG h) := by
  induction ops generalizing h with
  | nil => exact ⟨w, hs⟩
  | cons op ops ih =>
    obtain ⟨w', hs'⟩ := stepG_inv h op w hs hl.1
    exact ih _ w' hs' hl.2

/-- 2. MAIN: along every legal grow history from the empty heap, every cached `ancestor` answer equals
    `specRoot` from the live links at that moment, and it is `some r` with `r` alive and parentless in the
    heap in which the query is asked -/
theorem grow_history_sound (ops : List GOp) (hl : LegalGrow {} ops) :
    (∀ pr ∈ runGrow {} ops, pr.1 = pr.2 ∧ ∃ r, pr.1 = some r) ∧
    (∀ t ∈ traceGrow {} ops, t.2.1 = t.2.2 ∧
      ∃ r ro, t.2.1 = some r ∧ r ∈ t.1.alive ∧ t.1.get r = some ro ∧ ro.parent = none) := by
  have key := grow_trace_sound {} ops empty_wf empty_ancSound hl
  refine ⟨?_, key⟩
  intro pr hpr
  rw [runGrow_eq_trace, List.mem_map] at hpr
  obtain ⟨t, ht, rfl⟩ := hpr
  obtain ⟨h1, r, _, h2, _⟩ := key t ht
  exact ⟨h1, r, h2⟩

/-! ## non-vacuity and sharpness -/

/-- a legal history: 3 attaches, 7 queries; `0` is queried while its cached `_ancestor` (`2`, then `5`) has
    meanwhile been given a parent -/
def exHist : List GOp :=
  [.newLeaf 0, .newLeaf 1, .qAnc 0, .attach 2 [0, 1], .qAnc 0, .newLeaf 3, .newLeaf 4, .dropLeaf 4,
   .attach 5 [2, 3], .qAnc 0, .qAnc 1, .qAnc 3, .newLeaf 6, .attach 7 [6, 5], .qAnc 0, .qAnc 6]

example : LegalGrow {} exHist := by decide

example : runGrow {} exHist =
    [(some 0, some 0), (some 2, some 2), (some 5, some 5), (some 5, some 5), (some 5, some 5),
     (some 7, some 7), (some 7, some 7)] := by decide

example : ((exHist.foldl stepG {}).get 0).bind (·.anc) = some 7 := by decide

/-- the full `P17.Sound` fails on a fresh leaf (`_level` is `None`, not `0`): hence `AncSound` -/
theorem newLeaf_not_sound : ¬ Sound (({} : Heap).newLeaf 0) := by
  intro hs
  have := (hs 0 (by decide) { id := 0 } (by decide)).root rfl
  simp at this

/-- sharpness (a): `attach 3 [0]` re-parents `0`, which already has the parent `2` - the only violated
    clause of legality is "parentless" -/
def badHist : List GOp :=
  [.newLeaf 0, .newLeaf 1, .attach 2 [0, 1], .qAnc 0, .attach 3 [0], .qAnc 0]

theorem illegal_attach_stale_witness :
    ¬ LegalGrow {} badHist ∧ runGrow {} badHist = [(some 2, some 2), (some 2, some 3)] := by decide

/-- without the earlier query (nothing cached) the same operations give the live root -/
theorem illegal_attach_nocache :
    runGrow {} [.newLeaf 0, .newLeaf 1, .attach 2 [0, 1], .attach 3 [0], .qAnc 0] = [(some 3, some 3)] := by
  decide

/-- sharpness (b): the assignment `child.parent = parent` of `_merge_with_parent` on an object that already
    has a parent, with the children lists kept consistent -/
def reparent (h : Heap) (c p : Nat) : Heap :=
  match (h.get c).bind (·.parent) with
  | none => h
  | some q =>
    ((h.update q (fun qo => { qo with kids := qo.kids.erase c })).update p
      (fun po => { po with kids := po.kids ++ [c] })).update c (fun co => { co with parent := some p })

inductive XOp where
  | grow (op : GOp)
  | reparent (c p : Nat)
deriving Repr, Inhabited

def stepX (h : Heap) : XOp → Heap
  | .grow op => stepG h op
  | .reparent c p => reparent h c p

def runGrowX : Heap → List XOp → List (Option Nat × Option Nat)
  | _, [] => []
  | h, .grow (.qAnc i) :: ops =>
    ((h.ancestor h.size i).2, h.specRoot h.size i) :: runGrowX (stepX h (.grow (.qAnc i))) ops
  | h, op :: ops => runGrowX (stepX h op) ops

/-- two trees `2 = {0,1}` and `5 = {3,4}`; optionally query `0`; move `0` under `5`; query `0, 1, 3` -/
def reparentHist (q : Bool) : List XOp :=
  [.grow (.newLeaf 0), .grow (.newLeaf 1), .grow (.attach 2 [0, 1]),
   .grow (.newLeaf 3), .grow (.newLeaf 4), .grow (.attach 5 [3, 4])] ++
  (if q then [.grow (.qAnc 0)] else []) ++ [.reparent 0 5, .grow (.qAnc 0), .grow (.qAnc 1), .grow (.qAnc 3)]

theorem reparent_stale_witness : ∃ pr ∈ runGrowX {} (reparentHist true), pr.1 ≠ pr.2 := by decide

theorem reparent_stale_values :
    runGrowX {} (reparentHist true) = [(some 2, some 2), (some 2, some 5), (some 2, some 2), (some 5, some 5)] ∧
    runGrowX {} (reparentHist false) = [(some 5, some 5), (some 2, some 2), (some 5, some 5)] := by decide

/-! ## bridge to `Sound` / `history_sound`: after `compute`, seeding the trunk gives `Sound` -/

/-- the caches other than `_ancestor` are never filled during `compute` -/
def OtherEmpty (h : Heap) : Prop :=
  ∀ x o, h.get x = some o → o.lvl = none ∧ o.desc = none ∧ o.nw = none

theorem stepG_otherEmpty (h : Heap) (op : GOp) (he : OtherEmpty h) : OtherEmpty (stepG h op) := by
  cases op with
  | newLeaf i =>
    intro x o hg
    simp only [stepG, get_newLeaf] at hg
    split at hg
    · cases hg; exact ⟨rfl, rfl, rfl⟩
    · exact he x o hg
  | attach b ks =>
    intro x o hg
    simp only [stepG, get_attach] at hg
    split at hg
    · cases hg; exact ⟨rfl, rfl, rfl⟩
    · split at hg
      · cases hgx : h.get x with
        | none => simp [hgx] at hg
        | some o0 =>
          simp only [hgx, Option.map_some, Option.some.injEq] at hg
          subst hg
          exact he x o0 hgx
      · exact he x o hg
  | dropLeaf m => exact fun x o hg => he x o hg
  | qAnc i =>
    show OtherEmpty (h.ancestor h.size i).1
    unfold Heap.ancestor
    cases hgi : h.get i with
    | none => exact he
    | some io =>
      simp only []
      cases hp : io.parent with
      | none => exact he
      | some p =>
        simp only []
        cases hw : h.walkAnc h.size (io.anc.getD p) with
        | none => exact he
        | some r =>
          simp only []
          intro x o hg
          rw [get_update h i (fun o => { o with anc := some r }) (fun _ => rfl)] at hg
          split at hg
          · subst x
            simp only [hgi, Option.map_some, Option.some.injEq] at hg
            subst hg
            exact he i io hgi
          · exact he x o hg

/-- what `finishPruneOld` (the trunk seeding `_level = 0`, no reset) does to an object -/
def seedF (h : Heap) (o : Obj) : Obj :=
  if h.alive.contains o.id && o.parent.isNone then { o with lvl := some 0 } else o

theorem seedF_id (h : Heap) (o : Obj) : (seedF h o).id = o.id := by unfold seedF; split <;> rfl
theorem seedF_parent (h : Heap) (o : Obj) : (seedF h o).parent = o.parent := by unfold seedF; split <;> rfl
theorem seedF_kids (h : Heap) (o : Obj) : (seedF h o).kids = o.kids := by unfold seedF; split <;> rfl
theorem seedF_anc (h : Heap) (o : Obj) : (seedF h o).anc = o.anc := by unfold seedF; split <;> rfl
theorem seedF_desc (h : Heap) (o : Obj) : (seedF h o).desc = o.desc := by unfold seedF; split <;> rfl
theorem seedF_nw (h : Heap) (o : Obj) : (seedF h o).nw = o.nw := by unfold seedF; split <;> rfl

theorem finishPruneOld_get (h : Heap) (x : Nat) : h.finishPruneOld.get x = (h.get x).map (seedF h) := by
  unfold Heap.finishPruneOld Heap.get
  exact find_map_id (seedF h) (seedF_id h) h.objs x

theorem finishPruneOld_same (h : Heap) : SameLinks h h.finishPruneOld := by
  refine ⟨rfl, by simp [Heap.finishPruneOld, Heap.size], fun x => ?_⟩
  rw [finishPruneOld_get]
  cases h.get x <;> simp [seedF_parent, seedF_kids]

/-- a heap reached by `compute` (`AncSound`, other caches empty) satisfies the full `Sound` of
    CacheProofs once `_make_trunk` has seeded `_level = 0` on the parentless structures -/
theorem seed_sound {h : Heap} (w : WF h) (hs : AncSound h) (he : OtherEmpty h) :
    WF h.finishPruneOld ∧ Sound h.finishPruneOld := by
  have s := finishPruneOld_same h
  refine ⟨w.same s, ?_⟩
  intro x hx o' hg'
  have hx' : x ∈ h.alive := hx
  have hg'' := hg'
  obtain ⟨o, hg⟩ := w.alive_get x hx'
  rw [finishPruneOld_get, hg] at hg'
  simp only [Option.map_some, Option.some.injEq] at hg'
  subst hg'
  obtain ⟨e1, e2, e3⟩ := he x o hg
  have hid := get_id hg
  have hlvl : (seedF h o).lvl = if o.parent = none then some 0 else none := by
    unfold seedF
    have hc : o.id ∈ h.alive := by rw [hid]; exact hx'
    cases hp : o.parent with
    | none => rw [if_pos (by simp [hc])]; simp
    | some q => rw [if_neg (by simp)]; simp [e1]
  refine ⟨?_, ?_, ?_, ?_, ?_⟩
  · intro l hl
    rw [hlvl] at hl
    split at hl
    · rename_i hp
      cases hl
      rw [seedF_id, hid]
      exact specLevel_root hg'' (by rw [seedF_parent]; exact hp)
    · cases hl
  · intro a ha
    rw [seedF_anc] at ha
    rw [seedF_id, hid]
    exact (hs x hx' o hg a ha).same s
  · intro d hd; rw [seedF_desc, e2] at hd; cases hd
  · intro t ht; rw [seedF_nw, e3] at ht; cases ht
  · intro hp
    rw [seedF_parent] at hp
    rw [hlvl, if_pos hp]

theorem grow_otherEmpty (h : Heap) (ops : List GOp) (he : OtherEmpty h) : OtherEmpty (ops.foldl stepG h) := by
  induction ops generalizing h with
  | nil => exact he
  | cons op ops ih => exact ih _ (stepG_otherEmpty h op he)

/-- after any legal `compute` history and the trunk seeding, the hypotheses of `P17.history_sound` hold -/
theorem grow_seed_sound (ops : List GOp) (hl : LegalGrow {} ops) :
    WF (ops.foldl stepG {}).finishPruneOld ∧ Sound (ops.foldl stepG {}).finishPruneOld := by
  obtain ⟨w, hs⟩ := grow_invariant {} ops empty_wf empty_ancSound hl
  exact seed_sound w hs (grow_otherEmpty {} ops (fun x o hg => by cases hg))

end P37
