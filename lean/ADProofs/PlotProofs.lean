import ADModel
import ADProofs.Forest
/-!
# ADProofs.PlotProofs — the plotted tree is planar (C18)

Model: `ADModel/Plot.lean` (`DendrogramPlotter.sort` / `get_lines`, `Structure.sorted_leaves`).

1. `sortAsc_perm`, `sortedPy_perm`, `sortAsc_sorted`, `sortedPy_sorted`, `sortedPy_sorted_rev`
2. `sortTree_id`, `sortTree_isLeaf`, `sortTree_leafIds_perm`
3. `leafOrder_perm`, `leaf_positions_distinct`, `leaf_position_lt`
4. `subtree_leaves_contiguous`
5. `mean_between` (and the multiplied-out `mean_between_mul`)
6. `lines_head`, `lines_sids`, `lines_count`

Core Lean only.
-/
open Tree

namespace P15

/-- leaf identifiers of a tree in prefix order -/
def leafIds (t : Tree) : List Nat := ((Tree.pre t).filter Tree.isLeaf).map Tree.id
/-- leaf identifiers of a forest in prefix order -/
def leafIdsL (f : List Tree) : List Nat := ((Tree.preL f).filter Tree.isLeaf).map Tree.id

/-! ## 1. sorting -/

theorem insertByKey'_perm (key : Nat → Int) (t : Tree) (l : List Tree) :
    (Plot.sortAsc.insertByKey' key t l).Perm (t :: l) := by
  induction l with
  | nil => simp [Plot.sortAsc.insertByKey']
  | cons u us ih =>
    simp only [Plot.sortAsc.insertByKey']; split
    · exact List.Perm.refl _
    · exact (ih.cons u).trans (List.Perm.swap t u us)

/-- sorting is a permutation -/
theorem sortAsc_perm (key : Nat → Int) (l : List Tree) : (Plot.sortAsc key l).Perm l := by
  induction l with
  | nil => simp [Plot.sortAsc]
  | cons t ts ih => exact (insertByKey'_perm key t _).trans (ih.cons t)

/-- `sorted(l, key=key, reverse=rev)` is a permutation -/
theorem sortedPy_perm (key : Nat → Int) (rev : Bool) (l : List Tree) :
    (Plot.sortedPy key rev l).Perm l := by
  unfold Plot.sortedPy
  split
  · exact (List.reverse_perm _).trans ((sortAsc_perm key _).trans (List.reverse_perm _))
  · exact sortAsc_perm key l

theorem mem_sortedPy {key : Nat → Int} {rev : Bool} {l : List Tree} {t : Tree} :
    t ∈ Plot.sortedPy key rev l ↔ t ∈ l := (sortedPy_perm key rev l).mem_iff

theorem insertByKey'_sorted (key : Nat → Int) (t : Tree) (l : List Tree)
    (h : l.Pairwise (fun a b => key a.id ≤ key b.id)) :
    (Plot.sortAsc.insertByKey' key t l).Pairwise (fun a b => key a.id ≤ key b.id) := by
  induction l with
  | nil => simp [Plot.sortAsc.insertByKey']
  | cons u us ih =>
    rw [List.pairwise_cons] at h
    simp only [Plot.sortAsc.insertByKey']; split
    · rename_i hle
      refine List.pairwise_cons.mpr ⟨?_, List.pairwise_cons.mpr h⟩
      intro x hx
      rcases List.mem_cons.mp hx with hx | hx
      · subst hx; exact hle
      · exact Int.le_trans hle (h.1 x hx)
    · rename_i hle
      refine List.pairwise_cons.mpr ⟨?_, ih h.2⟩
      intro x hx
      rcases List.mem_cons.mp ((insertByKey'_perm key t us).mem_iff.mp hx) with hx | hx
      · subst hx; omega
      · exact h.1 x hx

/-- the ascending sort yields a list sorted by key -/
theorem sortAsc_sorted (key : Nat → Int) (l : List Tree) :
    (Plot.sortAsc key l).Pairwise (fun a b => key a.id ≤ key b.id) := by
  induction l with
  | nil => simp [Plot.sortAsc]
  | cons t ts ih => exact insertByKey'_sorted key t _ ih

/-- siblings / trunk structures are ordered by the requested key … -/
theorem sortedPy_sorted (key : Nat → Int) (l : List Tree) :
    (Plot.sortedPy key false l).Pairwise (fun a b => key a.id ≤ key b.id) := by
  simpa [Plot.sortedPy] using sortAsc_sorted key l

/-- … reversed on request -/
theorem sortedPy_sorted_rev (key : Nat → Int) (l : List Tree) :
    (Plot.sortedPy key true l).Pairwise (fun a b => key a.id ≥ key b.id) := by
  simp only [Plot.sortedPy, if_true, List.pairwise_reverse]
  exact sortAsc_sorted key l.reverse

/-! ## 2. the sorted tree -/

theorem sortTree_id (key : Nat → Int) (rev : Bool) (t : Tree) :
    (Plot.sortTree key rev t).id = t.id := by
  cases t; simp [Plot.sortTree, Tree.id]

theorem sortTreeL_length (key : Nat → Int) (rev : Bool) (l : List Tree) :
    (Plot.sortTreeL key rev l).length = l.length := by
  induction l with
  | nil => simp [Plot.sortTreeL]
  | cons t ts ih => simp [Plot.sortTreeL, ih]

theorem sortTreeL_eq_map (key : Nat → Int) (rev : Bool) (l : List Tree) :
    Plot.sortTreeL key rev l = l.map (Plot.sortTree key rev) := by
  induction l with
  | nil => simp [Plot.sortTreeL]
  | cons t ts ih => simp [Plot.sortTreeL, ih]

theorem sortTree_kids (key : Nat → Int) (rev : Bool) (t : Tree) :
    (Plot.sortTree key rev t).kids = Plot.sortedPy key rev (Plot.sortTreeL key rev t.kids) := by
  cases t; simp [Plot.sortTree, Tree.kids]

theorem sortTree_kids_length (key : Nat → Int) (rev : Bool) (t : Tree) :
    (Plot.sortTree key rev t).kids.length = t.kids.length := by
  rw [sortTree_kids, (sortedPy_perm key rev _).length_eq, sortTreeL_length]

/-- a structure is a leaf of the sorted tree iff it is a leaf -/
theorem sortTree_isLeaf (key : Nat → Int) (rev : Bool) (t : Tree) :
    (Plot.sortTree key rev t).isLeaf = t.isLeaf := by
  have h := sortTree_kids_length key rev t
  unfold isLeaf
  cases h1 : (Plot.sortTree key rev t).kids <;> cases h2 : t.kids <;> simp_all

theorem leafIdsL_perm {a b : List Tree} (h : a.Perm b) : (leafIdsL a).Perm (leafIdsL b) :=
  ((preL_perm h).filter _).map _

theorem leafIds_node (i : Nat) (o : List Nat) (ks : List Tree) :
    leafIds (node i o ks) = (if ks.isEmpty then [i] else []) ++ leafIdsL ks := by
  unfold leafIds leafIdsL
  by_cases h : ks.isEmpty <;> simp [pre, isLeaf, Tree.kids, Tree.id, h]

theorem leafIdsL_cons (t : Tree) (ts : List Tree) :
    leafIdsL (t :: ts) = leafIds t ++ leafIdsL ts := by
  simp [leafIds, leafIdsL, preL]

theorem leafIdsL_eq_flatMap (f : List Tree) : leafIdsL f = f.flatMap leafIds := by
  induction f with
  | nil => simp [leafIdsL, preL]
  | cons t ts ih => simp [leafIdsL_cons, ih]

theorem sortTree_leafIds_perm_both (key : Nat → Int) (rev : Bool) :
    (∀ t : Tree, (leafIds (Plot.sortTree key rev t)).Perm (leafIds t)) ∧
    (∀ l : List Tree, (leafIdsL (Plot.sortTreeL key rev l)).Perm (leafIdsL l)) := by
  apply Tree.forest_induction
  · intro i o ks ih
    have hl := sortTree_isLeaf key rev (node i o ks)
    simp only [Plot.sortTree] at hl ⊢
    rw [leafIds_node, leafIds_node]
    simp only [isLeaf, Tree.kids] at hl
    rw [hl]
    exact List.Perm.append_left _ ((leafIdsL_perm (sortedPy_perm key rev _)).trans ih)
  · simp [Plot.sortTreeL]
  · intro t ts iht ihts
    simp only [Plot.sortTreeL, leafIdsL_cons]
    exact iht.append ihts

/-- sorting keeps the leaves of every structure -/
theorem sortTree_leafIds_perm (key : Nat → Int) (rev : Bool) (t : Tree) :
    (leafIds (Plot.sortTree key rev t)).Perm (leafIds t) :=
  (sortTree_leafIds_perm_both key rev).1 t

/-! ## 3. the leaf order -/

/-- the `is_leaf` shortcut of `sorted_leaves` agrees with the general formula -/
theorem sortedLeaves_eq (key : Nat → Int) (rev : Bool) (t : Tree) :
    Plot.sortedLeaves key rev t =
      (((pre (Plot.sortTree key (!rev) t)).reverse).filter Tree.isLeaf).map Tree.id := by
  unfold Plot.sortedLeaves
  split
  · rename_i h
    cases t with | node i o ks =>
    simp only [isLeaf, Tree.kids, List.isEmpty_iff] at h
    subst h
    cases rev <;>
      simp [Plot.sortTree, Plot.sortTreeL, Plot.sortedPy, Plot.sortAsc, pre, preL, List.filter,
        isLeaf, Tree.kids, Tree.id]
  · rfl

theorem sortedLeaves_perm (key : Nat → Int) (rev : Bool) (t : Tree) :
    (Plot.sortedLeaves key rev t).Perm (leafIds t) := by
  rw [sortedLeaves_eq]
  exact (((List.reverse_perm _).filter _).map _).trans (sortTree_leafIds_perm key (!rev) t)

theorem flatMap_perm_pointwise {α β} (l : List α) (f g : α → List β)
    (h : ∀ a ∈ l, (f a).Perm (g a)) : (l.flatMap f).Perm (l.flatMap g) := by
  induction l with
  | nil => simp
  | cons a l ih =>
    simp only [List.flatMap_cons]
    exact (h a List.mem_cons_self).append (ih fun b hb => h b (List.mem_cons_of_mem _ hb))

/-- the leaf order of the whole plot is a permutation of the leaves -/
theorem leafOrder_perm (key : Nat → Int) (rev : Bool) (f : List Tree) :
    (Plot.leafOrder key rev f).Perm (leafIdsL f) := by
  unfold Plot.leafOrder
  rw [leafIdsL_eq_flatMap]
  exact (flatMap_perm_pointwise _ _ _ fun t _ => sortedLeaves_perm key rev t).trans
    ((sortedPy_perm key rev f).flatMap_right _)

theorem leafIdsL_nodup (f : List Tree) (hids : ((Tree.preL f).map Tree.id).Nodup) :
    (leafIdsL f).Nodup :=
  List.Nodup.sublist (List.filter_sublist.map _) hids

/-- every leaf gets its own position -/
theorem leaf_positions_distinct (key : Nat → Int) (rev : Bool) (f : List Tree)
    (hids : ((Tree.preL f).map Tree.id).Nodup) : (Plot.leafOrder key rev f).Nodup :=
  (leafOrder_perm key rev f).nodup_iff.mpr (leafIdsL_nodup f hids)

/-- the positions are `0 … L-1` (with `leaf_positions_distinct`: each once) -/
theorem leaf_position_lt (key : Nat → Int) (rev : Bool) (f : List Tree)
    (_hids : ((Tree.preL f).map Tree.id).Nodup) (t : Tree) (ht : t ∈ Tree.preL f)
    (hl : t.isLeaf = true) :
    Plot.idxOfNat (Plot.leafOrder key rev f) t.id < (leafIdsL f).length := by
  rw [← (leafOrder_perm key rev f).length_eq]
  unfold Plot.idxOfNat
  apply List.idxOf_lt_length_of_mem
  apply (leafOrder_perm key rev f).mem_iff.mpr
  exact List.mem_map.mpr ⟨t, List.mem_filter.mpr ⟨ht, hl⟩, rfl⟩

/-! ## 4. contiguity -/

/-- every node of the original tree has its sorted version in the sorted tree -/
theorem sortTree_mem_pre_both (key : Nat → Int) (rev : Bool) (t : Tree) :
    (∀ u : Tree, t ∈ pre u → Plot.sortTree key rev t ∈ pre (Plot.sortTree key rev u)) ∧
    (∀ l : List Tree, t ∈ preL l → Plot.sortTree key rev t ∈ preL (Plot.sortTreeL key rev l)) := by
  apply Tree.forest_induction
  · intro i o ks ih ht
    simp only [pre] at ht
    rcases List.mem_cons.mp ht with ht | ht
    · subst ht; exact mem_pre_self _
    · have h := ih ht
      simp only [Plot.sortTree, pre]
      exact List.mem_cons_of_mem _ ((preL_perm (sortedPy_perm key rev _)).mem_iff.mpr h)
  · intro ht; simp [preL] at ht
  · intro u us ihu ihus ht
    simp only [preL, Plot.sortTreeL] at ht ⊢
    rcases List.mem_append.mp ht with ht | ht
    · exact List.mem_append_left _ (ihu ht)
    · exact List.mem_append_right _ (ihus ht)

/-- the leaves of every structure occupy a contiguous interval of the leaf order -/
theorem subtree_leaves_contiguous (key : Nat → Int) (rev : Bool) (f : List Tree)
    (_hids : ((Tree.preL f).map Tree.id).Nodup) (t : Tree) (ht : t ∈ Tree.preL f) :
    ∃ l1 l2 mid, Plot.leafOrder key rev f = l1 ++ mid ++ l2 ∧ mid.Perm (leafIds t) := by
  obtain ⟨u, huf, htu⟩ := mem_preL.mp ht
  obtain ⟨a, b, hab⟩ := List.append_of_mem (mem_sortedPy (key := key) (rev := rev) |>.mpr huf)
  have hmem := (sortTree_mem_pre_both key (!rev) t).1 u htu
  obtain ⟨p1, p3, hp⟩ := pre_block.1 _ _ hmem
  refine ⟨a.flatMap (Plot.sortedLeaves key rev) ++ ((p3.reverse).filter Tree.isLeaf).map Tree.id,
    ((p1.reverse).filter Tree.isLeaf).map Tree.id ++ b.flatMap (Plot.sortedLeaves key rev),
    (((pre (Plot.sortTree key (!rev) t)).reverse).filter Tree.isLeaf).map Tree.id, ?_, ?_⟩
  · unfold Plot.leafOrder
    rw [hab, List.flatMap_append, List.flatMap_cons, sortedLeaves_eq key rev u, hp]
    simp [List.filter_append, List.map_append, List.append_assoc]
  · exact (((List.reverse_perm _).filter _).map _).trans (sortTree_leafIds_perm key (!rev) t)

/-! ## 5. a branch sits between its outermost children -/

theorem foldl_min_le (xs : List Rat) (x : Rat) :
    xs.foldl min x ≤ x ∧ ∀ y ∈ xs, xs.foldl min x ≤ y := by
  induction xs generalizing x with
  | nil => simp
  | cons a as ih =>
    simp only [List.foldl_cons]
    have h := ih (min x a)
    refine ⟨by grind, ?_⟩
    intro y hy
    rcases List.mem_cons.mp hy with hy | hy
    · subst hy; grind
    · exact h.2 y hy

theorem le_foldl_max (xs : List Rat) (x : Rat) :
    x ≤ xs.foldl max x ∧ ∀ y ∈ xs, y ≤ xs.foldl max x := by
  induction xs generalizing x with
  | nil => simp
  | cons a as ih =>
    simp only [List.foldl_cons]
    have h := ih (max x a)
    refine ⟨by grind, ?_⟩
    intro y hy
    rcases List.mem_cons.mp hy with hy | hy
    · subst hy; grind
    · exact h.2 y hy

theorem minQ'_le (ps : List Rat) : ∀ y ∈ ps, Plot.minQ' ps ≤ y := by
  cases ps with
  | nil => simp
  | cons x xs =>
    intro y hy
    simp only [Plot.minQ']
    rcases List.mem_cons.mp hy with hy | hy
    · subst hy; exact (foldl_min_le xs y).1
    · exact (foldl_min_le xs x).2 y hy

theorem le_maxQ' (ps : List Rat) : ∀ y ∈ ps, y ≤ Plot.maxQ' ps := by
  cases ps with
  | nil => simp
  | cons x xs =>
    intro y hy
    simp only [Plot.maxQ']
    rcases List.mem_cons.mp hy with hy | hy
    · subst hy; exact (le_foldl_max xs y).1
    · exact (le_foldl_max xs x).2 y hy

theorem foldl_add_bounds (m M : Rat) (ps : List Rat) (s : Rat)
    (hm : ∀ y ∈ ps, m ≤ y) (hM : ∀ y ∈ ps, y ≤ M) :
    s + m * (ps.length : Rat) ≤ ps.foldl (· + ·) s ∧
    ps.foldl (· + ·) s ≤ s + M * (ps.length : Rat) := by
  induction ps generalizing s with
  | nil => simp [Rat.mul_zero, Rat.add_zero]
  | cons a as ih =>
    have h := ih (s + a) (fun y hy => hm y (List.mem_cons_of_mem _ hy))
      (fun y hy => hM y (List.mem_cons_of_mem _ hy))
    have h1 := hm a List.mem_cons_self
    have h2 := hM a List.mem_cons_self
    simp only [List.foldl_cons, List.length_cons]
    have hc : (((as.length + 1 : Nat)) : Rat) = (as.length : Rat) + 1 := by
      simp [Rat.natCast_add]
    rw [hc]
    constructor <;> grind

/-- multiplied-out form of `mean_between` -/
theorem mean_between_mul (ps : List Rat) :
    Plot.minQ' ps * (ps.length : Rat) ≤ ps.foldl (· + ·) 0 ∧
    ps.foldl (· + ·) 0 ≤ Plot.maxQ' ps * (ps.length : Rat) := by
  have h := foldl_add_bounds (Plot.minQ' ps) (Plot.maxQ' ps) ps 0 (minQ'_le ps) (le_maxQ' ps)
  simpa [Rat.zero_add] using h

/-- the mean of the children's positions lies between the outermost children -/
theorem mean_between (ps : List Rat) (h : ps ≠ []) :
    Plot.minQ' ps ≤ Plot.meanQ ps ∧ Plot.meanQ ps ≤ Plot.maxQ' ps := by
  have hlen : 0 < ps.length := List.length_pos_iff.mpr h
  have hpos : (0 : Rat) < (ps.length : Rat) := Rat.natCast_pos.mpr hlen
  have hb := mean_between_mul ps
  have he : ps.isEmpty = false := by simpa using h
  simp only [Plot.meanQ, he, Bool.false_eq_true, if_false]
  constructor
  · apply Rat.not_lt.mp
    intro hlt
    exact Rat.not_lt.mpr hb.1 ((Rat.div_lt_iff hpos).mp hlt)
  · apply Rat.not_lt.mp
    intro hlt
    exact Rat.not_lt.mpr hb.2 ((Rat.lt_div_iff hpos).mp hlt)

/-! ## 6. line geometry -/

/-- the first segment of a structure is the vertical from its parent's height (own minimum for
    trunk structures) to its own height, mapped to the structure itself -/
theorem lines_head (val : Nat → Int) (order : List Nat) (parentH : Option Int)
    (i : Nat) (o : List Nat) (ks : List Tree) :
    (Plot.lines val order parentH (Tree.node i o ks)).head? =
      some { x0 := Plot.pos order (.node i o ks), y0 := parentH.getD ((Tree.node i o ks).vmin val),
             x1 := Plot.pos order (.node i o ks), y1 := (Tree.node i o ks).height val, sid := i } := by
  simp [Plot.lines]

theorem lines_sids_both (val : Nat → Int) (order : List Nat) :
    (∀ t : Tree, ∀ parentH, ∀ g ∈ Plot.lines val order parentH t, ∃ s ∈ Tree.pre t, g.sid = s.id) ∧
    (∀ l : List Tree, ∀ parentH, ∀ g ∈ Plot.linesL val order parentH l,
      ∃ s ∈ Tree.preL l, g.sid = s.id) := by
  apply Tree.forest_induction
  · intro i o ks ih parentH g hg
    simp only [Plot.lines, List.cons_append, List.mem_cons, List.mem_append] at hg
    rcases hg with hg | hg | hg
    · exact ⟨node i o ks, mem_pre_self _, by subst hg; rfl⟩
    · refine ⟨node i o ks, mem_pre_self _, ?_⟩
      split at hg
      · simp at hg
      · simp only [List.mem_singleton] at hg; subst hg; rfl
    · obtain ⟨s, hs, hgs⟩ := ih _ g hg
      exact ⟨s, by simp only [pre]; exact List.mem_cons_of_mem _ hs, hgs⟩
  · intro parentH g hg; simp [Plot.linesL] at hg
  · intro t ts iht ihts parentH g hg
    simp only [Plot.linesL, List.mem_append] at hg
    simp only [preL]
    rcases hg with hg | hg
    · obtain ⟨s, hs, hgs⟩ := iht _ g hg
      exact ⟨s, List.mem_append_left _ hs, hgs⟩
    · obtain ⟨s, hs, hgs⟩ := ihts _ g hg
      exact ⟨s, List.mem_append_right _ hs, hgs⟩

/-- every segment is mapped to a structure of the plotted subtree -/
theorem lines_sids (val : Nat → Int) (order : List Nat) (parentH : Option Int) (t : Tree) :
    ∀ g ∈ Plot.lines val order parentH t, ∃ s ∈ Tree.pre t, g.sid = s.id :=
  (lines_sids_both val order).1 t parentH

theorem lines_count_both (val : Nat → Int) (order : List Nat) :
    (∀ t : Tree, ∀ parentH, (Plot.lines val order parentH t).length =
      (Tree.pre t).length + ((Tree.pre t).filter (fun s => !s.isLeaf)).length) ∧
    (∀ l : List Tree, ∀ parentH, (Plot.linesL val order parentH l).length =
      (Tree.preL l).length + ((Tree.preL l).filter (fun s => !s.isLeaf)).length) := by
  apply Tree.forest_induction
  · intro i o ks ih parentH
    simp only [Plot.lines, pre, List.length_cons, List.length_append, ih, List.filter_cons,
      isLeaf, Tree.kids]
    by_cases h : ks.isEmpty <;> simp [h] <;> omega
  · intro parentH; simp [Plot.linesL, preL]
  · intro t ts iht ihts parentH
    simp only [Plot.linesL, preL, List.length_append, List.filter_append, iht, ihts]
    omega

/-- one vertical per structure plus one horizontal per branch -/
theorem lines_count (val : Nat → Int) (order : List Nat) (parentH : Option Int) (t : Tree) :
    (Plot.lines val order parentH t).length =
      (Tree.pre t).length + ((Tree.pre t).filter (fun s => !s.isLeaf)).length :=
  (lines_count_both val order).1 t parentH

end P15
