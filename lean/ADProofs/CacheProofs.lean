import ADModel.Cache

/-!
# CacheProofs (P17, property C14): the per-object caches never go stale with the repaired `prune`

Model: `ADModel/Cache.lean` (heap of objects with `_level`, `_ancestor`, `_descendants`, `_newick` caches).

* `SameLinks h h'` : same alive keys, same size, same parent / children of every object; the
  specifications `specLevel`, `specRoot`, `specDesc`, `specNewick` depend on the links only
  (`specLevel_same`, …).
* `WF h` : alive keys duplicate-free and present; parent / children links of alive objects are mutually
  consistent and stay inside the alive set; children lists duplicate-free; acyclicity witnessed by a rank
  `rk` with `rk parent < rk child` and `rk i < h.size` (`RankOK`).
* `Sound h` : every alive object's caches agree with the links (`CacheOK`), and every parentless alive
  object has `_level = 0` (the assumption of the `level` loop, seeded by `_make_trunk`).
* `level_sound`, `ancestor_sound`, `descendants_sound`, `newick_sound` : each cached query returns the
  specified value and preserves `WF`, `Sound` and the links.
* `mergeWithParent_wf`, `prune_sound` : pruning by any legal merge list keeps `WF` and re-establishes `Sound`.
* `history_sound` : MAIN theorem, for every legal history.
* `stale_*_witness`, `repaired_witness` : the code before the repair gives stale answers on `h0`;
  `h0` satisfies the invariants (non-vacuity).
-/

namespace P17
open Heap

/-! ## `get` through the heap operations -/

theorem find_map_id (g : Obj → Obj) (hg : ∀ o, (g o).id = o.id) (l : List Obj) (i : Nat) :
    (l.map g).find? (fun o => o.id == i) = (l.find? (fun o => o.id == i)).map g := by
  induction l with
  | nil => rfl
  | cons a l ih =>
    simp only [List.map_cons, List.find?_cons, hg]
    cases h : a.id == i <;> simp [ih]

theorem get_id {h : Heap} {i : Nat} {o : Obj} (hget : h.get i = some o) : o.id = i := by
  have := List.find?_some hget
  simpa using this

theorem get_update (h : Heap) (i : Nat) (f : Obj → Obj) (hf : ∀ o, (f o).id = o.id) (j : Nat) :
    (h.update i f).get j = if j = i then (h.get i).map f else h.get j := by
  unfold Heap.update Heap.get
  simp only
  rw [find_map_id]
  · split
    · subst j
      cases hg : h.objs.find? (fun o => o.id == i) with
      | none => rfl
      | some o =>
        have : o.id = i := by simpa using List.find?_some hg
        simp [this]
    · rename_i hji
      cases hg : h.objs.find? (fun o => o.id == j) with
      | none => rfl
      | some o =>
        have : o.id = j := by simpa using List.find?_some hg
        simp [this, hji]
  · intro o; split <;> simp [hf]

@[simp] theorem update_alive (h : Heap) (i : Nat) (f : Obj → Obj) : (h.update i f).alive = h.alive := rfl
@[simp] theorem update_size (h : Heap) (i : Nat) (f : Obj → Obj) : (h.update i f).size = h.size := by
  simp [Heap.update, Heap.size]

/-! ## same links -/

/-- `h'` has the same live links (alive keys, parent / children of every object) as `h`. -/
structure SameLinks (h h' : Heap) : Prop where
  alive : h'.alive = h.alive
  size : h'.size = h.size
  links : ∀ i, (h'.get i).map (fun o => (o.parent, o.kids)) = (h.get i).map (fun o => (o.parent, o.kids))

theorem SameLinks.refl (h : Heap) : SameLinks h h := ⟨rfl, rfl, fun _ => rfl⟩

theorem SameLinks.symm {h h' : Heap} (s : SameLinks h h') : SameLinks h' h :=
  ⟨s.alive.symm, s.size.symm, fun i => (s.links i).symm⟩

theorem SameLinks.trans {h h' h'' : Heap} (s : SameLinks h h') (t : SameLinks h' h'') : SameLinks h h'' :=
  ⟨t.alive.trans s.alive, t.size.trans s.size, fun i => (t.links i).trans (s.links i)⟩

theorem SameLinks.get_some {h h' : Heap} (s : SameLinks h h') {i : Nat} {o : Obj} (hg : h.get i = some o) :
    ∃ o', h'.get i = some o' ∧ o'.parent = o.parent ∧ o'.kids = o.kids := by
  have := s.links i
  rw [hg] at this
  cases hg' : h'.get i with
  | none => simp [hg'] at this
  | some o' =>
    simp [hg'] at this
    exact ⟨o', rfl, this.1, this.2⟩

theorem SameLinks.get_none {h h' : Heap} (s : SameLinks h h') {i : Nat} (hg : h.get i = none) :
    h'.get i = none := by
  have := s.links i
  rw [hg] at this
  cases hg' : h'.get i with
  | none => rfl
  | some o' => simp [hg'] at this

theorem sameLinks_update (h : Heap) (i : Nat) (f : Obj → Obj) (hid : ∀ o, (f o).id = o.id)
    (hp : ∀ o, (f o).parent = o.parent) (hk : ∀ o, (f o).kids = o.kids) : SameLinks h (h.update i f) := by
  refine ⟨rfl, by simp, fun j => ?_⟩
  rw [get_update h i f hid]
  split
  · subst j; cases h.get i <;> simp [hp, hk]
  · rfl

theorem specLevel_same {h h' : Heap} (s : SameLinks h h') (n i : Nat) :
    h'.specLevel n i = h.specLevel n i := by
  induction n generalizing i with
  | zero => rfl
  | succ n ih =>
    unfold Heap.specLevel
    cases hg : h.get i with
    | none => rw [s.get_none hg]
    | some o =>
      obtain ⟨o', hg', hp, _⟩ := s.get_some hg
      rw [hg']; simp only [hp]
      cases o.parent <;> simp [ih]

theorem specRoot_same {h h' : Heap} (s : SameLinks h h') (n i : Nat) :
    h'.specRoot n i = h.specRoot n i := by
  induction n generalizing i with
  | zero => rfl
  | succ n ih =>
    unfold Heap.specRoot
    cases hg : h.get i with
    | none => rw [s.get_none hg]
    | some o =>
      obtain ⟨o', hg', hp, _⟩ := s.get_some hg
      rw [hg']; simp only [hp]
      cases o.parent <;> simp [ih]

theorem kids_same {h h' : Heap} (s : SameLinks h h') (i : Nat) :
    ((h'.get i).map (·.kids)).getD [] = ((h.get i).map (·.kids)).getD [] := by
  cases hg : h.get i with
  | none => rw [s.get_none hg]
  | some o =>
    obtain ⟨o', hg', _, hk⟩ := s.get_some hg
    rw [hg']; simp [hk]

theorem specDesc_same {h h' : Heap} (s : SameLinks h h') (n : Nat) (fr : List Nat) :
    h'.specDesc n fr = h.specDesc n fr := by
  induction n generalizing fr with
  | zero => rfl
  | succ n ih =>
    unfold Heap.specDesc
    simp only [kids_same s, ih]

theorem specNewick_same {h h' : Heap} (s : SameLinks h h') (n i : Nat) :
    h'.specNewick n i = h.specNewick n i := by
  induction n generalizing i with
  | zero => rfl
  | succ n ih =>
    unfold Heap.specNewick
    cases hg : h.get i with
    | none => rw [s.get_none hg]
    | some o =>
      obtain ⟨o', hg', _, hk⟩ := s.get_some hg
      rw [hg']; simp only [hk]
      have : List.map (h'.specNewick n) o.kids = List.map (h.specNewick n) o.kids :=
        List.map_congr_left (fun c _ => ih c)
      rw [this]

/-- `a` is a proper ancestor of `i` on the parent chain (≥ 1 parent links) -/
inductive Reach (h : Heap) : Nat → Nat → Prop
  | one {i o p} : h.get i = some o → o.parent = some p → Reach h i p
  | step {i o p a} : h.get i = some o → o.parent = some p → Reach h p a → Reach h i a

theorem Reach.same {h h' : Heap} (s : SameLinks h h') {i a : Nat} (r : Reach h i a) : Reach h' i a := by
  induction r with
  | one hg hp =>
    obtain ⟨o', hg', hp', _⟩ := s.get_some hg
    exact .one hg' (hp'.trans hp)
  | step hg hp _ ih =>
    obtain ⟨o', hg', hp', _⟩ := s.get_some hg
    exact .step hg' (hp'.trans hp) ih

theorem Reach.trans {h : Heap} {i a b : Nat} (r : Reach h i a) (t : Reach h a b) : Reach h i b := by
  induction r with
  | one hg hp => exact .step hg hp t
  | step hg hp _ ih => exact .step hg hp (ih t)

/-! ## the invariants -/

/-- `rk` decreases along parent links and is bounded by the heap size: acyclicity witness -/
def RankOK (h : Heap) (rk : Nat → Nat) : Prop :=
  ∀ i ∈ h.alive, ∀ o, h.get i = some o → rk i < h.size ∧ ∀ p, o.parent = some p → rk p < rk i

/-- well-formedness of the links of the alive objects -/
structure WF (h : Heap) : Prop where
  alive_nodup : h.alive.Nodup
  alive_get : ∀ i ∈ h.alive, ∃ o, h.get i = some o
  parent_ok : ∀ i ∈ h.alive, ∀ o, h.get i = some o → ∀ p, o.parent = some p →
    p ∈ h.alive ∧ ∃ po, h.get p = some po ∧ i ∈ po.kids
  kids_ok : ∀ i ∈ h.alive, ∀ o, h.get i = some o → ∀ c ∈ o.kids,
    c ∈ h.alive ∧ ∃ co, h.get c = some co ∧ co.parent = some i
  kids_nodup : ∀ i ∈ h.alive, ∀ o, h.get i = some o → o.kids.Nodup
  rank : ∃ rk, RankOK h rk

/-- the caches of one object agree with the links of `h` -/
structure CacheOK (h : Heap) (o : Obj) : Prop where
  lvl : ∀ l, o.lvl = some l → h.specLevel h.size o.id = some l
  anc : ∀ a, o.anc = some a → Reach h o.id a
  desc : ∀ d, o.desc = some d → d = h.specDesc h.size [o.id]
  nw : ∀ s, o.nw = some s → s = h.specNewick h.size o.id
  root : o.parent = none → o.lvl = some 0

/-- every alive object's caches are sound -/
def Sound (h : Heap) : Prop := ∀ i ∈ h.alive, ∀ o, h.get i = some o → CacheOK h o

theorem RankOK.same {h h' : Heap} (s : SameLinks h h') {rk} (r : RankOK h rk) : RankOK h' rk := by
  intro i hi o' hg'
  rw [s.alive] at hi
  obtain ⟨o, hg, hp, _⟩ := s.symm.get_some hg'
  have := r i hi o hg
  rw [s.size]
  exact ⟨this.1, fun p hpp => this.2 p (by rw [hp]; exact hpp)⟩

theorem WF.same {h h' : Heap} (s : SameLinks h h') (w : WF h) : WF h' := by
  have ss := s.symm
  refine ⟨by rw [s.alive]; exact w.alive_nodup, ?_, ?_, ?_, ?_, ?_⟩
  · intro i hi
    rw [s.alive] at hi
    obtain ⟨o, hg⟩ := w.alive_get i hi
    obtain ⟨o', hg', _⟩ := s.get_some hg
    exact ⟨o', hg'⟩
  · intro i hi o' hg' p hp
    rw [s.alive] at hi ⊢
    obtain ⟨o, hg, hpo, _⟩ := ss.get_some hg'
    obtain ⟨hpa, po, hgp, hik⟩ := w.parent_ok i hi o hg p (by rw [hpo]; exact hp)
    obtain ⟨po', hgp', _, hk⟩ := s.get_some hgp
    exact ⟨hpa, po', hgp', by rw [hk]; exact hik⟩
  · intro i hi o' hg' c hc
    rw [s.alive] at hi ⊢
    obtain ⟨o, hg, _, hko⟩ := ss.get_some hg'
    obtain ⟨hca, co, hgc, hcp⟩ := w.kids_ok i hi o hg c (by rw [hko]; exact hc)
    obtain ⟨co', hgc', hp, _⟩ := s.get_some hgc
    exact ⟨hca, co', hgc', by rw [hp]; exact hcp⟩
  · intro i hi o' hg'
    rw [s.alive] at hi
    obtain ⟨o, hg, _, hko⟩ := ss.get_some hg'
    rw [← hko]; exact w.kids_nodup i hi o hg
  · obtain ⟨rk, hr⟩ := w.rank
    exact ⟨rk, hr.same s⟩

theorem CacheOK.same {h h' : Heap} (s : SameLinks h h') {o : Obj} (c : CacheOK h o) : CacheOK h' o := by
  refine ⟨?_, ?_, ?_, ?_, c.root⟩
  · intro l hl; rw [s.size, specLevel_same s]; exact c.lvl l hl
  · intro a ha; exact (c.anc a ha).same s
  · intro d hd; rw [s.size, specDesc_same s]; exact c.desc d hd
  · intro t ht; rw [s.size, specNewick_same s]; exact c.nw t ht

/-- updating one object with a function that keeps the links and yields sound caches -/
theorem sound_update {h : Heap} (hs : Sound h) (i : Nat) (f : Obj → Obj) (hid : ∀ o, (f o).id = o.id)
    (hp : ∀ o, (f o).parent = o.parent) (hk : ∀ o, (f o).kids = o.kids)
    (hc : ∀ o, h.get i = some o → CacheOK h o → CacheOK h (f o)) (hi : i ∈ h.alive) : Sound (h.update i f) := by
  have s := sameLinks_update h i f hid hp hk
  intro j hj o' hg'
  rw [get_update h i f hid] at hg'
  apply CacheOK.same s
  split at hg'
  · subst j
    cases hg : h.get i with
    | none => simp [hg] at hg'
    | some o =>
      simp [hg] at hg'
      subst hg'
      exact hc o hg (hs i hi o hg)
  · exact hs j hj o' hg'
/-! ## fuel lemmas for the specifications -/

theorem specLevel_mono {h : Heap} {n i l : Nat} (hl : h.specLevel n i = some l) :
    h.specLevel (n + 1) i = some l := by
  induction n generalizing i l with
  | zero => simp [Heap.specLevel] at hl
  | succ n ih =>
    unfold Heap.specLevel at hl ⊢
    cases hg : h.get i with
    | none => simp [hg] at hl
    | some o =>
      simp only [hg] at hl ⊢
      cases hp : o.parent with
      | none => simpa [hp] using hl
      | some p =>
        simp only [hp, Option.map_eq_some_iff] at hl ⊢
        obtain ⟨a, ha, rfl⟩ := hl
        exact ⟨a, ih ha, rfl⟩

theorem specLevel_mono_le {h : Heap} {n m i l : Nat} (hl : h.specLevel n i = some l) (hnm : n ≤ m) :
    h.specLevel m i = some l := by
  induction hnm with
  | refl => exact hl
  | step _ ih => exact specLevel_mono ih

theorem specRoot_mono {h : Heap} {n i l : Nat} (hl : h.specRoot n i = some l) :
    h.specRoot (n + 1) i = some l := by
  induction n generalizing i l with
  | zero => simp [Heap.specRoot] at hl
  | succ n ih =>
    unfold Heap.specRoot at hl ⊢
    cases hg : h.get i with
    | none => simp [hg] at hl
    | some o =>
      simp only [hg] at hl ⊢
      cases hp : o.parent with
      | none => simpa [hp] using hl
      | some p =>
        simp only [hp] at hl ⊢
        exact ih hl

theorem specRoot_mono_le {h : Heap} {n m i l : Nat} (hl : h.specRoot n i = some l) (hnm : n ≤ m) :
    h.specRoot m i = some l := by
  induction hnm with
  | refl => exact hl
  | step _ ih => exact specRoot_mono ih

theorem specLevel_isSome {h : Heap} (w : WF h) {rk} (hr : RankOK h rk) (n i : Nat) (hi : i ∈ h.alive)
    (hn : rk i < n) : ∃ l, h.specLevel n i = some l := by
  induction n generalizing i with
  | zero => omega
  | succ n ih =>
    obtain ⟨o, hg⟩ := w.alive_get i hi
    unfold Heap.specLevel
    simp only [hg]
    cases hp : o.parent with
    | none => exact ⟨0, rfl⟩
    | some p =>
      have hpa := (w.parent_ok i hi o hg p hp).1
      have := (hr i hi o hg).2 p hp
      obtain ⟨l, hl⟩ := ih p hpa (by omega)
      exact ⟨l + 1, by simp [hl]⟩

theorem specRoot_isSome {h : Heap} (w : WF h) {rk} (hr : RankOK h rk) (n i : Nat) (hi : i ∈ h.alive)
    (hn : rk i < n) : ∃ l, h.specRoot n i = some l := by
  induction n generalizing i with
  | zero => omega
  | succ n ih =>
    obtain ⟨o, hg⟩ := w.alive_get i hi
    unfold Heap.specRoot
    simp only [hg]
    cases hp : o.parent with
    | none => exact ⟨i, rfl⟩
    | some p =>
      have hpa := (w.parent_ok i hi o hg p hp).1
      have := (hr i hi o hg).2 p hp
      obtain ⟨l, hl⟩ := ih p hpa (by omega)
      exact ⟨l, by simp [hl]⟩

theorem size_eq (h : Heap) : h.size = h.objs.length + 1 := rfl

theorem specLevel_root {h : Heap} {i : Nat} {o : Obj} (hg : h.get i = some o) (hp : o.parent = none) :
    h.specLevel h.size i = some 0 := by
  rw [size_eq]; unfold Heap.specLevel; simp [hg, hp]

theorem specRoot_root {h : Heap} {i : Nat} {o : Obj} (hg : h.get i = some o) (hp : o.parent = none) :
    h.specRoot h.size i = some i := by
  rw [size_eq]; unfold Heap.specRoot; simp [hg, hp]

theorem specLevel_step {h : Heap} (w : WF h) {i p v : Nat} {o : Obj} (hi : i ∈ h.alive)
    (hg : h.get i = some o) (hp : o.parent = some p) (hv : h.specLevel h.size p = some v) :
    h.specLevel h.size i = some (v + 1) := by
  obtain ⟨rk, hr⟩ := w.rank
  have hpa := (w.parent_ok i hi o hg p hp).1
  have h1 := hr i hi o hg
  have h2 := h1.2 p hp
  obtain ⟨l, hl⟩ := specLevel_isSome w hr h.objs.length p hpa (by rw [size_eq] at h1; omega)
  have := specLevel_mono hl
  rw [← size_eq, hv] at this
  cases this
  rw [size_eq]; unfold Heap.specLevel; simp [hg, hp, hl]

theorem specRoot_step {h : Heap} (w : WF h) {i p v : Nat} {o : Obj} (hi : i ∈ h.alive)
    (hg : h.get i = some o) (hp : o.parent = some p) (hv : h.specRoot h.size p = some v) :
    h.specRoot h.size i = some v := by
  obtain ⟨rk, hr⟩ := w.rank
  have hpa := (w.parent_ok i hi o hg p hp).1
  have h1 := hr i hi o hg
  have h2 := h1.2 p hp
  obtain ⟨l, hl⟩ := specRoot_isSome w hr h.objs.length p hpa (by rw [size_eq] at h1; omega)
  have := specRoot_mono hl
  rw [← size_eq, hv] at this
  cases this
  rw [size_eq]; unfold Heap.specRoot; simp [hg, hp, hl]

theorem Reach.alive_rank {h : Heap} (w : WF h) {rk} (hr : RankOK h rk) {i a : Nat} (r : Reach h i a)
    (hi : i ∈ h.alive) : a ∈ h.alive ∧ rk a < rk i := by
  induction r with
  | one hg hp => exact ⟨(w.parent_ok _ hi _ hg _ hp).1, (hr _ hi _ hg).2 _ hp⟩
  | step hg hp _ ih =>
    have h1 := ih (w.parent_ok _ hi _ hg _ hp).1
    have h2 := (hr _ hi _ hg).2 _ hp
    exact ⟨h1.1, by omega⟩

theorem Reach.specRoot {h : Heap} (w : WF h) {i a r : Nat} (t : Reach h i a) (hi : i ∈ h.alive)
    (hv : h.specRoot h.size a = some r) : h.specRoot h.size i = some r := by
  induction t with
  | one hg hp => exact specRoot_step w hi hg hp hv
  | step hg hp _ ih => exact specRoot_step w hi hg hp (ih (w.parent_ok _ hi _ hg _ hp).1 hv)

theorem specRoot_reach {h : Heap} {n a r : Nat} (hv : h.specRoot n a = some r) : a = r ∨ Reach h a r := by
  induction n generalizing a with
  | zero => simp [Heap.specRoot] at hv
  | succ n ih =>
    unfold Heap.specRoot at hv
    cases hg : h.get a with
    | none => simp [hg] at hv
    | some o =>
      simp only [hg] at hv
      cases hp : o.parent with
      | none => simp [hp] at hv; exact .inl hv
      | some p =>
        simp only [hp] at hv
        rcases ih hv with rfl | t
        · exact .inr (.one hg hp)
        · exact .inr (.step hg hp t)

/-! ## `level` -/

theorem walkLevel_spec {h : Heap} (w : WF h) (hs : Sound h) {rk} (hr : RankOK h rk) (fuel j d : Nat)
    (hj : j ∈ h.alive) (hf : rk j < fuel) :
    ∃ l k, h.walkLevel fuel j d = some (l, d + k) ∧ h.specLevel h.size j = some (l + k) := by
  induction fuel generalizing j d with
  | zero => omega
  | succ fuel ih =>
    obtain ⟨o, hg⟩ := w.alive_get j hj
    unfold Heap.walkLevel
    simp only [hg]
    cases hl : o.lvl with
    | some l => exact ⟨l, 0, rfl, by have := (hs j hj o hg).lvl l hl; rwa [get_id hg] at this⟩
    | none =>
      cases hp : o.parent with
      | none => have := (hs j hj o hg).root hp; simp [hl] at this
      | some p =>
        have hpa := (w.parent_ok j hj o hg p hp).1
        have := (hr j hj o hg).2 p hp
        obtain ⟨l, k, h1, h2⟩ := ih p (d + 1) hpa (by omega)
        refine ⟨l, k + 1, ?_, ?_⟩
        · simp only [h1]; congr 2; omega
        · exact specLevel_step w hj hg hp h2

theorem cacheOK_setLvl {h : Heap} {o : Obj} {v : Nat} (c : CacheOK h o) (hv : h.specLevel h.size o.id = some v)
    (hroot : o.parent = none → v = 0) : CacheOK h { o with lvl := some v } :=
  ⟨fun l hl => by simp at hl; subst hl; exact hv, c.anc, c.desc, c.nw, fun hp => by simp [hroot hp]⟩

theorem sound_setLvl {h : Heap} (hs : Sound h) {i v : Nat} (hi : i ∈ h.alive)
    (hv : h.specLevel h.size i = some v) (hroot : ∀ o, h.get i = some o → o.parent = none → v = 0) :
    Sound (h.update i (fun o => { o with lvl := some v })) := by
  refine sound_update hs i (fun o => { o with lvl := some v }) (fun _ => rfl) (fun _ => rfl) (fun _ => rfl) ?_ hi
  intro o hg c
  exact cacheOK_setLvl c (by rw [get_id hg]; exact hv) (hroot o hg)

theorem level_sound (h : Heap) (i : Nat) (hwf : WF h) (hs : Sound h) (hi : i ∈ h.alive) :
    (h.level h.size i).2 = h.specLevel h.size i ∧ WF (h.level h.size i).1 ∧ Sound (h.level h.size i).1 ∧
      SameLinks h (h.level h.size i).1 := by
  suffices hsuff : (h.level h.size i).2 = h.specLevel h.size i ∧ Sound (h.level h.size i).1 ∧
      SameLinks h (h.level h.size i).1 from ⟨hsuff.1, hwf.same hsuff.2.2, hsuff.2.1, hsuff.2.2⟩
  obtain ⟨o, hg⟩ := hwf.alive_get i hi
  have hoid := get_id hg
  have hc := hs i hi o hg
  unfold Heap.level
  simp only [hg]
  cases hl : o.lvl with
  | some l => exact ⟨by rw [← hoid]; exact (hc.lvl l hl).symm, hs, .refl h⟩
  | none =>
    cases hp : o.parent with
    | none => have := hc.root hp; simp [hl] at this
    | some p =>
      obtain ⟨hpa, po, hgp, _⟩ := hwf.parent_ok i hi o hg p hp
      obtain ⟨rk, hr⟩ := hwf.rank
      have hrk := hr i hi o hg
      have hrkp := hrk.2 p hp
      have hroot : ∀ v o', h.get i = some o' → o'.parent = none → v = 0 := by
        intro v o' hg' hpn; rw [hg] at hg'; cases hg'; simp [hp] at hpn
      simp only [hgp, Option.bind_some]
      cases hpl : po.lvl with
      | some pl =>
        simp only []
        have hpv := (hs p hpa po hgp).lvl pl hpl
        rw [get_id hgp] at hpv
        have hiv := specLevel_step hwf hi hg hp hpv
        exact ⟨hiv.symm, sound_setLvl hs hi hiv (hroot _),
          sameLinks_update h i _ (fun _ => rfl) (fun _ => rfl) (fun _ => rfl)⟩
      | none =>
        simp only []
        obtain ⟨l, k, h1, h2⟩ := walkLevel_spec hwf hs hr h.size p 1 hpa (by omega)
        have hiv := specLevel_step hwf hi hg hp h2
        simp only [h1]
        have e1 : l + (1 + k) = l + k + 1 := by omega
        rw [e1, Nat.add_sub_cancel]
        have s1 := sameLinks_update h i (fun o => { o with lvl := some (l + k + 1) }) (fun _ => rfl) (fun _ => rfl) (fun _ => rfl)
        have hs1 : Sound (h.update i (fun o => { o with lvl := some (l + k + 1) })) :=
          sound_setLvl hs hi hiv (hroot _)
        have h2' : (h.update i (fun o => { o with lvl := some (l + k + 1) })).specLevel
            (h.update i (fun o => { o with lvl := some (l + k + 1) })).size p = some (l + k) := by
          rw [s1.size, specLevel_same s1]; exact h2
        refine ⟨hiv.symm, ?_, ?_⟩
        · apply sound_setLvl hs1 (by simpa using hpa) h2'
          intro o' hg' hpn
          -- a parentless alive object has cached level 0, which is its level
          have c' := hs1 p (by simpa using hpa) o' hg'
          have := c'.lvl 0 (c'.root hpn)
          rw [get_id hg', h2'] at this
          exact (Option.some.inj this)
        · exact s1.trans (sameLinks_update _ p _ (fun _ => rfl) (fun _ => rfl) (fun _ => rfl))
/-! ## `ancestor` -/

theorem walkAnc_spec {h : Heap} (w : WF h) (hs : Sound h) {rk} (hr : RankOK h rk) (fuel a : Nat)
    (ha : a ∈ h.alive) (hf : rk a < fuel) :
    ∃ r, h.walkAnc fuel a = some r ∧ h.specRoot h.size a = some r := by
  induction fuel generalizing a with
  | zero => omega
  | succ fuel ih =>
    obtain ⟨ao, hg⟩ := w.alive_get a ha
    unfold Heap.walkAnc
    simp only [hg]
    cases hp : ao.parent with
    | none => exact ⟨a, rfl, specRoot_root hg hp⟩
    | some ap =>
      simp only []
      cases hc : ao.anc with
      | some aa =>
        simp only []
        have t : Reach h a aa := by have := (hs a ha ao hg).anc aa hc; rwa [get_id hg] at this
        have := t.alive_rank w hr ha
        obtain ⟨r, h1, h2⟩ := ih aa this.1 (by omega)
        exact ⟨r, h1, t.specRoot w ha h2⟩
      | none =>
        simp only []
        have hpa := (w.parent_ok a ha ao hg ap hp).1
        have := (hr a ha ao hg).2 ap hp
        obtain ⟨r, h1, h2⟩ := ih ap hpa (by omega)
        exact ⟨r, h1, specRoot_step w ha hg hp h2⟩

theorem ancestor_sound (h : Heap) (i : Nat) (hwf : WF h) (hs : Sound h) (hi : i ∈ h.alive) :
    (h.ancestor h.size i).2 = h.specRoot h.size i ∧ WF (h.ancestor h.size i).1 ∧
      Sound (h.ancestor h.size i).1 ∧ SameLinks h (h.ancestor h.size i).1 := by
  suffices hsuff : (h.ancestor h.size i).2 = h.specRoot h.size i ∧ Sound (h.ancestor h.size i).1 ∧
      SameLinks h (h.ancestor h.size i).1 from ⟨hsuff.1, hwf.same hsuff.2.2, hsuff.2.1, hsuff.2.2⟩
  obtain ⟨o, hg⟩ := hwf.alive_get i hi
  have hoid := get_id hg
  have hc := hs i hi o hg
  unfold Heap.ancestor
  simp only [hg]
  cases hp : o.parent with
  | none => exact ⟨(specRoot_root hg hp).symm, hs, .refl h⟩
  | some p =>
    simp only []
    obtain ⟨rk, hr⟩ := hwf.rank
    have hrk := hr i hi o hg
    have t : Reach h i (o.anc.getD p) := by
      cases ha : o.anc with
      | none => exact .one hg hp
      | some a => have := hc.anc a ha; rw [hoid] at this; simpa using this
    have har := t.alive_rank hwf hr hi
    obtain ⟨r, h1, h2⟩ := walkAnc_spec hwf hs hr h.size _ har.1 (by omega)
    have hir := t.specRoot hwf hi h2
    simp only [h1]
    have tr : Reach h i r := by
      rcases specRoot_reach h2 with e | t'
      · rw [← e]; exact t
      · exact t.trans t'
    refine ⟨hir.symm, ?_, sameLinks_update h i _ (fun _ => rfl) (fun _ => rfl) (fun _ => rfl)⟩
    refine sound_update hs i (fun o => { o with anc := some r }) (fun _ => rfl) (fun _ => rfl) (fun _ => rfl) ?_ hi
    intro o' hg' c'
    exact ⟨c'.lvl, fun a ha => by simp at ha; subst ha; rw [get_id hg']; exact tr, c'.desc, c'.nw, c'.root⟩

/-! ## `descendants` -/

theorem descendants_sound (h : Heap) (i : Nat) (hwf : WF h) (hs : Sound h) (hi : i ∈ h.alive) :
    (h.descendants h.size i).2 = some (h.specDesc h.size [i]) ∧ WF (h.descendants h.size i).1 ∧
      Sound (h.descendants h.size i).1 ∧ SameLinks h (h.descendants h.size i).1 := by
  suffices hsuff : (h.descendants h.size i).2 = some (h.specDesc h.size [i]) ∧ Sound (h.descendants h.size i).1 ∧
      SameLinks h (h.descendants h.size i).1 from ⟨hsuff.1, hwf.same hsuff.2.2, hsuff.2.1, hsuff.2.2⟩
  obtain ⟨o, hg⟩ := hwf.alive_get i hi
  have hoid := get_id hg
  have hc := hs i hi o hg
  unfold Heap.descendants
  simp only [hg]
  cases hd : o.desc with
  | some d => exact ⟨by rw [hc.desc d hd, hoid], hs, .refl h⟩
  | none =>
    simp only []
    refine ⟨by trivial, ?_, sameLinks_update h i _ (fun _ => rfl) (fun _ => rfl) (fun _ => rfl)⟩
    refine sound_update hs i (fun o => { o with desc := some (h.specDesc h.size [i]) })
      (fun _ => rfl) (fun _ => rfl) (fun _ => rfl) ?_ hi
    intro o' hg' c'
    exact ⟨c'.lvl, c'.anc, fun d hd => by simp at hd; subst hd; rw [get_id hg'], c'.nw, c'.root⟩

/-! ## `newick` -/

theorem specNewick_stable {h : Heap} (w : WF h) {rk} (hr : RankOK h rk) (n m i : Nat) (hi : i ∈ h.alive)
    (hn : h.size ≤ n + rk i) (hm : h.size ≤ m + rk i) : h.specNewick n i = h.specNewick m i := by
  induction n generalizing m i with
  | zero =>
    obtain ⟨o, hg⟩ := w.alive_get i hi
    have := (hr i hi o hg).1; omega
  | succ n ih =>
    obtain ⟨o, hg⟩ := w.alive_get i hi
    have h1 := (hr i hi o hg).1
    cases m with
    | zero => omega
    | succ m =>
      unfold Heap.specNewick
      simp only [hg]
      have : List.map (h.specNewick n) o.kids = List.map (h.specNewick m) o.kids := by
        apply List.map_congr_left
        intro c hc
        obtain ⟨hca, co, hgc, hcp⟩ := w.kids_ok i hi o hg c hc
        have := (hr c hca co hgc).2 i hcp
        exact ih m c hca (by omega) (by omega)
      rw [this]

/-- the fold over the children in `newick`, given the recursive guarantee for each child -/
theorem newick_fold {h0 : Heap} {fuel : Nat} (P : Heap → Prop) (ks : List Nat)
    (hrec : ∀ c ∈ ks, ∀ h', P h' → (h'.newick fuel c).2 = h0.specNewick h0.size c ∧ P (h'.newick fuel c).1)
    (h1 : Heap) (acc : List String) (hP : P h1) :
    (ks.foldl (fun (acc : Heap × List String) c =>
          let (h2, s) := Heap.newick acc.1 fuel c
          (h2, acc.2 ++ [s])) (h1, acc)).2 = acc ++ ks.map (h0.specNewick h0.size) ∧
    P (ks.foldl (fun (acc : Heap × List String) c =>
          let (h2, s) := Heap.newick acc.1 fuel c
          (h2, acc.2 ++ [s])) (h1, acc)).1 := by
  induction ks generalizing h1 acc with
  | nil => simp [hP]
  | cons c ks ih =>
    simp only [List.foldl_cons, List.map_cons]
    obtain ⟨e, hP'⟩ := hrec c (List.mem_cons_self) h1 hP
    have := ih (fun c' hc' => hrec c' (List.mem_cons_of_mem _ hc')) (h1.newick fuel c).1
      (acc ++ [(h1.newick fuel c).2]) hP'
    simpa [e] using this

theorem newick_spec {h0 : Heap} (w : WF h0) {rk} (hr : RankOK h0 rk) (fuel : Nat) :
    ∀ (h : Heap) (i : Nat), SameLinks h0 h → Sound h → i ∈ h0.alive → h0.size ≤ fuel + rk i →
      (h.newick fuel i).2 = h0.specNewick h0.size i ∧ SameLinks h0 (h.newick fuel i).1 ∧
        Sound (h.newick fuel i).1 := by
  induction fuel with
  | zero =>
    intro h i _ _ hi hf
    obtain ⟨o, hg⟩ := w.alive_get i hi
    have := (hr i hi o hg).1; omega
  | succ fuel ih =>
    intro h i s hs hi hf
    obtain ⟨o0, hg0⟩ := w.alive_get i hi
    obtain ⟨o, hg, hpo, hko⟩ := s.get_some hg0
    have hia : i ∈ h.alive := by rw [s.alive]; exact hi
    have hc := hs i hia o hg
    have hrk := (hr i hi o0 hg0).1
    unfold Heap.newick
    simp only [hg]
    cases hn : o.nw with
    | some t =>
      simp only []
      refine ⟨?_, s, hs⟩
      rw [hc.nw t hn, get_id hg, s.size, specNewick_same s]
    | none =>
      simp only []
      have hfold := newick_fold (h0 := h0) (fuel := fuel) (fun h' => SameLinks h0 h' ∧ Sound h') o.kids
        (by
          intro c hck h' hP'
          rw [hko] at hck
          obtain ⟨hca, co, hgc, hcp⟩ := w.kids_ok i hi o0 hg0 c hck
          have := (hr c hca co hgc).2 i hcp
          exact ih h' c hP'.1 hP'.2 hca (by omega))
        h [] ⟨s, hs⟩
      generalize o.kids.foldl (fun (acc : Heap × List String) c =>
          let (h2, s) := Heap.newick acc.1 fuel c
          (h2, acc.2 ++ [s])) (h, []) = res at hfold
      obtain ⟨h', strs⟩ := res
      simp only [List.nil_append] at hfold
      obtain ⟨hstrs, s', hs'⟩ := hfold
      subst hstrs
      simp only []
      have hspec : h0.specNewick h0.size i =
          (if o.kids.isEmpty then toString i
           else "(" ++ ",".intercalate (o.kids.map (h0.specNewick h0.size)) ++ ")" ++ toString i) := by
        conv => lhs; rw [size_eq]; unfold Heap.specNewick
        simp only [hg0, ← hko]
        have : List.map (h0.specNewick h0.objs.length) o.kids = List.map (h0.specNewick h0.size) o.kids := by
          apply List.map_congr_left
          intro c hck
          rw [hko] at hck
          obtain ⟨hca, co, hgc, hcp⟩ := w.kids_ok i hi o0 hg0 c hck
          have := (hr c hca co hgc).2 i hcp
          exact specNewick_stable w hr _ _ c hca (by rw [size_eq]; omega) (by omega)
        rw [this]
      refine ⟨hspec.symm, s'.trans (sameLinks_update h' i _ (fun _ => rfl) (fun _ => rfl) (fun _ => rfl)), ?_⟩
      refine sound_update hs' i (fun o' => { o' with nw := some _ }) (fun _ => rfl) (fun _ => rfl) (fun _ => rfl) ?_
        (by rw [s'.alive]; exact hi)
      intro o' hg' c'
      refine ⟨c'.lvl, c'.anc, c'.desc, ?_, c'.root⟩
      intro t ht
      simp only [Option.some.injEq] at ht
      subst ht
      rw [get_id hg', s'.size, specNewick_same s', hspec]

theorem newick_sound (h : Heap) (i : Nat) (hwf : WF h) (hs : Sound h) (hi : i ∈ h.alive) :
    (h.newick h.size i).2 = h.specNewick h.size i ∧ WF (h.newick h.size i).1 ∧
      Sound (h.newick h.size i).1 ∧ SameLinks h (h.newick h.size i).1 := by
  obtain ⟨rk, hr⟩ := hwf.rank
  obtain ⟨h1, h2, h3⟩ := newick_spec hwf hr h.size h i (.refl h) hs hi (by omega)
  exact ⟨h1, hwf.same h2, h3, h2⟩
/-! ## pruning -/

theorem get_foldl_setParent (p : Nat) (ks : List Nat) (h : Heap) (x : Nat) :
    (ks.foldl (fun acc c => acc.update c (fun co => { co with parent := some p })) h).get x =
      if x ∈ ks then (h.get x).map (fun co => { co with parent := some p }) else h.get x := by
  induction ks generalizing h with
  | nil => simp
  | cons c ks ih =>
    simp only [List.foldl_cons, ih, List.mem_cons]
    rw [get_update h c (fun co => { co with parent := some p }) (fun _ => rfl)]
    by_cases hxc : x = c
    · subst hxc
      simp only [if_true, true_or]
      split
      · cases h.get x <;> rfl
      · rfl
    · simp [hxc]

theorem foldl_setParent_alive (p : Nat) (ks : List Nat) (h : Heap) :
    (ks.foldl (fun acc c => acc.update c (fun co => { co with parent := some p })) h).alive = h.alive := by
  induction ks generalizing h with
  | nil => rfl
  | cons c ks ih => simp only [List.foldl_cons, ih, update_alive]

theorem foldl_setParent_size (p : Nat) (ks : List Nat) (h : Heap) :
    (ks.foldl (fun acc c => acc.update c (fun co => { co with parent := some p })) h).size = h.size := by
  induction ks generalizing h with
  | nil => rfl
  | cons c ks ih => simp only [List.foldl_cons, ih, update_size]

/-- what `mergeWithParent m` does to the object with identifier `x` (`mo` = the merged object,
    `p` = its parent) -/
def mergeF (m p : Nat) (mo : Obj) (x : Nat) (o : Obj) : Obj :=
  let o1 := if x = p then
      { resetCache { o with own := o.own ++ mo.own } with kids := o.kids.erase m ++ mo.kids }
    else o
  if x ∈ mo.kids then { o1 with parent := some p } else o1

theorem mergeF_parent (m p : Nat) (mo : Obj) (x : Nat) (o : Obj) :
    (mergeF m p mo x o).parent = if x ∈ mo.kids then some p else o.parent := by
  unfold mergeF resetCache; split <;> split <;> rfl

theorem mergeF_kids (m p : Nat) (mo : Obj) (x : Nat) (o : Obj) :
    (mergeF m p mo x o).kids = if x = p then o.kids.erase m ++ mo.kids else o.kids := by
  unfold mergeF resetCache; split <;> split <;> rfl

theorem merge_get {h : Heap} {m p : Nat} {mo : Obj} (hgm : h.get m = some mo) (hmp : mo.parent = some p)
    (x : Nat) : (h.mergeWithParent m).get x = (h.get x).map (mergeF m p mo x) := by
  unfold Heap.mergeWithParent
  simp only [hgm, hmp]
  show Heap.get (List.foldl _ _ mo.kids) x = _
  rw [get_foldl_setParent]
  have e1 := fun y => get_update h p (fun po => resetCache { po with own := po.own ++ mo.own }) (fun _ => rfl) y
  have e2 := fun y => get_update (h.update p (fun po => resetCache { po with own := po.own ++ mo.own })) p
    (fun po => { po with kids := po.kids.erase m ++ mo.kids }) (fun _ => rfl) y
  simp only [e2, e1]
  unfold mergeF
  by_cases hxp : x = p
  · subst hxp
    cases h.get x with
    | none => simp
    | some o => by_cases hk : x ∈ mo.kids <;> simp [hk, resetCache]
  · cases h.get x with
    | none => simp [hxp]
    | some o => by_cases hk : x ∈ mo.kids <;> simp [hk, hxp]

theorem merge_alive {h : Heap} {m p : Nat} {mo : Obj} (hgm : h.get m = some mo) (hmp : mo.parent = some p) :
    (h.mergeWithParent m).alive = h.alive.erase m := by
  unfold Heap.mergeWithParent
  simp only [hgm, hmp]
  rw [foldl_setParent_alive]; rfl

theorem merge_size (h : Heap) (m : Nat) : (h.mergeWithParent m).size = h.size := by
  unfold Heap.mergeWithParent
  cases hgm : h.get m with
  | none => rfl
  | some mo =>
    simp only []
    cases hmp : mo.parent with
    | none => rfl
    | some p =>
      simp only []
      show Heap.size (List.foldl _ _ mo.kids) = _
      rw [foldl_setParent_size, update_size, update_size]

theorem mergeWithParent_wf (h : Heap) (m : Nat) (hwf : WF h) (hm : m ∈ h.alive)
    (hp : (h.get m).bind (·.parent) ≠ none) : WF (h.mergeWithParent m) := by
  obtain ⟨mo, hgm⟩ := hwf.alive_get m hm
  rw [hgm] at hp
  obtain ⟨p, hmp⟩ := Option.ne_none_iff_exists'.mp hp
  simp only [Option.bind_some] at hmp
  obtain ⟨hpa, po, hgp, hmk⟩ := hwf.parent_ok m hm mo hgm p hmp
  obtain ⟨rk, hr⟩ := hwf.rank
  have hrm := (hr m hm mo hgm).2 p hmp
  have hmp_ne : p ≠ m := by intro e; rw [e] at hrm; omega
  -- facts about the children of `m`
  have hkid : ∀ c ∈ mo.kids, c ∈ h.alive ∧ c ≠ m ∧ rk m < rk c ∧ ∃ co, h.get c = some co ∧ co.parent = some m := by
    intro c hc
    obtain ⟨hca, co, hgc, hcp⟩ := hwf.kids_ok m hm mo hgm c hc
    have := (hr c hca co hgc).2 m hcp
    exact ⟨hca, by intro e; rw [e] at this; omega, this, co, hgc, hcp⟩
  have hal : ∀ x, x ∈ (h.mergeWithParent m).alive ↔ x ≠ m ∧ x ∈ h.alive := by
    intro x; rw [merge_alive hgm hmp]; exact hwf.alive_nodup.mem_erase_iff
  have view : ∀ x ∈ (h.mergeWithParent m).alive, ∀ o', (h.mergeWithParent m).get x = some o' →
      x ∈ h.alive ∧ x ≠ m ∧ ∃ o, h.get x = some o ∧
        o'.parent = (if x ∈ mo.kids then some p else o.parent) ∧
        o'.kids = (if x = p then o.kids.erase m ++ mo.kids else o.kids) := by
    intro x hx o' hg'
    have hx' := (hal x).1 hx
    obtain ⟨o, hg⟩ := hwf.alive_get x hx'.2
    rw [merge_get hgm hmp, hg] at hg'
    simp only [Option.map_some, Option.some.injEq] at hg'
    subst hg'
    exact ⟨hx'.2, hx'.1, o, hg, mergeF_parent .., mergeF_kids ..⟩
  have view2 : ∀ x ∈ h.alive, x ≠ m → ∀ o, h.get x = some o →
      x ∈ (h.mergeWithParent m).alive ∧ ∃ o', (h.mergeWithParent m).get x = some o' ∧
        o'.parent = (if x ∈ mo.kids then some p else o.parent) ∧
        o'.kids = (if x = p then o.kids.erase m ++ mo.kids else o.kids) := by
    intro x hx hxm o hg
    refine ⟨(hal x).2 ⟨hxm, hx⟩, mergeF m p mo x o, ?_, mergeF_parent .., mergeF_kids ..⟩
    rw [merge_get hgm hmp, hg]; rfl
  refine ⟨?_, ?_, ?_, ?_, ?_, ⟨rk, ?_⟩⟩
  · rw [merge_alive hgm hmp]; exact hwf.alive_nodup.erase m
  · intro x hx
    have hx' := (hal x).1 hx
    obtain ⟨o, hg⟩ := hwf.alive_get x hx'.2
    exact ⟨_, (view2 x hx'.2 hx'.1 o hg).2.choose_spec.1⟩
  · -- parent_ok
    intro x hx o' hg' q hq
    obtain ⟨hxa, hxm, o, hg, hpar, _⟩ := view x hx o' hg'
    rw [hq] at hpar
    by_cases hxk : x ∈ mo.kids
    · rw [if_pos hxk] at hpar
      rw [Option.some.inj hpar]
      obtain ⟨h1, po', h2, _, h3⟩ := view2 p hpa hmp_ne po hgp
      refine ⟨h1, po', h2, ?_⟩
      rw [h3, if_pos rfl]
      exact List.mem_append.2 (.inr hxk)
    · rw [if_neg hxk] at hpar
      obtain ⟨hqa, qo, hgq, hxq⟩ := hwf.parent_ok x hxa o hg q hpar.symm
      have hqm : q ≠ m := by
        intro e; subst e; rw [hgm] at hgq; cases hgq; exact hxk hxq
      obtain ⟨h1, qo', h2, _, h3⟩ := view2 q hqa hqm qo hgq
      refine ⟨h1, qo', h2, ?_⟩
      rw [h3]
      split
      · exact List.mem_append.2 (.inl ((List.mem_erase_of_ne hxm).2 hxq))
      · exact hxq
  · -- kids_ok
    intro x hx o' hg' c hc
    obtain ⟨hxa, hxm, o, hg, _, hkids⟩ := view x hx o' hg'
    rw [hkids] at hc
    by_cases hxp : x = p
    · subst hxp
      rw [hgp] at hg; cases hg
      rw [if_pos rfl] at hc
      rcases List.mem_append.1 hc with hc | hc
      · have hc' := (hwf.kids_nodup x hxa po hgp).mem_erase_iff.1 hc
        obtain ⟨hca, co, hgc, hcp⟩ := hwf.kids_ok x hxa po hgp c hc'.2
        obtain ⟨h1, co', h2, h3, _⟩ := view2 c hca hc'.1 co hgc
        refine ⟨h1, co', h2, ?_⟩
        rw [h3]; split
        · rfl
        · exact hcp
      · obtain ⟨hca, hcm, _, co, hgc, hcp⟩ := hkid c hc
        obtain ⟨h1, co', h2, h3, _⟩ := view2 c hca hcm co hgc
        refine ⟨h1, co', h2, ?_⟩
        rw [h3, if_pos hc]
    · rw [if_neg hxp] at hc
      obtain ⟨hca, co, hgc, hcp⟩ := hwf.kids_ok x hxa o hg c hc
      have hcm : c ≠ m := by
        intro e; subst e; rw [hgm] at hgc; cases hgc
        rw [hmp] at hcp; cases hcp; exact hxp rfl
      obtain ⟨h1, co', h2, h3, _⟩ := view2 c hca hcm co hgc
      refine ⟨h1, co', h2, ?_⟩
      rw [h3]; split
      · rename_i hck
        obtain ⟨_, _, _, co2, hgc2, hcp2⟩ := hkid c hck
        rw [hgc] at hgc2; cases hgc2
        rw [hcp] at hcp2; cases hcp2
        exact absurd rfl hxm
      · exact hcp
  · -- kids_nodup
    intro x hx o' hg'
    obtain ⟨hxa, hxm, o, hg, _, hkids⟩ := view x hx o' hg'
    rw [hkids]
    have hnd := hwf.kids_nodup x hxa o hg
    split
    · rename_i hxp
      subst hxp
      rw [hgp] at hg; cases hg
      refine List.nodup_append.2 ⟨hnd.erase m, hwf.kids_nodup m hm mo hgm, ?_⟩
      intro a ha b hb hab
      subst hab
      have ha' := (hnd.mem_erase_iff.1 ha).2
      obtain ⟨_, co, hgc, hcp⟩ := hwf.kids_ok x hxa po hgp a ha'
      obtain ⟨_, _, _, co2, hgc2, hcp2⟩ := hkid a hb
      rw [hgc] at hgc2; cases hgc2
      rw [hcp] at hcp2; cases hcp2
      exact hmp_ne rfl
    · exact hnd
  · -- rank
    intro x hx o' hg'
    obtain ⟨hxa, hxm, o, hg, hpar, _⟩ := view x hx o' hg'
    have hrx := hr x hxa o hg
    rw [merge_size]
    refine ⟨hrx.1, ?_⟩
    intro q hq
    rw [hq] at hpar
    by_cases hxk : x ∈ mo.kids
    · rw [if_pos hxk] at hpar
      have := (hkid x hxk).2.2.1
      rw [Option.some.inj hpar]
      omega
    · rw [if_neg hxk] at hpar
      exact hrx.2 q hpar.symm

/-- every merge of the list addresses an alive object with a parent, at its turn -/
inductive Legal : Heap → List Nat → Prop
  | nil (h : Heap) : Legal h []
  | cons {h : Heap} {m : Nat} {ms : List Nat} : m ∈ h.alive → (h.get m).bind (·.parent) ≠ none →
      Legal (h.mergeWithParent m) ms → Legal h (m :: ms)

theorem foldl_merge_wf {h : Heap} {ms : List Nat} (hwf : WF h) (hl : Legal h ms) :
    WF (ms.foldl Heap.mergeWithParent h) := by
  induction hl with
  | nil h => exact hwf
  | cons hm hp _ ih => exact ih (mergeWithParent_wf _ _ hwf hm hp)

/-- what `finishPrune` does to an object -/
def finishF (h : Heap) (o : Obj) : Obj :=
  if h.alive.contains o.id then
    let o' := resetCache o
    if o'.parent.isNone then { o' with lvl := some 0 } else o'
  else o

theorem finishF_id (h : Heap) (o : Obj) : (finishF h o).id = o.id := by
  unfold finishF resetCache
  split
  · dsimp only
    split <;> rfl
  · rfl
theorem finishF_parent (h : Heap) (o : Obj) : (finishF h o).parent = o.parent := by
  unfold finishF resetCache
  split
  · dsimp only
    split <;> rfl
  · rfl
theorem finishF_kids (h : Heap) (o : Obj) : (finishF h o).kids = o.kids := by
  unfold finishF resetCache
  split
  · dsimp only
    split <;> rfl
  · rfl

theorem finishPrune_get (h : Heap) (x : Nat) : h.finishPrune.get x = (h.get x).map (finishF h) := by
  unfold Heap.finishPrune Heap.get
  exact find_map_id (finishF h) (finishF_id h) h.objs x

theorem finishPrune_same (h : Heap) : SameLinks h h.finishPrune := by
  refine ⟨rfl, by simp [Heap.finishPrune, Heap.size], fun x => ?_⟩
  rw [finishPrune_get]
  cases h.get x <;> simp [finishF_parent, finishF_kids]

theorem finishPrune_sound (h : Heap) : Sound h.finishPrune := by
  intro x hx o' hg'
  have hg'' := hg'
  rw [finishPrune_get] at hg'
  cases hg : h.get x with
  | none => simp [hg] at hg'
  | some o =>
    simp only [hg, Option.map_some, Option.some.injEq] at hg'
    have hid := get_id hg
    have hx' : h.alive.contains o.id = true := by rw [hid]; exact List.contains_iff_mem.2 hx
    unfold finishF at hg'
    rw [if_pos hx'] at hg'
    simp only [resetCache] at hg'
    cases hp : o.parent with
    | none =>
      simp [hp] at hg'
      subst hg'
      refine ⟨?_, by simp, by simp, by simp, by simp⟩
      intro l hl
      simp at hl; subst hl
      rw [hid]
      exact specLevel_root hg'' rfl
    | some q =>
      simp [hp] at hg'
      subst hg'
      exact ⟨by simp, by simp, by simp, by simp, by simp⟩

theorem prune_sound (h : Heap) (ms : List Nat) (hwf : WF h) (hms : Legal h ms) :
    WF (h.prune ms) ∧ Sound (h.prune ms) :=
  ⟨(foldl_merge_wf hwf hms).same (finishPrune_same _), finishPrune_sound _⟩
/-! ## histories -/

/-- an operation is legal on `h`: queries address alive objects, prunes are legal merge lists -/
def LegalOp (h : Heap) : COp → Prop
  | .qLevel i => i ∈ h.alive
  | .qAnc i => i ∈ h.alive
  | .qDesc i => i ∈ h.alive
  | .qNewick i => i ∈ h.alive
  | .prune ms => Legal h ms

/-- every operation of the history is legal at its turn (recursion along `stepC`) -/
def LegalHist : Heap → List COp → Prop
  | _, [] => True
  | h, op :: ops => LegalOp h op ∧ LegalHist (h.stepC op).1 ops

theorem stepC_sound (h : Heap) (op : COp) (hwf : WF h) (hs : Sound h) (hl : LegalOp h op) :
    (h.stepC op).2 = h.specObs op ∧ WF (h.stepC op).1 ∧ Sound (h.stepC op).1 := by
  cases op with
  | qLevel i =>
    obtain ⟨o, hg⟩ := hwf.alive_get i hl
    obtain ⟨h1, h2, h3, _⟩ := level_sound h i hwf hs hl
    exact ⟨by simp [Heap.stepC, Heap.specObs, hg, h1], h2, h3⟩
  | qAnc i =>
    obtain ⟨o, hg⟩ := hwf.alive_get i hl
    obtain ⟨h1, h2, h3, _⟩ := ancestor_sound h i hwf hs hl
    exact ⟨by simp [Heap.stepC, Heap.specObs, hg, h1], h2, h3⟩
  | qDesc i =>
    obtain ⟨o, hg⟩ := hwf.alive_get i hl
    obtain ⟨h1, h2, h3, _⟩ := descendants_sound h i hwf hs hl
    exact ⟨by simp [Heap.stepC, Heap.specObs, hg, h1], h2, h3⟩
  | qNewick i =>
    obtain ⟨h1, h2, h3, _⟩ := newick_sound h i hwf hs hl
    exact ⟨by simp [Heap.stepC, Heap.specObs, h1], h2, h3⟩
  | prune ms =>
    obtain ⟨h2, h3⟩ := prune_sound h ms hwf hl
    exact ⟨rfl, h2, h3⟩

/-- MAIN: along every legal history from a well-formed heap with sound caches, every observation of
    the repaired code equals the observation computed from the live links at that moment. -/
theorem history_sound (h : Heap) (ops : List COp) (hwf : WF h) (hs : Sound h) (hlegal : LegalHist h ops) :
    ∀ pr ∈ Heap.runHistory Heap.stepC h ops, pr.1 = pr.2 := by
  induction ops generalizing h with
  | nil => intro pr hpr; simp [Heap.runHistory] at hpr
  | cons op ops ih =>
    obtain ⟨h1, h2, h3⟩ := stepC_sound h op hwf hs hlegal.1
    intro pr hpr
    simp only [Heap.runHistory, List.mem_cons] at hpr
    rcases hpr with rfl | hpr
    · exact h1
    · exact ih _ h2 h3 hlegal.2 pr hpr

/-- the invariants also hold at the end of the history -/
theorem history_invariant (h : Heap) (ops : List COp) (hwf : WF h) (hs : Sound h) (hlegal : LegalHist h ops) :
    WF (ops.foldl (fun a op => (a.stepC op).1) h) ∧ Sound (ops.foldl (fun a op => (a.stepC op).1) h) := by
  induction ops generalizing h with
  | nil => exact ⟨hwf, hs⟩
  | cons op ops ih =>
    obtain ⟨_, h2, h3⟩ := stepC_sound h op hwf hs hlegal.1
    exact ih _ h2 h3 hlegal.2

/-! ## the code before the repair: stale answers -/

def h0 : Heap := { objs := [ { id := 0, kids := [1, 6], lvl := some 0 }, { id := 1, parent := some 0, kids := [2, 3] }, { id := 6, parent := some 0 }, { id := 2, parent := some 1, kids := [4, 5] }, { id := 3, parent := some 1 }, { id := 4, parent := some 2 }, { id := 5, parent := some 2 } ], alive := [0,1,2,3,4,5,6] }

theorem stale_level_witness : ∃ pr ∈ Heap.runHistory Heap.stepOld h0 [.qLevel 4, .prune [2, 3], .qLevel 4], pr.1 ≠ pr.2 := by decide
theorem stale_descendants_witness : ∃ pr ∈ Heap.runHistory Heap.stepOld h0 [.qDesc 0, .prune [2, 3], .qDesc 0], pr.1 ≠ pr.2 := by decide
theorem stale_newick_witness : ∃ pr ∈ Heap.runHistory Heap.stepOld h0 [.qNewick 0, .prune [2, 3], .qNewick 0], pr.1 ≠ pr.2 := by decide
theorem repaired_witness : ∀ pr ∈ Heap.runHistory Heap.stepC h0 [.qLevel 4, .qDesc 0, .qNewick 0, .prune [2, 3], .qLevel 4, .qDesc 0, .qNewick 0, .qAnc 5], pr.1 = pr.2 := by decide

/-- a rank for `h0` (the level) -/
def rk0 : Nat → Nat
  | 0 => 0 | 1 => 1 | 6 => 1 | 2 => 2 | 3 => 2 | _ => 3

theorem h0_wf : WF h0 := by
  have k : ∀ i ∈ h0.alive, (h0.get i).isSome = true := by decide
  refine ⟨by decide, fun i hi => Option.isSome_iff_exists.1 (k i hi), by decide, by decide, by decide, ⟨rk0, ?_⟩⟩
  unfold RankOK; decide

theorem h0_sound : Sound h0 := by
  have key : ∀ i ∈ h0.alive, ∀ o, h0.get i = some o → o.anc = none ∧ o.desc = none ∧ o.nw = none ∧
      (o.parent = none → o.lvl = some 0) ∧ (∀ l, o.lvl = some l → h0.specLevel h0.size o.id = some l) := by
    decide
  intro i hi o hg
  obtain ⟨k1, k2, k3, k4, k5⟩ := key i hi o hg
  exact ⟨k5, by simp [k1], by simp [k2], by simp [k3], k4⟩

/-- non-vacuity: `h0` satisfies the invariants -/
example : WF h0 ∧ Sound h0 := ⟨h0_wf, h0_sound⟩

/-- the repaired witness history is legal, so `repaired_witness` is also an instance of `history_sound` -/
example : LegalHist h0 [.qLevel 4, .qDesc 0, .qNewick 0, .prune [2, 3], .qLevel 4, .qDesc 0, .qNewick 0, .qAnc 5] := by
  have mem : ∀ {h : Heap} {i : Nat}, i ∈ h.alive → i ∈ h.alive := id
  refine ⟨mem (by decide), mem (by decide), mem (by decide), ?_, ?_⟩
  · exact .cons (by decide) (by decide) (.cons (by decide) (by decide) (.nil _))
  · exact ⟨mem (by decide), mem (by decide), mem (by decide), mem (by decide), trivial⟩
end P17
