import ADProofs.RunInd
/-!
# ADProofs.Forest — forest well-formedness of the pixel loop (C02) and the documented
construction (C04)

* `allStructures_eq`   : the `pop(0)` / `children + todo` loop is the prefix listing
* `run_arity`, `compute_arity_pre` : every structure is a leaf or has ≥ 2 children
* `run_ids_subset`, `run_ids_nodup`, `run_own_nonempty`
* `pre_parent_before_child`
* `step_none`, `step_one`, `joinAdj_many_*`, `insig_iff` : case characterisation of one step
* `order_unique_of_distinct`, `run_unique_of_distinct`
* `relabel_ids_perm`   : final identifiers are `0 … N-1`, each once

Core Lean only.
-/
open Tree

def Arity (t : Tree) : Prop := t.kids = [] ∨ 2 ≤ t.kids.length

def GoodForest (f : List Tree) : Prop :=
  ((Tree.preL f).map Tree.id).Nodup ∧ (∀ t ∈ Tree.preL f, t.own ≠ []) ∧ (Tree.pixelsL f).Nodup

/-! ## generalities on forests -/

/-- simultaneous induction on trees and forests -/
theorem Tree.forest_induction (P : Tree → Prop) (PL : List Tree → Prop)
    (hnode : ∀ i o ks, PL ks → P (node i o ks)) (hnil : PL [])
    (hcons : ∀ t ts, P t → PL ts → PL (t :: ts)) : (∀ t, P t) ∧ (∀ l, PL l) :=
  ⟨fun t => Tree.rec (motive_1 := P) (motive_2 := PL) hnode hnil hcons t,
   fun l => Tree.rec_1 (motive_1 := P) (motive_2 := PL) hnode hnil hcons l⟩

theorem preL_eq_flatMap (ts : List Tree) : preL ts = ts.flatMap pre := by
  induction ts with
  | nil => simp [preL]
  | cons t ts ih => simp [preL, ih]

theorem preL_perm {a b : List Tree} (h : a.Perm b) : (preL a).Perm (preL b) := by
  rw [preL_eq_flatMap, preL_eq_flatMap]; exact h.flatMap_right _

theorem preL_sublist {a b : List Tree} (h : a.Sublist b) : (preL a).Sublist (preL b) := by
  induction h with
  | slnil => simp
  | cons t _ ih => simp only [preL]; exact ih.trans (List.sublist_append_right _ _)
  | cons_cons t _ ih => simp only [preL]; exact List.Sublist.append_left ih _

theorem mem_preL {x : Tree} {ts : List Tree} : x ∈ preL ts ↔ ∃ t ∈ ts, x ∈ pre t := by
  rw [preL_eq_flatMap]; simp [List.mem_flatMap]

theorem preL_singleton (t : Tree) : preL [t] = pre t := by simp [preL]

theorem mem_pre_self (t : Tree) : t ∈ pre t := by rw [pre_eq]; simp

theorem mem_preL_of_mem {t : Tree} {ts : List Tree} (h : t ∈ ts) : t ∈ preL ts :=
  mem_preL.mpr ⟨t, h, mem_pre_self t⟩

/-! ## 1. the implementation's enumeration loop -/

theorem allStructures_eq (todo : List Tree) : allStructures todo = Tree.preL todo := by
  fun_induction allStructures todo with
  | case1 => simp [preL]
  | case2 i o ks rest ih => rw [ih, preL_append]; simp [preL, pre]

/-! ## shape of the receiving structure -/

theorem own_addPixel (t : Tree) (p : Nat) : (t.addPixel p).own = t.own ++ [p] := by
  cases t; simp [addPixel, Tree.own]

theorem own_absorb (t m : Tree) : (t.absorb m).own = t.own ++ m.own := by
  cases t; simp [absorb, Tree.own]

theorem mem_own_foldl_absorb (ms : List Tree) (t : Tree) (x : Nat) (h : x ∈ t.own) :
    x ∈ (ms.foldl Tree.absorb t).own := by
  induction ms generalizing t with
  | nil => exact h
  | cons m ms ih => simp only [List.foldl_cons]; exact ih _ (by rw [own_absorb]; simp [h])

/-- The structure receiving pixel `p` owns `p`, and is either a new structure with identifier `p`
whose children are a sub-list of the adjacent roots (none, or at least two), or one of the adjacent
roots with unchanged identifier and children. -/
theorem joinAdj_shape (E : Env) (p : Nat) (adj : List Tree) :
    p ∈ (joinAdj E p adj).own ∧
    (((joinAdj E p adj).id = p ∧ (joinAdj E p adj).kids.Sublist adj ∧ Arity (joinAdj E p adj)) ∨
     (∃ t ∈ adj, (joinAdj E p adj).id = t.id ∧ (joinAdj E p adj).kids = t.kids)) := by
  unfold joinAdj
  match adj with
  | [] => simp [Tree.own, Tree.id, Tree.kids, Arity]
  | [t] =>
    refine ⟨by simp [own_addPixel], Or.inr ⟨t, by simp, id_addPixel t p, kids_addPixel t p⟩⟩
  | a :: b :: adj' =>
    simp only
    generalize hA : (a :: b :: adj') = A
    generalize hmrg : A.filter (insig E p) = mrg
    generalize hkeep : A.filter (fun t => !insig E p t) = keep
    match keep, hkeep with
    | [], hkeep =>
      rcases hr : mrg.reverse with _ | ⟨bt, others⟩
      · simp [Tree.own, Tree.id, Tree.kids, Arity]
      · simp only
        have hm' : mrg = others.reverse ++ [bt] := by
          have := congrArg List.reverse hr; simpa using this
        have hbt : bt ∈ A := by
          have : bt ∈ A.filter (insig E p) := by rw [hmrg, hm']; simp
          exact (List.mem_filter.mp this).1
        refine ⟨mem_own_foldl_absorb _ _ _ (by simp [own_addPixel]), Or.inr ⟨bt, hbt, ?_, ?_⟩⟩
        · rw [id_foldl_absorb, id_addPixel]
        · rw [kids_foldl_absorb, kids_addPixel]
    | [t], hkeep =>
      simp only
      have ht : t ∈ A := by
        have : t ∈ A.filter (fun t => !insig E p t) := by rw [hkeep]; simp
        exact (List.mem_filter.mp this).1
      refine ⟨mem_own_foldl_absorb _ _ _ (by simp [own_addPixel]), Or.inr ⟨t, ht, ?_, ?_⟩⟩
      · rw [id_foldl_absorb, id_addPixel]
      · rw [kids_foldl_absorb, kids_addPixel]
    | k1 :: k2 :: ks, hkeep =>
      simp only
      refine ⟨mem_own_foldl_absorb _ _ _ (by simp [Tree.own]), Or.inl ⟨?_, ?_, ?_⟩⟩
      · rw [id_foldl_absorb]; rfl
      · rw [kids_foldl_absorb]; simp only [Tree.kids]; rw [← hkeep]; exact List.filter_sublist
      · right; rw [kids_foldl_absorb]; simp [Tree.kids]

/-- the nodes of the forest after one step -/
theorem preL_step (E : Env) (roots : List Tree) (p : Nat) :
    preL (step E roots p) =
      preL (roots.filter (fun t => !touches E p t)) ++
        joinAdj E p (sortById (roots.filter (touches E p))) ::
          preL (joinAdj E p (sortById (roots.filter (touches E p)))).kids := by
  unfold step; rw [preL_append, preL_singleton, pre_eq]

theorem preL_filter_subset {roots : List Tree} (f : Tree → Bool) {t : Tree}
    (h : t ∈ preL (roots.filter f)) : t ∈ preL roots :=
  (preL_sublist List.filter_sublist).subset h

theorem preL_adj_subset (E : Env) {roots : List Tree} {p : Nat} {t : Tree}
    (h : t ∈ preL (sortById (roots.filter (touches E p)))) : t ∈ preL roots :=
  preL_filter_subset _ ((preL_perm (sortById_perm _)).subset h)

/-- Every node after a step is an old node, or the receiving structure. -/
theorem mem_preL_step (E : Env) (roots : List Tree) (p : Nat) (x : Tree)
    (hx : x ∈ preL (step E roots p)) :
    x ∈ preL roots ∨ x = joinAdj E p (sortById (roots.filter (touches E p))) := by
  rw [preL_step] at hx
  rcases List.mem_append.mp hx with hx | hx
  · exact Or.inl (preL_filter_subset _ hx)
  · rcases List.mem_cons.mp hx with hx | hx
    · exact Or.inr hx
    · left
      rcases (joinAdj_shape E p (sortById (roots.filter (touches E p)))).2 with ⟨_, hsub, _⟩ | ⟨t, ht, _, hk⟩
      · exact preL_adj_subset E ((preL_sublist hsub).subset hx)
      · rw [hk] at hx
        apply preL_adj_subset E (p := p)
        exact mem_preL.mpr ⟨t, ht, by rw [pre_eq]; exact List.mem_cons_of_mem _ hx⟩

/-! ## 2. arity -/

theorem step_arity (E : Env) (roots : List Tree) (p : Nat)
    (h : ∀ t ∈ preL roots, Arity t) : ∀ t ∈ preL (step E roots p), Arity t := by
  intro x hx
  rcases mem_preL_step E roots p x hx with hx | hx
  · exact h x hx
  · subst hx
    rcases (joinAdj_shape E p (sortById (roots.filter (touches E p)))).2 with ⟨_, _, ha⟩ | ⟨t, ht, _, hk⟩
    · exact ha
    · have : Arity t := h t (preL_adj_subset E (mem_preL_of_mem ht))
      unfold Arity at this ⊢; rw [hk]; exact this

theorem run_arity (E : Env) (order : List Nat) : ∀ t ∈ Tree.preL (run E order), Arity t :=
  run_induction E (fun roots => ∀ t ∈ preL roots, Arity t) (by simp [preL])
    (fun roots p h => step_arity E roots p h) order

/-! ## 3. the trunk -/

theorem makeTrunk_nodes_subset (E : Env) (roots : List Tree) :
    ∀ t ∈ Tree.preL (makeTrunk E roots), t ∈ Tree.preL roots := by
  intro t ht
  unfold makeTrunk at ht
  exact (preL_perm (sortById_perm roots)).subset (preL_filter_subset _ ht)

theorem compute_arity_pre (E : Env) (order : List Nat) :
    ∀ t ∈ Tree.preL (makeTrunk E (run E order)), Arity t :=
  fun t ht => run_arity E order t (makeTrunk_nodes_subset E _ t ht)

/-! ## 4. temporary identifiers -/

theorem step_ids_subset (E : Env) (pre : List Nat) (roots : List Tree) (p : Nat)
    (h : ∀ t ∈ preL roots, t.id ∈ pre) : ∀ t ∈ preL (step E roots p), t.id ∈ pre ++ [p] := by
  intro x hx
  rcases mem_preL_step E roots p x hx with hx | hx
  · exact List.mem_append_left _ (h x hx)
  · subst hx
    rcases (joinAdj_shape E p (sortById (roots.filter (touches E p)))).2 with ⟨hid, _, _⟩ | ⟨t, ht, hid, _⟩
    · rw [hid]; simp
    · rw [hid]; exact List.mem_append_left _ (h t (preL_adj_subset E (mem_preL_of_mem ht)))

theorem run_ids_subset (E : Env) (order : List Nat) : ∀ t ∈ Tree.preL (run E order), t.id ∈ order :=
  run_induction_prefix E (fun pre roots => ∀ t ∈ preL roots, t.id ∈ pre) (by simp [preL])
    (fun pre roots p h => step_ids_subset E pre roots p h) order

/-- identifiers after one step, when the new pixel is not yet an identifier -/
theorem step_ids_nodup (E : Env) (roots : List Tree) (p : Nat)
    (hnd : ((preL roots).map Tree.id).Nodup) (hp : ∀ t ∈ preL roots, t.id ≠ p) :
    ((preL (step E roots p)).map Tree.id).Nodup := by
  -- split the old forest into untouched and adjacent roots
  have hperm : ((preL (roots.filter (fun t => !touches E p t))).map Tree.id ++
      (preL (sortById (roots.filter (touches E p)))).map Tree.id).Perm ((preL roots).map Tree.id) := by
    rw [← List.map_append, ← preL_append]
    refine (preL_perm ?_).map _
    refine (List.Perm.append_left _ (sortById_perm _)).trans ?_
    exact List.perm_append_comm.trans (filter_partition_perm roots (touches E p)).symm
  have hnd2 := hperm.nodup_iff.mpr hnd
  rw [preL_step, List.map_append, List.map_cons]
  have hshape := (joinAdj_shape E p (sortById (roots.filter (touches E p)))).2
  generalize sortById (roots.filter (touches E p)) = A at *
  generalize joinAdj E p A = r at *
  -- identifiers of the receiving subtree: a sub-list of `p :: ids A` not containing both
  have key : (r.id = p ∧ ((preL r.kids).map Tree.id).Sublist ((preL A).map Tree.id)) ∨
      ((r.id :: (preL r.kids).map Tree.id).Sublist ((preL A).map Tree.id)) := by
    rcases hshape with ⟨hid, hsub, _⟩ | ⟨t, ht, hid, hk⟩
    · exact Or.inl ⟨hid, (preL_sublist hsub).map _⟩
    · right
      rw [hid, hk]
      have : (preL [t]).Sublist (preL A) := preL_sublist (List.singleton_sublist.mpr ht)
      rw [preL_singleton, pre_eq] at this
      simpa using this.map Tree.id
  rcases key with ⟨hid, hsub⟩ | hsub
  · have h1 : ((preL (roots.filter (fun t => !touches E p t))).map Tree.id ++
        (preL r.kids).map Tree.id).Nodup :=
      (List.Sublist.append_left hsub _).nodup hnd2
    have h2 : p ∉ (preL (roots.filter (fun t => !touches E p t))).map Tree.id ++
        (preL r.kids).map Tree.id := by
      intro hmem
      have := hperm.subset ((List.Sublist.append_left hsub _).subset hmem)
      obtain ⟨t, ht, hid⟩ := List.mem_map.mp this
      exact hp t ht hid
    rw [hid]
    exact (List.perm_middle.nodup_iff).mpr (List.nodup_cons.mpr ⟨h2, h1⟩)
  · exact (List.Sublist.append_left hsub _).nodup hnd2

theorem run_ids_nodup (E : Env) (order : List Nat) (hnd : order.Nodup) :
    ((Tree.preL (run E order)).map Tree.id).Nodup := by
  have h := run_induction_prefix E
    (fun pre roots => (pre ++ []).Sublist order →
      (∀ t ∈ preL roots, t.id ∈ pre) ∧ ((preL roots).map Tree.id).Nodup)
    (by intro _; simp [preL])
    (by
      intro pre roots p ih hsub
      have hsub' : (pre ++ [p]).Sublist order := by simpa using hsub
      have hpre : (pre ++ []).Sublist order := by
        simpa using (List.sublist_append_left pre [p]).trans hsub'
      obtain ⟨h1, h2⟩ := ih hpre
      refine ⟨step_ids_subset E pre roots p h1, step_ids_nodup E roots p h2 ?_⟩
      intro t ht hid
      have hnd' : (pre ++ [p]).Nodup := hsub'.nodup hnd
      have : p ∈ pre := hid ▸ h1 t ht
      have := (List.nodup_append.mp hnd').2.2 p this p (by simp)
      exact this rfl)
    order
  exact (h (by simp)).2

/-! ## 5. own pixels -/

theorem run_own_nonempty (E : Env) (order : List Nat) : ∀ t ∈ Tree.preL (run E order), t.own ≠ [] :=
  run_induction E (fun roots => ∀ t ∈ preL roots, t.own ≠ []) (by simp [preL])
    (by
      intro roots p h x hx
      rcases mem_preL_step E roots p x hx with hx | hx
      · exact h x hx
      · subst hx
        exact List.ne_nil_of_mem (joinAdj_shape E p _).1)
    order

/-! ## 6. parents before children -/

/-- the prefix listing of a subtree is a contiguous block of the listing of the forest -/
theorem pre_block :
    (∀ u : Tree, ∀ t ∈ pre u, ∃ l1 l3, pre u = l1 ++ pre t ++ l3) ∧
    (∀ f : List Tree, ∀ t ∈ preL f, ∃ l1 l3, preL f = l1 ++ pre t ++ l3) := by
  apply Tree.forest_induction
  · intro i o ks ih t ht
    simp only [pre] at ht
    rcases List.mem_cons.mp ht with ht | ht
    · subst ht; exact ⟨[], [], by simp⟩
    · obtain ⟨l1, l3, h⟩ := ih t ht
      exact ⟨node i o ks :: l1, l3, by simp only [pre]; rw [h]; simp⟩
  · intro t ht; simp [preL] at ht
  · intro u us ihu ihus t ht
    simp only [preL] at ht ⊢
    rcases List.mem_append.mp ht with ht | ht
    · obtain ⟨l1, l3, h⟩ := ihu t ht
      exact ⟨l1, l3 ++ preL us, by rw [h]; simp⟩
    · obtain ⟨l1, l3, h⟩ := ihus t ht
      exact ⟨pre u ++ l1, l3, by rw [h]; simp⟩

theorem pre_parent_before_child (f : List Tree) (t c : Tree) (ht : t ∈ Tree.preL f) (hc : c ∈ t.kids) :
    ∃ l1 l2 l3, Tree.preL f = l1 ++ t :: l2 ++ c :: l3 := by
  obtain ⟨l1, l3, h⟩ := pre_block.2 f t ht
  obtain ⟨k1, k2, hk⟩ := List.append_of_mem hc
  refine ⟨l1, preL k1, preL c.kids ++ preL k2 ++ l3, ?_⟩
  rw [h, pre_eq t, hk, preL_append]
  simp only [preL]
  rw [pre_eq c]
  simp

/-! ## 7. the documented construction, case by case -/

section Step
variable {E : Env} {roots : List Tree} {p : Nat}

theorem step_none (h : ∀ t ∈ roots, touches E p t = false) :
    step E roots p = roots ++ [Tree.node p [p] []] := by
  have h1 : roots.filter (touches E p) = [] := by
    apply List.filter_eq_nil_iff.mpr; intro t ht; simp [h t ht]
  have h2 : roots.filter (fun t => !touches E p t) = roots := by
    apply List.filter_eq_self.mpr; intro t ht; simp [h t ht]
  unfold step; rw [h1, h2]; simp [sortById, joinAdj]

theorem step_one (t : Tree) (h : roots.filter (touches E p) = [t]) :
    step E roots p = roots.filter (fun t => !touches E p t) ++ [t.addPixel p] := by
  unfold step; rw [h]; simp [sortById, insertById, joinAdj]

theorem filter_insig_eq_self_of_keep_nil (A : List Tree)
    (hk : A.filter (fun t => !insig E p t) = []) : A.filter (insig E p) = A := by
  apply List.filter_eq_self.mpr
  intro t ht
  have := List.filter_eq_nil_iff.mp hk t ht
  simpa using this

theorem joinAdj_many_none_kept (a b : Tree) (rest : List Tree)
    (hk : (a :: b :: rest).filter (fun t => !insig E p t) = []) :
    ∃ last others, (a :: b :: rest) = others ++ [last] ∧
      joinAdj E p (a :: b :: rest) = others.foldl Tree.absorb (last.addPixel p) := by
  have hm := filter_insig_eq_self_of_keep_nil (E := E) (p := p) _ hk
  unfold joinAdj
  simp only
  rw [hk, hm]
  rcases hr : (a :: b :: rest).reverse with _ | ⟨bt, others⟩
  · simp at hr
  · refine ⟨bt, others.reverse, ?_, rfl⟩
    have := congrArg List.reverse hr
    simpa using this

theorem joinAdj_many_one_kept (a b : Tree) (rest : List Tree) (t : Tree)
    (hk : (a :: b :: rest).filter (fun t => !insig E p t) = [t]) :
    joinAdj E p (a :: b :: rest) =
      ((a :: b :: rest).filter (insig E p)).foldl Tree.absorb (t.addPixel p) := by
  unfold joinAdj
  simp only
  rw [hk]

theorem joinAdj_many_branch (a b : Tree) (rest : List Tree) (k1 k2 : Tree) (ks : List Tree)
    (hk : (a :: b :: rest).filter (fun t => !insig E p t) = k1 :: k2 :: ks) :
    joinAdj E p (a :: b :: rest) =
      ((a :: b :: rest).filter (insig E p)).foldl Tree.absorb (Tree.node p [p] (k1 :: k2 :: ks)) := by
  unfold joinAdj
  simp only
  rw [hk]

end Step

theorem insig_iff (E : Env) (p : Nat) (t : Tree) :
    insig E p t = true ↔ t.kids = [] ∧ (t.vmax E.val = E.val p ∨ E.indep t p (E.val p) = false) := by
  simp [insig, isLeaf, List.isEmpty_iff]

/-! ## 8. uniqueness of the processing order for distinct values -/

theorem order_unique_of_distinct (val : Nat → Int) (o1 o2 : List Nat)
    (h1 : o1.Pairwise (fun a b => val b < val a)) (h2 : o2.Pairwise (fun a b => val b < val a))
    (hperm : o1.Perm o2) : o1 = o2 := by
  induction o1 generalizing o2 with
  | nil => exact hperm.nil_eq
  | cons a l1 ih =>
    match o2, h2, hperm with
    | [], _, hperm => exact absurd hperm.symm.nil_eq (by simp)
    | b :: l2, h2, hperm =>
      have hab : a = b := by
        by_cases hab : a = b
        · exact hab
        · exfalso
          have ha : a ∈ b :: l2 := hperm.subset (by simp)
          have hb : b ∈ a :: l1 := hperm.symm.subset (by simp)
          have ha' : a ∈ l2 := by
            rcases List.mem_cons.mp ha with h | h
            · exact absurd h hab
            · exact h
          have hb' : b ∈ l1 := by
            rcases List.mem_cons.mp hb with h | h
            · exact absurd h.symm hab
            · exact h
          have e1 := (List.pairwise_cons.mp h1).1 b hb'
          have e2 := (List.pairwise_cons.mp h2).1 a ha'
          omega
      subst hab
      rw [ih l2 (List.pairwise_cons.mp h1).2 (List.pairwise_cons.mp h2).2 (List.Perm.cons_inv hperm)]

theorem run_unique_of_distinct (E : Env) (o1 o2 : List Nat)
    (h1 : o1.Pairwise (fun a b => E.val b < E.val a)) (h2 : o2.Pairwise (fun a b => E.val b < E.val a))
    (hperm : o1.Perm o2) : run E o1 = run E o2 := by
  rw [order_unique_of_distinct E.val o1 o2 h1 h2 hperm]

/-! ## 9. final identifiers -/

theorem insertBySmallest_perm (t : Tree) (l : List Tree) : (insertBySmallest t l).Perm (t :: l) := by
  induction l with
  | nil => simp [insertBySmallest]
  | cons u us ih =>
    simp only [insertBySmallest]; split
    · exact List.Perm.refl _
    · exact (ih.cons u).trans (List.Perm.swap t u us)

theorem sortBySmallest_perm (l : List Tree) : (sortBySmallest l).Perm l := by
  induction l with
  | nil => simp [sortBySmallest]
  | cons t ts ih => exact (insertBySmallest_perm t _).trans (ih.cons t)

theorem ids_mapIds (g : Nat → Nat) :
    (∀ t : Tree, (pre (mapIds g t)).map Tree.id = ((pre t).map Tree.id).map g) ∧
    (∀ f : List Tree, (preL (mapIdsL g f)).map Tree.id = ((preL f).map Tree.id).map g) := by
  apply Tree.forest_induction
  · intro i o ks ih; simp only [mapIds, pre, List.map_cons, Tree.id]; rw [ih]
  · simp [mapIdsL, preL]
  · intro t ts iht ihts; simp only [mapIdsL, preL, List.map_append]; rw [iht, ihts]

/-- in a list with distinct identifiers, the position of the first node carrying the identifier of
the `k`-th node is `k` -/
theorem map_findIdx_id (S : List Tree) (h : (S.map Tree.id).Nodup) :
    S.map (fun t => findIdx (fun u => u.id == t.id) S) = List.range S.length := by
  induction S with
  | nil => simp
  | cons t S ih =>
    rw [List.map_cons, List.nodup_cons] at h
    rw [List.length_cons, List.range_succ_eq_map, List.map_cons, ← ih h.2, List.map_map]
    congr 1
    · simp [findIdx]
    · apply List.map_congr_left
      intro x hx
      have hne : t.id ≠ x.id := fun e => h.1 (e ▸ List.mem_map_of_mem hx)
      simp [findIdx, hne]

/-- After relabelling the identifiers are exactly `0 … N-1`, each once.  (Only the first component
of `GoodForest`, distinct temporary identifiers, is used.) -/
theorem relabel_ids_perm (f : List Tree) (h : GoodForest f) :
    ((Tree.preL (relabel f)).map Tree.id).Perm (List.range (Tree.preL f).length) := by
  have hS := sortBySmallest_perm (preL f)
  have hnd : ((sortBySmallest (preL f)).map Tree.id).Nodup := (hS.map Tree.id).nodup_iff.mpr h.1
  have hfin := map_findIdx_id _ hnd
  unfold relabel
  rw [(ids_mapIds (finalId f)).2 f, List.map_map, ← hS.length_eq, ← hfin]
  exact (hS.symm.map _)
