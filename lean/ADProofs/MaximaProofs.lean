import ADProofs.Contour
import ADProofs.Forest
/-!
# Leaves and regional maxima (C05, no pruning)

Setting: symmetric adjacency, pixels processed in non-increasing order of value (ties in any
order), criteria that accept everything (`E.indep … = true`: a leaf is absorbed at a meeting only
if its peak equals the meeting value).  "Above-threshold pixels" are the members of `order`.

* `leaf_peak_regmax`       — a peak pixel of a leaf lies in a (plateau-aware) regional maximum;
* `leaf_peak_one_plateau`  — the peak pixels of a leaf form one plateau;
* `leaf_plateau_closed`, `leaf_plateau_iff` — that plateau is exactly the set of peak pixels;
* `leaves_distinct_maxima` — peak pixels of distinct leaves lie on distinct plateaus;
* `regmax_has_leaf`, `regmax_iff_leaf_peak` — every pixel of a regional maximum is a peak pixel of
  a leaf.

Together: leaf ↦ plateau of its peak is a bijection between the leaves of `run E order` and the
regional maxima of the above-threshold image.

Proof: invariants indexed by the processed prefix (`AllInv`), one step lemma each
(`step_N`, `step_Leaf`, `step_Plat`, `step_Surj`), built on an exact description of the structure
that receives the pixel (`joinAdj_own`, `Ctx.recv_leaf`).  Core Lean only.
-/
open Tree

namespace P20

/-- `p` and `q` lie on the same plateau: connected through pixels of `order` that all carry the
value of `p` -/
def SamePlateau (E : Env) (order : List Nat) (p q : Nat) : Prop :=
  Conn E.nbrs (fun x => x ∈ order ∧ E.val x = E.val p) p q

/-- `p` belongs to a regional maximum: no pixel of its plateau has a brighter above-threshold
neighbour -/
def RegMax (E : Env) (order : List Nat) (p : Nat) : Prop :=
  p ∈ order ∧ ∀ q, SamePlateau E order p q → ∀ r ∈ E.nbrs q, r ∈ order → E.val r ≤ E.val p

/-! ## exact description of the receiving structure -/

theorem joinAdj_own (E : Env) (p : Nat) (adj : List Tree) :
    (adj = [] ∧ joinAdj E p adj = node p [p] []) ∨
    (∃ t ∈ adj, (joinAdj E p adj).id = t.id ∧ (joinAdj E p adj).kids = t.kids ∧
        (∀ a, a ∈ (joinAdj E p adj).own ↔
          a ∈ t.own ∨ a = p ∨ ∃ m ∈ adj, insig E p m = true ∧ a ∈ m.own) ∧
        (∀ u ∈ adj, u = t ∨ insig E p u = true)) ∨
    ((joinAdj E p adj).id = p ∧ (joinAdj E p adj).kids = adj.filter (fun t => !insig E p t) ∧
        2 ≤ (joinAdj E p adj).kids.length ∧
        (∀ a, a ∈ (joinAdj E p adj).own ↔ a = p ∨ ∃ m ∈ adj, insig E p m = true ∧ a ∈ m.own)) := by
  unfold joinAdj
  match adj with
  | [] => left; exact ⟨rfl, rfl⟩
  | [t] =>
    right; left
    refine ⟨t, by simp, id_addPixel t p, kids_addPixel t p, ?_, by simp⟩
    intro a
    show a ∈ (t.addPixel p).own ↔ _
    rw [ContourP.own_addPixel]
    simp only [List.mem_append, List.mem_singleton]
    constructor
    · rintro (h | h)
      · exact Or.inl h
      · exact Or.inr (Or.inl h)
    · rintro (h | h | ⟨m, hm, _, hx⟩)
      · exact Or.inl h
      · exact Or.inr h
      · subst hm; exact Or.inl hx
  | a :: b :: adj' =>
    simp only
    generalize hA : (a :: b :: adj') = A
    have hmA : ∀ m, m ∈ A.filter (insig E p) ↔ m ∈ A ∧ insig E p m = true := by
      intro m; exact List.mem_filter
    have hkA : ∀ m, m ∈ A.filter (fun t => !insig E p t) ↔ m ∈ A ∧ insig E p m = false := by
      intro m; rw [List.mem_filter]; simp
    generalize hmrg : A.filter (insig E p) = mrg at hmA ⊢
    generalize hkeep : A.filter (fun t => !insig E p t) = keep at hkA ⊢
    have hcase : ∀ u ∈ A, u ∈ keep ∨ insig E p u = true := by
      intro u hu
      cases hi : insig E p u with
      | true => exact Or.inr rfl
      | false => exact Or.inl ((hkA u).mpr ⟨hu, hi⟩)
    match keep, hkeep with
    | [], hkeep =>
      have hall : ∀ u ∈ A, insig E p u = true := by
        intro u hu
        rcases hcase u hu with h | h
        · simp at h
        · exact h
      rcases hr : mrg.reverse with _ | ⟨bt, others⟩
      · exfalso
        simp at hr; subst hr
        have : a ∈ A := by rw [← hA]; simp
        have := (hmA a).mpr ⟨this, hall a this⟩
        simp at this
      · simp only
        have hm' : mrg = others.reverse ++ [bt] := by
          have := congrArg List.reverse hr; simpa using this
        have hbt := (hmA bt).mp (by rw [hm']; simp)
        right; left
        refine ⟨bt, hbt.1, ?_, ?_, ?_, ?_⟩
        · rw [id_foldl_absorb, id_addPixel]
        · rw [kids_foldl_absorb, kids_addPixel]
        · intro x
          rw [ContourP.mem_own_foldl_absorb, ContourP.own_addPixel]
          simp only [List.mem_append, List.mem_singleton]
          constructor
          · rintro ((h | h) | ⟨m, hm, hx⟩)
            · exact Or.inl h
            · exact Or.inr (Or.inl h)
            · have := (hmA m).mp (by rw [hm']; exact List.mem_append.mpr (Or.inl hm))
              exact Or.inr (Or.inr ⟨m, this.1, this.2, hx⟩)
          · rintro (h | h | ⟨m, hm, hi, hx⟩)
            · exact Or.inl (Or.inl h)
            · exact Or.inl (Or.inr h)
            · have := (hmA m).mpr ⟨hm, hi⟩
              rw [hm'] at this
              rcases List.mem_append.mp this with h | h
              · exact Or.inr ⟨m, h, hx⟩
              · simp at h; subst h; exact Or.inl (Or.inl hx)
        · intro u hu; exact Or.inr (hall u hu)
    | [t], hkeep =>
      simp only
      right; left
      have ht := (hkA t).mp (by simp)
      refine ⟨t, ht.1, ?_, ?_, ?_, ?_⟩
      · rw [id_foldl_absorb, id_addPixel]
      · rw [kids_foldl_absorb, kids_addPixel]
      · intro x
        rw [ContourP.mem_own_foldl_absorb, ContourP.own_addPixel]
        simp only [List.mem_append, List.mem_singleton]
        constructor
        · rintro ((h | h) | ⟨m, hm, hx⟩)
          · exact Or.inl h
          · exact Or.inr (Or.inl h)
          · have := (hmA m).mp hm
            exact Or.inr (Or.inr ⟨m, this.1, this.2, hx⟩)
        · rintro (h | h | ⟨m, hm, hi, hx⟩)
          · exact Or.inl (Or.inl h)
          · exact Or.inl (Or.inr h)
          · exact Or.inr ⟨m, (hmA m).mpr ⟨hm, hi⟩, hx⟩
      · intro u hu
        rcases hcase u hu with h | h
        · simp at h; exact Or.inl h
        · exact Or.inr h
    | k1 :: k2 :: ks, hkeep =>
      simp only
      right; right
      refine ⟨?_, ?_, ?_, ?_⟩
      · rw [id_foldl_absorb]; rfl
      · rw [kids_foldl_absorb]; simp only [Tree.kids]
      · rw [kids_foldl_absorb]; simp [Tree.kids]
      · intro x
        rw [ContourP.mem_own_foldl_absorb]
        simp only [Tree.own, List.mem_singleton]
        constructor
        · rintro (h | ⟨m, hm, hx⟩)
          · exact Or.inl h
          · have := (hmA m).mp hm
            exact Or.inr ⟨m, this.1, this.2, hx⟩
        · rintro (h | ⟨m, hm, hi, hx⟩)
          · exact Or.inl h
          · exact Or.inr ⟨m, (hmA m).mpr ⟨hm, hi⟩, hx⟩


/-! ## small facts -/

theorem insig_iff' {E : Env} (hno : ∀ t p v, E.indep t p v = true) (p : Nat) (t : Tree) :
    insig E p t = true ↔ t.kids = [] ∧ t.vmax E.val = E.val p := by
  rw [insig_iff]; simp [hno]

theorem leaf_pixels {t : Tree} (h : t.kids = []) : t.pixels = t.own := by
  rw [pixels_eq, h]; simp [pixelsL]

theorem vmax_eq {val : Nat → Int} {t : Tree} {v : Int} (hle : ∀ a ∈ t.own, val a ≤ v)
    (hat : ∃ a ∈ t.own, val a = v) : t.vmax val = v := by
  obtain ⟨a, ha, hv⟩ := hat
  have h1 := ContourP.le_vmax val t a ha
  obtain ⟨b, hb, hbv⟩ := ContourP.vmax_attained val t (List.ne_nil_of_mem ha)
  have h2 := hle b hb
  omega

mutual
/-- every pixel of a structure is an own pixel of one of its substructures -/
theorem own_of_pixels : ∀ (t : Tree) (x : Nat), x ∈ t.pixels → ∃ s ∈ pre t, x ∈ s.own
  | node i o ks, x, h => by
    simp only [pixels, List.mem_append] at h
    rcases h with h | h
    · exact ⟨node i o ks, by simp [pre], h⟩
    · obtain ⟨s, hs, hx⟩ := own_of_pixelsL ks x h
      exact ⟨s, by simp [pre, hs], hx⟩
theorem own_of_pixelsL : ∀ (ts : List Tree) (x : Nat), x ∈ pixelsL ts → ∃ s ∈ preL ts, x ∈ s.own
  | [], x, h => by simp [pixelsL] at h
  | t :: ts, x, h => by
    simp only [pixelsL, List.mem_append] at h
    rcases h with h | h
    · obtain ⟨s, hs, hx⟩ := own_of_pixels t x h
      exact ⟨s, by simp [preL, hs], hx⟩
    · obtain ⟨s, hs, hx⟩ := own_of_pixelsL ts x h
      exact ⟨s, by simp [preL, hs], hx⟩
end

mutual
/-- in a forest whose pixel listing has no duplicates, a pixel is owned by one structure only -/
theorem own_unique : ∀ (t : Tree), t.pixels.Nodup → ∀ s ∈ pre t, ∀ s' ∈ pre t, ∀ x, x ∈ s.own →
    x ∈ s'.own → s = s'
  | node i o ks, hnd, s, hs, s', hs', x, hx, hx' => by
    simp only [pixels, List.nodup_append] at hnd
    obtain ⟨_, hks, hdis⟩ := hnd
    simp only [pre, List.mem_cons] at hs hs'
    rcases hs with rfl | hs <;> rcases hs' with rfl | hs'
    · rfl
    · exact absurd rfl (hdis x hx x
        (ContourP.pixels_sub_preL ks s' hs' x (ContourP.own_pixels_sub s' hx')))
    · exact absurd rfl (hdis x hx' x
        (ContourP.pixels_sub_preL ks s hs x (ContourP.own_pixels_sub s hx)))
    · exact own_uniqueL ks hks s hs s' hs' x hx hx'
theorem own_uniqueL : ∀ (ts : List Tree), (pixelsL ts).Nodup → ∀ s ∈ preL ts, ∀ s' ∈ preL ts,
    ∀ x, x ∈ s.own → x ∈ s'.own → s = s'
  | [], _, s, hs, _, _, _, _, _ => by simp [preL] at hs
  | t :: ts, hnd, s, hs, s', hs', x, hx, hx' => by
    simp only [pixelsL, List.nodup_append] at hnd
    obtain ⟨ht, hts, hdis⟩ := hnd
    simp only [preL, List.mem_append] at hs hs'
    rcases hs with hs | hs <;> rcases hs' with hs' | hs'
    · exact own_unique t ht s hs s' hs' x hx hx'
    · exact absurd rfl (hdis x (ContourP.pixels_sub_pre t s hs x (ContourP.own_pixels_sub s hx)) x
        (ContourP.pixels_sub_preL ts s' hs' x (ContourP.own_pixels_sub s' hx')))
    · exact absurd rfl (hdis x (ContourP.pixels_sub_pre t s' hs' x (ContourP.own_pixels_sub s' hx')) x
        (ContourP.pixels_sub_preL ts s hs x (ContourP.own_pixels_sub s hx)))
    · exact own_uniqueL ts hts s hs s' hs' x hx hx'
end

/-- induction along a path with a fixed start -/
theorem conn_induct {nb : Nat → List Nat} {S : Nat → Prop} {a : Nat} {P : Nat → Prop} (h0 : P a)
    (hs : ∀ b c, Conn nb S a b → P b → c ∈ nb b → S c → P c) : ∀ b, Conn nb S a b → P b := by
  intro b h
  induction h with
  | refl => exact h0
  | tail hab hn hS ih => exact hs _ _ hab ih hn hS

/-! ## plateaus -/

theorem sp_val {E : Env} {order : List Nat} {p q : Nat} (h : SamePlateau E order p q) :
    E.val q = E.val p := by
  cases h with
  | refl => rfl
  | tail _ _ hs => exact hs.2

theorem sp_order {E : Env} {order : List Nat} {p q : Nat} (hp : p ∈ order)
    (h : SamePlateau E order p q) : q ∈ order := by
  cases h with
  | refl => exact hp
  | tail _ _ hs => exact hs.1

theorem regMax_of_plateau {E : Env} {order : List Nat} {p q : Nat} (hR : RegMax E order p)
    (h : SamePlateau E order p q) : RegMax E order q := by
  have hv := sp_val h
  refine ⟨sp_order hR.1 h, ?_⟩
  intro q' hq' r hr hro
  have h2 : SamePlateau E order p q' :=
    Conn.trans h (hq'.mono (fun x hx => ⟨hx.1, hx.2.trans hv⟩))
  rw [hv]; exact hR.2 q' h2 r hr hro

/-! ## one step of the loop, no pruning, pixels in non-increasing order -/

/-- what is known about the forest before pixel `p` is processed -/
structure Ctx (E : Env) (pre : List Nat) (roots : List Tree) (p : Nat) : Prop where
  hsym : ∀ x y, y ∈ E.nbrs x → x ∈ E.nbrs y
  hno : ∀ t p v, E.indep t p v = true
  hpix : ∀ x, x ∈ pixelsL roots ↔ x ∈ pre
  hle : ∀ x ∈ pre, E.val p ≤ E.val x
  hne : ∀ t ∈ preL roots, t.own ≠ []
  hconn : ∀ t ∈ preL roots, PixConn E t

namespace Ctx
variable {E : Env} {pre : List Nat} {roots : List Tree} {p : Nat} (C : Ctx E pre roots p)
include C

theorem node_pre {t : Tree} (ht : t ∈ preL roots) {x : Nat} (hx : x ∈ t.pixels) : x ∈ pre :=
  (C.hpix x).mp (ContourP.pixels_sub_preL roots t ht x hx)

theorem own_pre {t : Tree} (ht : t ∈ preL roots) {x : Nat} (hx : x ∈ t.own) : x ∈ pre :=
  C.node_pre ht (ContourP.own_pixels_sub t hx)

theorem le_vmax_p {t : Tree} (ht : t ∈ preL roots) : E.val p ≤ t.vmax E.val := by
  obtain ⟨a, ha⟩ := List.exists_mem_of_ne_nil _ (C.hne t ht)
  exact Int.le_trans (C.hle a (C.own_pre ht ha)) (ContourP.le_vmax E.val t a ha)

theorem insig_own {m : Tree} (hm : m ∈ preL roots) (hi : insig E p m = true) :
    ∀ a ∈ m.own, E.val a = E.val p := by
  intro a ha
  have h1 := ((insig_iff' C.hno p m).mp hi).2
  have h2 := ContourP.le_vmax E.val m a ha
  have h3 := C.hle a (C.own_pre hm ha)
  omega

/-- case (b) of `joinAdj_own`: the peak value does not change -/
theorem caseB_vmax {adj : List Tree} (hadj : ∀ u ∈ adj, u ∈ roots) {t : Tree} (ht : t ∈ adj)
    (hown : ∀ a, a ∈ (joinAdj E p adj).own ↔
      a ∈ t.own ∨ a = p ∨ ∃ m ∈ adj, insig E p m = true ∧ a ∈ m.own) :
    (joinAdj E p adj).vmax E.val = t.vmax E.val := by
  have htr := ContourP.root_mem_preL (hadj t ht)
  have hge := C.le_vmax_p htr
  apply vmax_eq
  · intro a ha
    rcases (hown a).mp ha with h | rfl | ⟨m, hm, hi, hx⟩
    · exact ContourP.le_vmax E.val t a h
    · exact hge
    · have := C.insig_own (ContourP.root_mem_preL (hadj m hm)) hi a hx; omega
  · obtain ⟨a, ha, hv⟩ := ContourP.vmax_attained E.val t (C.hne t htr)
    exact ⟨a, (hown a).mpr (Or.inl ha), hv.symm⟩

/-- the receiving structure, when it is a leaf: either everything adjacent is a plateau at the
level of `p` and is merged, or one adjacent leaf with a higher peak receives everything -/
theorem recv_leaf {adj : List Tree} (hadj : ∀ u ∈ adj, u ∈ roots)
    (hk : (joinAdj E p adj).kids = []) :
    ((joinAdj E p adj).vmax E.val = E.val p ∧ (∀ u ∈ adj, insig E p u = true) ∧
       ∀ a, a ∈ (joinAdj E p adj).own ↔ a = p ∨ ∃ u ∈ adj, a ∈ u.own) ∨
    (∃ t ∈ adj, t.kids = [] ∧ E.val p < t.vmax E.val ∧
       (joinAdj E p adj).vmax E.val = t.vmax E.val ∧
       (∀ a ∈ (joinAdj E p adj).own, a ∈ t.own ∨ E.val a ≤ E.val p) ∧
       (∀ a ∈ t.own, a ∈ (joinAdj E p adj).own) ∧ p ∈ (joinAdj E p adj).own) := by
  rcases joinAdj_own E p adj with ⟨hnil, hJ⟩ | ⟨t, ht, _, hkt, hown, hall⟩ | ⟨_, _, hlen, _⟩
  · left
    subst hnil
    rw [hJ]
    refine ⟨by simp [Tree.vmax, maxL, Tree.own], by simp, ?_⟩
    intro a; simp [Tree.own]
  · have hleaf : t.kids = [] := by rw [← hkt]; exact hk
    have hv := C.caseB_vmax hadj ht hown
    have hge := C.le_vmax_p (ContourP.root_mem_preL (hadj t ht))
    by_cases heq : t.vmax E.val = E.val p
    · left
      have hti : insig E p t = true := (insig_iff' C.hno p t).mpr ⟨hleaf, heq⟩
      have hall' : ∀ u ∈ adj, insig E p u = true := by
        intro u hu
        rcases hall u hu with rfl | h
        · exact hti
        · exact h
      refine ⟨hv.trans heq, hall', ?_⟩
      intro a
      rw [hown a]
      constructor
      · rintro (h | h | ⟨m, hm, _, hx⟩)
        · exact Or.inr ⟨t, ht, h⟩
        · exact Or.inl h
        · exact Or.inr ⟨m, hm, hx⟩
      · rintro (h | ⟨u, hu, hx⟩)
        · exact Or.inr (Or.inl h)
        · exact Or.inr (Or.inr ⟨u, hu, hall' u hu, hx⟩)
    · right
      refine ⟨t, ht, hleaf, by omega, hv, ?_, fun a ha => (hown a).mpr (Or.inl ha),
        (hown p).mpr (Or.inr (Or.inl rfl))⟩
      intro a ha
      rcases (hown a).mp ha with h | rfl | ⟨m, hm, hi, hx⟩
      · exact Or.inl h
      · exact Or.inr (Int.le_refl _)
      · have := C.insig_own (ContourP.root_mem_preL (hadj m hm)) hi a hx
        exact Or.inr (by omega)
  · rw [hk] at hlen; simp at hlen

/-- if every adjacent root is a plateau at the level of `p`, the receiving structure is a leaf
that peaks at the value of `p` -/
theorem recv_allInsig {adj : List Tree} (hadj : ∀ u ∈ adj, u ∈ roots)
    (hall : ∀ u ∈ adj, insig E p u = true) :
    (joinAdj E p adj).kids = [] ∧ (joinAdj E p adj).vmax E.val = E.val p ∧
      ∀ a ∈ (joinAdj E p adj).own, E.val a = E.val p := by
  have hk : (joinAdj E p adj).kids = [] := by
    rcases joinAdj_own E p adj with ⟨_, hJ⟩ | ⟨t, ht, _, hkt, _, _⟩ | ⟨_, hkf, hlen, _⟩
    · rw [hJ]; rfl
    · rw [hkt]; exact ((insig_iff' C.hno p t).mp (hall t ht)).1
    · have : adj.filter (fun t => !insig E p t) = [] := by
        apply List.filter_eq_nil_iff.mpr
        intro u hu; simp [hall u hu]
      rw [hkf, this] at hlen; simp at hlen
  refine ⟨hk, ?_⟩
  rcases C.recv_leaf hadj hk with ⟨hv, _, hown⟩ | ⟨t, ht, _, hlt, _⟩
  · refine ⟨hv, ?_⟩
    intro a ha
    rcases (hown a).mp ha with rfl | ⟨u, hu, hx⟩
    · rfl
    · exact C.insig_own (ContourP.root_mem_preL (hadj u hu)) (hall u hu) a hx
  · have := ((insig_iff' C.hno p t).mp (hall t ht)).2
    omega

end Ctx


/-! ## the invariants -/

/-- a leaf that has a parent peaks strictly above some processed pixel -/
def NInv (E : Env) (pre : List Nat) (roots : List Tree) : Prop :=
  ∀ r ∈ roots, ∀ s ∈ preL r.kids, s.kids = [] → ∃ c ∈ pre, E.val c < s.vmax E.val

/-- around a peak pixel of a leaf: no processed neighbour is brighter, and the processed
neighbours of equal value are own pixels of the same leaf -/
def LeafInv (E : Env) (pre : List Nat) (roots : List Tree) : Prop :=
  ∀ t ∈ preL roots, t.kids = [] → ∀ a ∈ t.own, E.val a = t.vmax E.val →
    ∀ q ∈ E.nbrs a, q ∈ pre → E.val q ≤ E.val a ∧ (E.val q = E.val a → q ∈ t.own)

/-- the peak pixels of a leaf are connected through processed pixels of the peak value -/
def PlatInv (E : Env) (pre : List Nat) (roots : List Tree) : Prop :=
  ∀ t ∈ preL roots, t.kids = [] → ∀ a ∈ t.own, ∀ b ∈ t.own, E.val a = t.vmax E.val →
    E.val b = t.vmax E.val → Conn E.nbrs (fun x => x ∈ pre ∧ E.val x = E.val a) a b

/-- a processed pixel of a regional maximum (of the whole image) is a peak pixel of a leaf -/
def SurjInv (E : Env) (order pre : List Nat) (roots : List Tree) : Prop :=
  ∀ x ∈ pre, RegMax E order x → ∀ t ∈ preL roots, x ∈ t.own → t.kids = [] ∧ E.val x = t.vmax E.val

section Step
variable {E : Env} {pre : List Nat} {roots : List Tree} {p : Nat} (C : Ctx E pre roots p)
include C

theorem step_N (h : NInv E pre roots) : NInv E (pre ++ [p]) (step E roots p) := by
  have hold : ∀ r ∈ roots, ∀ s ∈ preL r.kids, s.kids = [] →
      ∃ c ∈ pre ++ [p], E.val c < s.vmax E.val := by
    intro r hr s hs hl
    obtain ⟨c, hc, hv⟩ := h r hr s hs hl
    exact ⟨c, List.mem_append_left _ hc, hv⟩
  intro r hr s hs hl
  rcases ContourP.step_root_cases E roots p r hr with hr | ⟨_, hn⟩
  · exact hold r hr s hs hl
  · rcases hn with ⟨t, ht, _, _, hk, _⟩ | ⟨_, hk, _⟩
    · rw [hk] at hs; exact hold t ht s hs hl
    · obtain ⟨L, hL, hsL⟩ := ContourP.mem_preL.mp hs
      obtain ⟨hLr, _, hLi⟩ := hk L hL
      rcases ContourP.mem_pre.mp hsL with rfl | hsk
      · refine ⟨p, by simp, ?_⟩
        have hge := C.le_vmax_p (ContourP.root_mem_preL hLr)
        have hne : s.vmax E.val ≠ E.val p := by
          intro e
          have := (insig_iff' C.hno p s).mpr ⟨hl, e⟩
          rw [this] at hLi; exact absurd hLi (by simp)
        omega
      · exact hold L hLr s hsk hl

theorem step_Leaf (hN' : NInv E (pre ++ [p]) (step E roots p)) (h : LeafInv E pre roots) :
    LeafInv E (pre ++ [p]) (step E roots p) := by
  have hadj : ∀ u ∈ sortById (roots.filter (touches E p)), u ∈ roots :=
    fun u hu => (ContourP.mem_adjOf.mp hu).1
  -- an old leaf that survives: only the new pixel has to be looked at
  have hold : ∀ t, t ∈ preL roots → t.kids = [] → ∀ a ∈ t.own, E.val a = t.vmax E.val →
      (p ∈ E.nbrs a → E.val p = E.val a → False) →
      ∀ q ∈ E.nbrs a, q ∈ pre ++ [p] → E.val q ≤ E.val a ∧ (E.val q = E.val a → q ∈ t.own) := by
    intro t ht hl a ha hpk hfalse q hq hqp
    rcases List.mem_append.mp hqp with hqp | hqp
    · exact h t ht hl a ha hpk q hq hqp
    · simp only [List.mem_singleton] at hqp; subst hqp
      exact ⟨C.hle a (C.own_pre ht ha), fun e => (hfalse hq e).elim⟩
  intro t ht hl a ha hpk q hq hqp
  rw [preL_step] at ht
  rcases List.mem_append.mp ht with ht | ht
  · -- below an untouched root
    have told := preL_filter_subset _ ht
    refine hold t told hl a ha hpk ?_ q hq hqp
    intro hpa _
    obtain ⟨r, hr, htr⟩ := ContourP.mem_preL.mp ht
    have hr' := List.mem_filter.mp hr
    have : touches E p r = true :=
      (touches_iff E p r).mpr ⟨a, ContourP.pixels_sub_pre r t htr a (ContourP.own_pixels_sub t ha),
        C.hsym _ _ hpa⟩
    rw [this] at hr'; exact absurd hr'.2 (by simp)
  rcases List.mem_cons.mp ht with ht | ht
  · -- the receiving structure
    subst ht
    rcases C.recv_leaf hadj hl with ⟨hv, hall, hown⟩ | ⟨t0, ht0, hl0, hlt, hv, hsub, hsup, hp⟩
    · rcases List.mem_append.mp hqp with hqp1 | hqp
      · rcases (hown a).mp ha with rfl | ⟨u, hu, hau⟩
        · obtain ⟨u', hu', hqu'⟩ := mem_pixelsL.mp ((C.hpix q).mpr hqp1)
          have hu'a : u' ∈ sortById (roots.filter (touches E a)) :=
            ContourP.mem_adjOf.mpr ⟨hu', (touches_iff E a u').mpr ⟨q, hqu', hq⟩⟩
          have hi := hall u' hu'a
          rw [leaf_pixels ((insig_iff' C.hno a u').mp hi).1] at hqu'
          have := C.insig_own (ContourP.root_mem_preL hu') hi q hqu'
          exact ⟨by omega, fun _ => (hown q).mpr (Or.inr ⟨u', hu'a, hqu'⟩)⟩
        · have hi := (insig_iff' C.hno p u).mp (hall u hu)
          have := h u (ContourP.root_mem_preL (hadj u hu)) hi.1 a hau (by omega) q hq hqp1
          exact ⟨this.1, fun e => (hown q).mpr (Or.inr ⟨u, hu, this.2 e⟩)⟩
      · simp only [List.mem_singleton] at hqp; subst hqp
        exact ⟨by omega, fun _ => (hown q).mpr (Or.inl rfl)⟩
    · have ha0 : a ∈ t0.own := by
        rcases hsub a ha with h1 | h1
        · exact h1
        · omega
      rcases List.mem_append.mp hqp with hqp | hqp
      · have := h t0 (ContourP.root_mem_preL (hadj t0 ht0)) hl0 a ha0 (by omega) q hq hqp
        exact ⟨this.1, fun e => hsup q (this.2 e)⟩
      · simp only [List.mem_singleton] at hqp; subst hqp
        exact ⟨by omega, fun _ => hp⟩
  · -- strictly below the receiving structure
    have told := ContourP.newNode_kids_old (ContourP.joinAdj_newNode E roots p) t ht
    refine hold t told hl a ha hpk ?_ q hq hqp
    intro _ he
    have hJ : joinAdj E p (sortById (roots.filter (touches E p))) ∈ step E roots p := by
      unfold step; simp
    obtain ⟨c, hc, hcv⟩ := hN' _ hJ t ht hl
    have : E.val p ≤ E.val c := by
      rcases List.mem_append.mp hc with hc | hc
      · exact C.hle c hc
      · simp only [List.mem_singleton] at hc; subst hc; exact Int.le_refl _
    omega

theorem step_Plat (h : PlatInv E pre roots) : PlatInv E (pre ++ [p]) (step E roots p) := by
  have hadj : ∀ u ∈ sortById (roots.filter (touches E p)), u ∈ roots :=
    fun u hu => (ContourP.mem_adjOf.mp hu).1
  have hold : ∀ t ∈ preL roots, t.kids = [] → ∀ a ∈ t.own, ∀ b ∈ t.own, E.val a = t.vmax E.val →
      E.val b = t.vmax E.val → Conn E.nbrs (fun x => x ∈ pre ++ [p] ∧ E.val x = E.val a) a b := by
    intro t ht hl a ha b hb hpa hpb
    exact (h t ht hl a ha b hb hpa hpb).mono (fun x hx => ⟨List.mem_append_left _ hx.1, hx.2⟩)
  intro t ht hl a ha b hb hpa hpb
  rcases ContourP.step_node_cases E roots p t ht with ht | ⟨rfl, _⟩
  · exact hold t ht hl a ha b hb hpa hpb
  · rcases C.recv_leaf hadj hl with ⟨hv, hall, hown⟩ | ⟨t0, ht0, hl0, hlt, hv, hsub, hsup, hp⟩
    · have hconn : PixConn E (joinAdj E p (sortById (roots.filter (touches E p)))) :=
        joinAdj_conn E C.hsym p _
          (fun u hu => C.hconn u (ContourP.root_mem_preL (hadj u hu)))
          (fun u hu => (ContourP.mem_adjOf.mp hu).2)
      have hpx := leaf_pixels hl
      refine (hconn a b (by rw [hpx]; exact ha) (by rw [hpx]; exact hb)).mono ?_
      intro x hx
      rw [hpx] at hx
      rcases (hown x).mp hx with rfl | ⟨u, hu, hxu⟩
      · exact ⟨by simp, by omega⟩
      · have hur := ContourP.root_mem_preL (hadj u hu)
        have := C.insig_own hur (hall u hu) x hxu
        exact ⟨List.mem_append_left _ (C.own_pre hur hxu), by omega⟩
    · have ha0 : a ∈ t0.own := by
        rcases hsub a ha with h1 | h1
        · exact h1
        · omega
      have hb0 : b ∈ t0.own := by
        rcases hsub b hb with h1 | h1
        · exact h1
        · omega
      exact hold t0 (ContourP.root_mem_preL (hadj t0 ht0)) hl0 a ha0 b hb0 (by omega) (by omega)

theorem step_Surj {order : List Nat} (hsubo : ∀ x ∈ pre ++ [p], x ∈ order)
    (hN : NInv E pre roots) (h : SurjInv E order pre roots) :
    SurjInv E order (pre ++ [p]) (step E roots p) := by
  have hadj : ∀ u ∈ sortById (roots.filter (touches E p)), u ∈ roots :=
    fun u hu => (ContourP.mem_adjOf.mp hu).1
  have hpo : p ∈ order := hsubo p (by simp)
  have hpreo : ∀ x ∈ pre, x ∈ order := fun x hx => hsubo x (List.mem_append_left _ hx)
  -- if `p` is in a regional maximum, everything adjacent is a plateau at its level
  have K : RegMax E order p → ∀ u ∈ sortById (roots.filter (touches E p)), insig E p u = true := by
    intro hR u hu
    obtain ⟨hur, hut⟩ := ContourP.mem_adjOf.mp hu
    obtain ⟨r, hru, hrp⟩ := (touches_iff E p u).mp hut
    have hrpre : r ∈ pre := C.node_pre (ContourP.root_mem_preL hur) hru
    have h1 := C.hle r hrpre
    have h2 := hR.2 p (Conn.refl p) r hrp (hpreo r hrpre)
    have hveq : E.val r = E.val p := by omega
    have hRr : RegMax E order r :=
      regMax_of_plateau hR (Conn.single hrp ⟨hpreo r hrpre, hveq⟩)
    obtain ⟨s, hs, hrs⟩ := own_of_pixels u r hru
    have hsr : s ∈ preL roots := ContourP.mem_preL.mpr ⟨u, hur, hs⟩
    obtain ⟨hsl, hsv⟩ := h r hrpre hRr s hsr hrs
    rcases ContourP.mem_pre.mp hs with rfl | hsk
    · exact (insig_iff' C.hno p s).mpr ⟨hsl, by omega⟩
    · obtain ⟨c, hc, hcv⟩ := hN u hur s hsk hsl
      have := C.hle c hc
      omega
  -- a regional-maximum pixel of an absorbed plateau puts `p` in the same regional maximum
  have K2 : ∀ m ∈ sortById (roots.filter (touches E p)), insig E p m = true → ∀ x ∈ m.own,
      RegMax E order x → RegMax E order p := by
    intro m hm hi x hx hR
    obtain ⟨hmr, hmt⟩ := ContourP.mem_adjOf.mp hm
    have hmp := ContourP.root_mem_preL hmr
    obtain ⟨r, hrm, hrp⟩ := (touches_iff E p m).mp hmt
    have hpx := leaf_pixels ((insig_iff' C.hno p m).mp hi).1
    have hvx := C.insig_own hmp hi x hx
    have hc : Conn E.nbrs (fun y => y ∈ m.pixels) x r :=
      C.hconn m hmp x r (by rw [hpx]; exact hx) hrm
    have hc' : SamePlateau E order x r := by
      refine hc.mono ?_
      intro y hy
      rw [hpx] at hy
      have := C.insig_own hmp hi y hy
      exact ⟨hpreo y (C.own_pre hmp hy), by omega⟩
    exact regMax_of_plateau hR (Conn.tail hc' (C.hsym _ _ hrp) ⟨hpo, by omega⟩)
  -- conclusion when `p` is in a regional maximum
  have fin : RegMax E order p → ∀ x ∈ (joinAdj E p (sortById (roots.filter (touches E p)))).own,
      (joinAdj E p (sortById (roots.filter (touches E p)))).kids = [] ∧
      E.val x = (joinAdj E p (sortById (roots.filter (touches E p)))).vmax E.val := by
    intro hR x hx
    obtain ⟨hk, hv, hown⟩ := C.recv_allInsig hadj (K hR)
    exact ⟨hk, by rw [hv]; exact hown x hx⟩
  intro x hx hR t ht hxt
  rcases ContourP.step_node_cases E roots p t ht with ht | ⟨rfl, _⟩
  · exact h x (C.own_pre ht hxt) hR t ht hxt
  · rcases joinAdj_own E p (sortById (roots.filter (touches E p))) with
      ⟨_, hJ⟩ | ⟨t0, ht0, _, hkt, hown, _⟩ | ⟨_, _, _, hown⟩
    · have : x = p := by rw [hJ] at hxt; simpa [Tree.own] using hxt
      subst this
      exact fin hR x hxt
    · rcases (hown x).mp hxt with h0 | rfl | ⟨m, hm, hi, hxm⟩
      · have ht0r := ContourP.root_mem_preL (hadj t0 ht0)
        obtain ⟨hl0, hv0⟩ := h x (C.own_pre ht0r h0) hR t0 ht0r h0
        exact ⟨hkt.trans hl0, by rw [C.caseB_vmax hadj ht0 hown]; exact hv0⟩
      · exact fin hR x hxt
      · exact fin (K2 m hm hi x hxm hR) x hxt
    · rcases (hown x).mp hxt with rfl | ⟨m, hm, hi, hxm⟩
      · exact fin hR x hxt
      · exact fin (K2 m hm hi x hxm hR) x hxt

end Step


/-! ## the whole loop -/

/-- everything that is carried along the loop -/
structure AllInv (E : Env) (order pre : List Nat) (roots : List Tree) : Prop where
  hpix : ∀ x, x ∈ pixelsL roots ↔ x ∈ pre
  hne : ∀ t ∈ preL roots, t.own ≠ []
  hconn : ∀ t ∈ preL roots, PixConn E t
  hN : NInv E pre roots
  hLeaf : LeafInv E pre roots
  hPlat : PlatInv E pre roots
  hSurj : SurjInv E order pre roots

theorem run_allInv (E : Env) (hsym : ∀ x y, y ∈ E.nbrs x → x ∈ E.nbrs y) (order : List Nat)
    (hsorted : order.Pairwise (fun a b => E.val b ≤ E.val a))
    (hno : ∀ t p v, E.indep t p v = true) : AllInv E order order (run E order) := by
  have key := run_induction_prefix E
    (fun pre roots => (∀ x ∈ pre, x ∈ order) → pre.Pairwise (fun a b => E.val b ≤ E.val a) →
      AllInv E order pre roots)
    (by
      intro _ _
      exact ⟨by simp [pixelsL], by intro t ht; simp [preL] at ht, by intro t ht; simp [preL] at ht,
        by intro r hr; simp at hr, by intro t ht; simp [preL] at ht,
        by intro t ht; simp [preL] at ht, by intro x hx; simp at hx⟩)
    (by
      intro pre roots p ih hsub hs
      obtain ⟨hs1, hle⟩ := ContourP.sorted_snoc hs
      have ih' := ih (fun x hx => hsub x (List.mem_append_left _ hx)) hs1
      have C : Ctx E pre roots p := ⟨hsym, hno, ih'.hpix, hle, ih'.hne, ih'.hconn⟩
      have hN' := step_N C ih'.hN
      refine ⟨ContourP.step_mem_pixels E roots p pre ih'.hpix, ?_,
        ContourP.step_all_conn E hsym roots p ih'.hconn, hN', step_Leaf C hN' ih'.hLeaf,
        step_Plat C ih'.hPlat, step_Surj C hsub ih'.hN ih'.hSurj⟩
      intro x hx
      rcases mem_preL_step E roots p x hx with hx | hx
      · exact ih'.hne x hx
      · subst hx; exact List.ne_nil_of_mem (joinAdj_shape E p _).1)
    order
  exact key (fun _ h => h) hsorted

section Main
variable (E : Env) (hsym : ∀ x y, y ∈ E.nbrs x → x ∈ E.nbrs y) (order : List Nat)
  (hnd : order.Nodup) (hsorted : order.Pairwise (fun a b => E.val b ≤ E.val a))
  (hno : ∀ t p v, E.indep t p v = true)
include hsym hnd hsorted hno

/-- the plateau of a peak pixel of a leaf consists of peak pixels of that leaf -/
theorem leaf_plateau_closed : ∀ t ∈ Tree.preL (run E order), t.kids = [] → ∀ p ∈ t.own,
    E.val p = t.vmax E.val → ∀ q, SamePlateau E order p q → q ∈ t.own ∧ E.val q = t.vmax E.val := by
  intro t ht hl p hp hpk
  have _ := hnd
  have I := run_allInv E hsym order hsorted hno
  refine conn_induct (P := fun q => q ∈ t.own ∧ E.val q = t.vmax E.val) ⟨hp, hpk⟩ ?_
  intro b c _ hb hc hS
  have := (I.hLeaf t ht hl b hb.1 hb.2 c hc hS.1).2 (by omega)
  exact ⟨this, by omega⟩

/-- **1.** a peak pixel of a leaf lies in a regional maximum -/
theorem leaf_peak_regmax : ∀ t ∈ Tree.preL (run E order), t.kids = [] → ∀ p ∈ t.own,
    E.val p = t.vmax E.val → RegMax E order p := by
  intro t ht hl p hp hpk
  have I := run_allInv E hsym order hsorted hno
  refine ⟨(I.hpix p).mp (ContourP.pixels_sub_preL _ t ht p (ContourP.own_pixels_sub t hp)), ?_⟩
  intro q hq r hr hro
  obtain ⟨hqt, hqv⟩ := leaf_plateau_closed E hsym order hnd hsorted hno t ht hl p hp hpk q hq
  have := (I.hLeaf t ht hl q hqt hqv r hr hro).1
  omega

/-- **2.** the peak pixels of a leaf form one plateau -/
theorem leaf_peak_one_plateau : ∀ t ∈ Tree.preL (run E order), t.kids = [] → ∀ p ∈ t.own,
    ∀ q ∈ t.own, E.val p = t.vmax E.val → E.val q = t.vmax E.val → SamePlateau E order p q := by
  intro t ht hl p hp q hq hpk hqk
  have _ := hnd
  exact (run_allInv E hsym order hsorted hno).hPlat t ht hl p hp q hq hpk hqk

/-- the plateau of a peak pixel of a leaf is exactly the set of peak pixels of that leaf -/
theorem leaf_plateau_iff : ∀ t ∈ Tree.preL (run E order), t.kids = [] → ∀ p ∈ t.own,
    E.val p = t.vmax E.val → ∀ q, SamePlateau E order p q ↔ (q ∈ t.own ∧ E.val q = t.vmax E.val) := by
  intro t ht hl p hp hpk q
  exact ⟨leaf_plateau_closed E hsym order hnd hsorted hno t ht hl p hp hpk q,
    fun h => leaf_peak_one_plateau E hsym order hnd hsorted hno t ht hl p hp q h.1 hpk h.2⟩

/-- **4.** every pixel of a regional maximum is a peak pixel of a leaf -/
theorem regmax_has_leaf : ∀ p, RegMax E order p →
    ∃ t ∈ Tree.preL (run E order), t.kids = [] ∧ p ∈ t.own ∧ E.val p = t.vmax E.val := by
  intro p hR
  have _ := hnd
  have I := run_allInv E hsym order hsorted hno
  obtain ⟨s, hs, hps⟩ := own_of_pixelsL _ p ((I.hpix p).mpr hR.1)
  obtain ⟨hl, hv⟩ := I.hSurj p hR.1 hR s hs hps
  exact ⟨s, hs, hl, hps, hv⟩


/-- **1 + 4.** the regional maxima are exactly the peaks of the leaves -/
theorem regmax_iff_leaf_peak (p : Nat) : RegMax E order p ↔
    ∃ t ∈ Tree.preL (run E order), t.kids = [] ∧ p ∈ t.own ∧ E.val p = t.vmax E.val :=
  ⟨regmax_has_leaf E hsym order hnd hsorted hno p,
   fun ⟨t, ht, hl, hp, hv⟩ => leaf_peak_regmax E hsym order hnd hsorted hno t ht hl p hp hv⟩

/-- **3.** peak pixels of distinct leaves lie on distinct plateaus -/
theorem leaves_distinct_maxima : ∀ t ∈ Tree.preL (run E order), ∀ t' ∈ Tree.preL (run E order),
    t.kids = [] → t'.kids = [] → t ≠ t' → ∀ p ∈ t.own, ∀ q ∈ t'.own,
    E.val p = t.vmax E.val → E.val q = t'.vmax E.val → ¬ SamePlateau E order p q := by
  intro t ht t' ht' hl _ hne p hp q hq hpk _ hsp
  obtain ⟨hqt, _⟩ := leaf_plateau_closed E hsym order hnd hsorted hno t ht hl p hp hpk q hsp
  have hndp : (pixelsL (run E order)).Nodup :=
    ((run_pixels E order).trans (List.reverse_perm order)).nodup_iff.mpr hnd
  exact hne (own_uniqueL _ hndp t ht t' ht' q hqt hq)

/-- variant of **3.** with distinct identifiers -/
theorem leaves_distinct_maxima_id : ∀ t ∈ Tree.preL (run E order), ∀ t' ∈ Tree.preL (run E order),
    t.kids = [] → t'.kids = [] → t.id ≠ t'.id → ∀ p ∈ t.own, ∀ q ∈ t'.own,
    E.val p = t.vmax E.val → E.val q = t'.vmax E.val → ¬ SamePlateau E order p q := by
  intro t ht t' ht' hl hl' hne
  exact leaves_distinct_maxima E hsym order hnd hsorted hno t ht t' ht' hl hl'
    (fun e => hne (by rw [e]))

end Main

end P20
