import ADProofs.Forest
import ADProofs.Contour
import ADProofs.RunInd
import ADProofs.SimProofs
/-!
# ADProofs.ThresholdProofs — raising the threshold only restricts the structures (C16, last
clause), and whole-compute determinism

Setting: the processed pixels have pairwise distinct values and are processed in strictly
decreasing order (`hstrict`), and nothing is pruned (`hno`).  Raising `min_value` to a level `thr`
keeps exactly a prefix `pre` of the order (`order = pre ++ suf`).

* `restrictT`, `restrictL`        : restriction of a tree / forest to a pixel set; a node whose own
                                    list becomes empty disappears and its surviving children take
                                    its place (so the restriction of a tree is a forest)
* `no_insig`                      : along the run no adjacent root is ever insignificant, so no
                                    `absorb` happens
* `step_restrict`                 : one step with a pixel outside the kept set does not change the
                                    restricted forest (up to the order of roots)
* `threshold_restriction_keep`    : general form, any `keep` true on `pre` and false on `suf`;
                                    the restricted forest is *equal* to `run E pre` up to a
                                    permutation of the root list (identifiers, own lists and
                                    children lists included)
* `threshold_restriction_perm`    : the same for `keep x = decide (x ∈ pre)`
* `threshold_restriction`         : MAIN, as similarity `P10.SimL id`
* `threshold_restriction_level`   : in terms of a level `thr`: `pre` = pixels with `val > thr`
* `compute_congr`                 : `compute` depends only on the four components of `Env`

Core Lean only.
-/
open Tree

namespace P26

/-! ## restriction of a forest to a pixel set -/

mutual
/-- restriction of a tree to the pixels satisfying `keep`; a node left without own pixels is
dropped and replaced by its (restricted) children -/
def restrictT (keep : Nat → Bool) : Tree → List Tree
  | .node i o ks =>
    let o' := o.filter keep
    let ks' := restrictL keep ks
    if o'.isEmpty then ks' else [.node i o' ks']
def restrictL (keep : Nat → Bool) : List Tree → List Tree
  | [] => []
  | t :: ts => restrictT keep t ++ restrictL keep ts
end

theorem restrictL_eq_flatMap (keep : Nat → Bool) (l : List Tree) :
    restrictL keep l = l.flatMap (restrictT keep) := by
  induction l with
  | nil => simp [restrictL]
  | cons t ts ih => simp [restrictL, ih]

theorem restrictL_append (keep : Nat → Bool) (a b : List Tree) :
    restrictL keep (a ++ b) = restrictL keep a ++ restrictL keep b := by
  simp [restrictL_eq_flatMap]

theorem restrictL_perm (keep : Nat → Bool) {a b : List Tree} (h : a.Perm b) :
    (restrictL keep a).Perm (restrictL keep b) := by
  rw [restrictL_eq_flatMap, restrictL_eq_flatMap]; exact h.flatMap_right _

theorem restrictL_singleton (keep : Nat → Bool) (t : Tree) : restrictL keep [t] = restrictT keep t := by
  simp [restrictL]

/-- a pixel outside the kept set appended to the own list is invisible -/
theorem restrictT_addPixel (keep : Nat → Bool) (t : Tree) (p : Nat) (hp : keep p = false) :
    restrictT keep (t.addPixel p) = restrictT keep t := by
  cases t with | node i o ks =>
  simp [addPixel, restrictT, Tree.id, Tree.own, Tree.kids, List.filter_append, hp]

/-- a structure created by a pixel outside the kept set disappears; its children take its place -/
theorem restrictT_new (keep : Nat → Bool) (p : Nat) (ks : List Tree) (hp : keep p = false) :
    restrictT keep (node p [p] ks) = restrictL keep ks := by
  simp [restrictT, hp]

/-- a forest all of whose pixels are kept and all of whose structures own a pixel is unchanged -/
theorem restrict_id (keep : Nat → Bool) :
    (∀ t : Tree, (∀ s ∈ pre t, s.own ≠ []) → (∀ x ∈ t.pixels, keep x = true) → restrictT keep t = [t]) ∧
    (∀ l : List Tree, (∀ s ∈ preL l, s.own ≠ []) → (∀ x ∈ pixelsL l, keep x = true) →
      restrictL keep l = l) := by
  apply Tree.forest_induction
  · intro i o ks ih hne hk
    have ho : o.filter keep = o := by
      apply List.filter_eq_self.mpr
      intro x hx; exact hk x (by simp [pixels, hx])
    have hks : restrictL keep ks = ks := by
      apply ih
      · intro s hs; exact hne s (by simp [pre, hs])
      · intro x hx; exact hk x (by simp [pixels, hx])
    have hne' : o ≠ [] := by simpa [Tree.own] using hne (node i o ks) (by simp [pre])
    simp [restrictT, ho, hks, hne']
  · intro _ _; simp [restrictL]
  · intro t ts iht ihts hne hk
    simp only [restrictL]
    rw [iht (fun s hs => hne s (by simp [preL, hs])) (fun x hx => hk x (by simp [pixelsL, hx])),
      ihts (fun s hs => hne s (by simp [preL, hs])) (fun x hx => hk x (by simp [pixelsL, hx]))]
    simp

/-! ## 1. no root is ever insignificant -/

/-- pixels of the roots after processing `l` are pixels of `l` -/
theorem mem_run_pixels {E : Env} {l : List Nat} {t : Tree} (ht : t ∈ run E l) {x : Nat}
    (hx : x ∈ t.pixels) : x ∈ l := by
  have h1 : x ∈ pixelsL (run E l) := mem_pixelsL.mpr ⟨t, ht, hx⟩
  simpa using (run_pixels E l).subset h1

/-- With strictly decreasing values and no pruning, no root present when pixel `p` is processed is
insignificant at `p`: its peak is the value of an earlier pixel, strictly above `val p`, and the
criteria accept everything.  Hence `absorb` never happens along the run. -/
theorem no_insig (E : Env) (order : List Nat)
    (hstrict : order.Pairwise (fun a b => E.val b < E.val a))
    (hno : ∀ t p v, E.indep t p v = true) :
    ∀ pre p suf, order = pre ++ p :: suf → ∀ t ∈ run E pre, insig E p t = false := by
  intro pre p suf ho t ht
  have hown : t.own ≠ [] := run_own_nonempty E pre t (mem_preL_of_mem ht)
  obtain ⟨a, ha, hv⟩ := ContourP.vmax_attained E.val t hown
  have hapre : a ∈ pre := mem_run_pixels ht (ContourP.own_pixels_sub t ha)
  subst ho
  have hlt : E.val p < E.val a := (List.pairwise_append.mp hstrict).2.2 a hapre p (by simp)
  have hne : ¬ E.val a = E.val p := by omega
  simp [insig, hno, hv, hne]

/-! ## the receiving structure when nothing is absorbed -/

/-- restriction of the structure receiving `p ∉ keep`, when no adjacent root is insignificant:
it is the restriction of the adjacent roots -/
theorem restrictT_joinAdj (E : Env) (keep : Nat → Bool) (p : Nat) (adj : List Tree)
    (hp : keep p = false) (hins : ∀ t ∈ adj, insig E p t = false) :
    restrictT keep (joinAdj E p adj) = restrictL keep adj := by
  match adj, hins with
  | [], _ => simp [joinAdj, restrictT, restrictL, hp]
  | [t], _ => simp [joinAdj, restrictT_addPixel keep t p hp, restrictL]
  | a :: b :: rest, hins =>
    have hk : (a :: b :: rest).filter (fun t => !insig E p t) = a :: b :: rest := by
      apply List.filter_eq_self.mpr
      intro t ht; simp [hins t ht]
    have hm : (a :: b :: rest).filter (insig E p) = [] := by
      apply List.filter_eq_nil_iff.mpr
      intro t ht; simp [hins t ht]
    rw [joinAdj_many_branch a b rest a b rest hk, hm]
    simp only [List.foldl_nil]
    exact restrictT_new keep p _ hp

/-- **one step.** Processing a pixel outside the kept set, with no insignificant root, leaves the
restricted forest unchanged up to the order of the roots. -/
theorem step_restrict (E : Env) (keep : Nat → Bool) (roots : List Tree) (p : Nat)
    (hp : keep p = false) (hins : ∀ t ∈ roots, insig E p t = false) :
    (restrictL keep (step E roots p)).Perm (restrictL keep roots) := by
  unfold step
  rw [restrictL_append, restrictL_singleton, restrictT_joinAdj E keep p _ hp
    (fun t ht => hins t (List.mem_filter.mp (mem_sortById.mp ht)).1)]
  refine (List.Perm.append_left _ (restrictL_perm keep (sortById_perm _))).trans ?_
  rw [← restrictL_append]
  exact restrictL_perm keep
    (List.perm_append_comm.trans (filter_partition_perm roots (touches E p)).symm)

/-! ## 2. the whole loop -/

theorem foldl_restrict (E : Env) (keep : Nat → Bool) (hno : ∀ t p v, E.indep t p v = true)
    (suf : List Nat) : ∀ done : List Nat,
      (done ++ suf).Pairwise (fun a b => E.val b < E.val a) → (∀ x ∈ suf, keep x = false) →
      (restrictL keep (run E (done ++ suf))).Perm (restrictL keep (run E done)) := by
  induction suf with
  | nil => intro done _ _; simp
  | cons p ps ih =>
    intro done hstrict hk
    have e : done ++ p :: ps = (done ++ [p]) ++ ps := by simp
    have h1 := ih (done ++ [p]) (e ▸ hstrict) (fun x hx => hk x (List.mem_cons_of_mem _ hx))
    rw [← e] at h1
    refine h1.trans ?_
    have e2 : run E (done ++ [p]) = step E (run E done) p := by simp [run_append]
    rw [e2]
    exact step_restrict E keep _ p (hk p (by simp))
      (no_insig E _ hstrict hno done p ps rfl)

/-- **Threshold restriction, general form.**  `keep` is any predicate true on the pixels above the
raised threshold (`pre`) and false on the others (`suf`).  The dendrogram of all pixels, with every
structure restricted to the kept pixels and emptied structures dropped, *is* the dendrogram of the
kept pixels — same identifiers, same own lists, same children lists — up to the order of the
parentless structures. -/
theorem threshold_restriction_keep (E : Env) (pre suf : List Nat) (keep : Nat → Bool)
    (hstrict : (pre ++ suf).Pairwise (fun a b => E.val b < E.val a))
    (hno : ∀ t p v, E.indep t p v = true)
    (hpre : ∀ x ∈ pre, keep x = true) (hsuf : ∀ x ∈ suf, keep x = false) :
    (restrictL keep (run E (pre ++ suf))).Perm (run E pre) := by
  have h := foldl_restrict E keep hno suf pre hstrict hsuf
  have hid : restrictL keep (run E pre) = run E pre := by
    apply (restrict_id keep).2
    · exact run_own_nonempty E pre
    · intro x hx
      obtain ⟨t, ht, hxt⟩ := mem_pixelsL.mp hx
      exact hpre x (mem_run_pixels ht hxt)
  rwa [hid] at h

/-- strictly decreasing values: the two halves of the order are disjoint -/
theorem suf_not_mem_pre {val : Nat → Int} {pre suf : List Nat}
    (hstrict : (pre ++ suf).Pairwise (fun a b => val b < val a)) : ∀ x ∈ suf, x ∉ pre := by
  intro x hx hx'
  have := (List.pairwise_append.mp hstrict).2.2 x hx' x hx
  omega

/-- **Threshold restriction, equality up to a permutation of the root list.** -/
theorem threshold_restriction_perm (E : Env) (pre suf : List Nat)
    (hstrict : (pre ++ suf).Pairwise (fun a b => E.val b < E.val a))
    (hno : ∀ t p v, E.indep t p v = true) :
    (restrictL (fun x => decide (x ∈ pre)) (run E (pre ++ suf))).Perm (run E pre) :=
  threshold_restriction_keep E pre suf _ hstrict hno (fun x hx => by simp [hx])
    (fun x hx => by simp [suf_not_mem_pre hstrict x hx])

/-! ## similarity is reflexive -/

theorem sim_refl :
    (∀ t : Tree, P10.Sim (fun p => p) t t) ∧ (∀ l : List Tree, P10.SimL (fun p => p) l l) := by
  apply Tree.forest_induction
  · intro i o ks ih; exact .mk (by simp) ih
  · exact .nil
  · intro t ts iht ihts; exact .cons iht ihts (List.Perm.refl _)

theorem simL_of_perm {l l' : List Tree} (h : l.Perm l') : P10.SimL (fun p => p) l l' :=
  (sim_refl.2 l).perm_right h

/-- **MAIN (C16, threshold clause).**  The dendrogram computed with the higher threshold (pixels
`pre` only) is the original one (`pre ++ suf`) with every structure restricted to the pixels above
the threshold and emptied structures dropped: same hierarchy up to the order of roots.  (The
stronger `threshold_restriction_perm` says the two root lists are permutations of each other.) -/
theorem threshold_restriction (E : Env) (pre suf : List Nat)
    (hstrict : (pre ++ suf).Pairwise (fun a b => E.val b < E.val a))
    (hno : ∀ t p v, E.indep t p v = true) :
    P10.SimL (fun p => p) (run E pre)
      (restrictL (fun x => decide (x ∈ pre)) (run E (pre ++ suf))) :=
  simL_of_perm (threshold_restriction_perm E pre suf hstrict hno).symm

/-- the requested existential form -/
theorem threshold_restriction_exists (E : Env) (pre suf : List Nat)
    (hstrict : (pre ++ suf).Pairwise (fun a b => E.val b < E.val a))
    (hno : ∀ t p v, E.indep t p v = true) :
    ∃ g, (restrictL (fun x => decide (x ∈ pre)) (run E (pre ++ suf))).Perm g ∧ g = run E pre :=
  ⟨_, threshold_restriction_perm E pre suf hstrict hno, rfl⟩

/-! ## in terms of a level -/

/-- a strictly decreasing order splits at any level into the pixels above it followed by the rest -/
theorem split_at_level (val : Nat → Int) (thr : Int) (order : List Nat)
    (hstrict : order.Pairwise (fun a b => val b < val a)) :
    order = order.filter (fun x => decide (thr < val x)) ++
      order.filter (fun x => !decide (thr < val x)) := by
  induction order with
  | nil => simp
  | cons a l ih =>
    have hp := List.pairwise_cons.mp hstrict
    by_cases ha : thr < val a
    · rw [List.filter_cons_of_pos (by simp [ha]), List.filter_cons_of_neg (by simp [ha])]
      simp only [List.cons_append]
      rw [← ih hp.2]
    · have hall : ∀ b ∈ l, ¬ thr < val b := by
        intro b hb; have := hp.1 b hb; omega
      have h1 : l.filter (fun x => decide (thr < val x)) = [] := by
        apply List.filter_eq_nil_iff.mpr; intro b hb; simp [hall b hb]
      have h2 : l.filter (fun x => !decide (thr < val x)) = l := by
        apply List.filter_eq_self.mpr; intro b hb; simp [hall b hb]
      rw [List.filter_cons_of_neg (by simp [ha]), List.filter_cons_of_pos (by simp [ha]), h1, h2]
      simp

/-- **Threshold restriction at a level.**  Computing with `min_value = thr` processes exactly the
pixels of `order` with value above `thr` (in the same order); the result is the full dendrogram
restricted to the pixels above `thr`, up to the order of parentless structures. -/
theorem threshold_restriction_level (E : Env) (order : List Nat) (thr : Int)
    (hstrict : order.Pairwise (fun a b => E.val b < E.val a))
    (hno : ∀ t p v, E.indep t p v = true) :
    (restrictL (fun x => decide (thr < E.val x)) (run E order)).Perm
      (run E (order.filter (fun x => decide (thr < E.val x)))) := by
  have hs := split_at_level E.val thr order hstrict
  have h := threshold_restriction_keep E (order.filter (fun x => decide (thr < E.val x)))
    (order.filter (fun x => !decide (thr < E.val x))) (fun x => decide (thr < E.val x))
    (hs ▸ hstrict) hno
    (fun x hx => (List.mem_filter.mp hx).2)
    (fun x hx => by simpa using (List.mem_filter.mp hx).2)
  rwa [← hs] at h

/-! ## 3. whole-compute determinism -/

/-- `compute` is a function of the four components of the environment -/
theorem compute_congr (E E' : Env) (order : List Nat)
    (h : ∀ t p v, E.indep t p v = E'.indep t p v) (hv : E.val = E'.val) (hn : E.nbrs = E'.nbrs)
    (ho : E.indepOrphan = E'.indepOrphan) : compute E order = compute E' order := by
  have e : E = E' := by
    obtain ⟨v, n, i, o⟩ := E
    obtain ⟨v', n', i', o'⟩ := E'
    simp only at hv hn ho h
    have hi : i = i' := by funext t p w; exact h t p w
    subst hv hn ho hi
    rfl
  rw [e]

end P26
