import ADProofs.CacheProofs
import ADProofs.Basic

/-!
# HeapRefine (P35): the object-heap model of `prune`'s merge step refines the tree model

`ADModel/Cache.lean` (heap of objects, `Heap.mergeWithParent`, `specLevel` / `specRoot` / `specDesc`) against
`ADModel/Basic.lean`, `ADModel/Prune.lean`, `ADModel/Obs.lean` (`Tree`, `mergeInto`, `pruneAt`, `rows`).

1. `absT h fuel i`, `absF h fuel roots`, `rootsOf h` : the abstraction (follow `kids`; id, own, children in
   order).  `absT_stable` : under `WF`, fuel `h.size` is enough.
2. `merge_refines_parent` (= `mergeInto` at the parent, any fuel), `merge_refines_unchanged` /
   `absT_merge_unchanged'` (sub-trees not containing `p`), `absT_merge_step` / `absT_merge_ancestor`
   (ancestors of `p`), `merge_refines` / `merge_refines_forest` (general form: sub-tree at `p` replaced),
   `merge_refines_id` / `prune_refines` (heap-free right-hand side; whole legal merge lists, `Heap.prune`),
   `merge_two_refines` / `pruneAt_refines` (the caller's one-or-both-children step is `pruneAt`).
3. `specDesc_perm` (permutation of the prefix-order descendants; equality is false, see the `example`),
   `rows_sound` / `rows_complete` / `spec_eq_rows` (`specLevel` = `Row.level`, `specRoot` = `Row.ancestor`
   in `rows` of the abstracted forest, together with parent / children / own pixels / sub-tree pixels).
Non-vacuity: `h1` (six objects), `h1_wf`, computed instances at the end.
-/

namespace P35
open Heap Tree P17

/-! ## 1. the abstraction function -/

/-- the tree below object `i`, read off the `kids` links (`fuel` bounds the depth) -/
def absT (h : Heap) : Nat → Nat → Tree
  | 0, i => .node i [] []
  | fuel + 1, i =>
    match h.get i with
    | none => .node i [] []
    | some o => .node i o.own (o.kids.map (absT h fuel))

/-- the forest below a list of objects -/
def absF (h : Heap) (fuel : Nat) (roots : List Nat) : List Tree := roots.map (absT h fuel)

/-- the trunk: alive objects without a parent, in the order of the alive list -/
def rootsOf (h : Heap) : List Nat :=
  h.alive.filter fun i => ((h.get i).bind (·.parent)).isNone

@[simp] theorem absT_id (h : Heap) (n i : Nat) : (absT h n i).id = i := by
  cases n with
  | zero => rfl
  | succ n => unfold absT; split <;> rfl

theorem absT_zero (h : Heap) (i : Nat) : absT h 0 i = .node i [] [] := rfl

theorem absT_succ_some {h : Heap} {i : Nat} {o : Obj} (n : Nat) (hg : h.get i = some o) :
    absT h (n + 1) i = .node i o.own (o.kids.map (absT h n)) := by
  simp only [absT, hg]

theorem absT_succ_none {h : Heap} {i : Nat} (n : Nat) (hg : h.get i = none) :
    absT h (n + 1) i = .node i [] [] := by
  simp only [absT, hg]

/-- under `WF`, fuel `h.size` is enough: more fuel does not change the tree -/
theorem absT_stable {h : Heap} (w : WF h) {rk} (hr : RankOK h rk) (n m i : Nat) (hi : i ∈ h.alive)
    (hn : h.size ≤ n + rk i) (hm : h.size ≤ m + rk i) : absT h n i = absT h m i := by
  induction n generalizing m i with
  | zero =>
    obtain ⟨o, hg⟩ := w.alive_get i hi
    have := (hr i hi o hg).1; omega
  | succ n ih =>
    obtain ⟨o, hg⟩ := w.alive_get i hi
    have h1 := (hr i hi o hg).1
    cases m with
    | zero => omega
    | succ m =>
      rw [absT_succ_some n hg, absT_succ_some m hg]
      congr 1
      apply List.map_congr_left
      intro c hc
      obtain ⟨hca, co, hgc, hcp⟩ := w.kids_ok i hi o hg c hc
      have := (hr c hca co hgc).2 i hcp
      exact ih m c hca (by omega) (by omega)

theorem absT_stable_size {h : Heap} (w : WF h) (k i : Nat) (hi : i ∈ h.alive) :
    absT h (h.size + k) i = absT h h.size i := by
  obtain ⟨rk, hr⟩ := w.rank
  exact absT_stable w hr _ _ i hi (by omega) (by omega)

/-! ## 2. `mergeWithParent` refines `mergeInto` -/

/-- `y` lies in the sub-tree of `x` along `kids` links (reflexive) -/
inductive Down (h : Heap) : Nat → Nat → Prop
  | refl (x : Nat) : Down h x x
  | step {x o c y} : h.get x = some o → c ∈ o.kids → Down h c y → Down h x y

theorem Down.alive_rank {h : Heap} (w : WF h) {rk} (hr : RankOK h rk) {x y : Nat} (d : Down h x y)
    (hx : x ∈ h.alive) : y ∈ h.alive ∧ rk x ≤ rk y := by
  induction d with
  | refl x => exact ⟨hx, Nat.le_refl _⟩
  | step hg hc _ ih =>
    obtain ⟨hca, co, hgc, hcp⟩ := w.kids_ok _ hx _ hg _ hc
    have := (hr _ hca co hgc).2 _ hcp
    have := ih hca
    exact ⟨this.1, by omega⟩

/-- for alive `x`, the sub-tree relation is the converse of the parent chain -/
theorem Down.reach {h : Heap} (w : WF h) {x y : Nat} (d : Down h x y) (hx : x ∈ h.alive) :
    x = y ∨ Reach h y x := by
  induction d with
  | refl x => exact .inl rfl
  | step hg hc _ ih =>
    obtain ⟨hca, co, hgc, hcp⟩ := w.kids_ok _ hx _ hg _ hc
    rcases ih hca with e | r
    · subst e; exact .inr (.one hgc hcp)
    · exact .inr (r.trans (.one hgc hcp))

theorem Down.snoc {h : Heap} {a b c : Nat} {o : Obj} (d : Down h a b) (hg : h.get b = some o)
    (hc : c ∈ o.kids) : Down h a c := by
  induction d with
  | refl x => exact .step hg hc (.refl _)
  | step hg' hc' _ ih => exact .step hg' hc' (ih hg)

theorem reach_down {h : Heap} (w : WF h) {x y : Nat} (r : Reach h y x) (hy : y ∈ h.alive) : Down h x y := by
  induction r with
  | one hg hp =>
    obtain ⟨_, po, hgp, hk⟩ := w.parent_ok _ hy _ hg _ hp
    exact .step hgp hk (.refl _)
  | step hg hp _ ih =>
    obtain ⟨hpa, po, hgp, hk⟩ := w.parent_ok _ hy _ hg _ hp
    exact (ih hpa).snoc hgp hk

theorem mergeInto_node (i : Nat) (o : List Nat) (ks : List Tree) (j : Nat) (o' : List Nat) (ks' : List Tree) :
    mergeInto (.node i o ks) (.node j o' ks') = .node i (o ++ o') (ks.filter (fun c => c.id != j) ++ ks') := rfl

/-- own pixels and child list of every object other than the parent are untouched by the merge -/
theorem merge_get_ne {h : Heap} {m p : Nat} {mo : Obj} (hgm : h.get m = some mo) (hmp : mo.parent = some p)
    {x : Nat} (hx : x ≠ p) {o : Obj} (hg : h.get x = some o) :
    ∃ o', (h.mergeWithParent m).get x = some o' ∧ o'.own = o.own ∧ o'.kids = o.kids := by
  refine ⟨mergeF m p mo x o, by rw [merge_get hgm hmp, hg]; rfl, ?_, ?_⟩
  · unfold mergeF; rw [if_neg hx]; split <;> rfl
  · rw [mergeF_kids, if_neg hx]

theorem merge_get_p {h : Heap} {m p : Nat} {mo po : Obj} (hgm : h.get m = some mo) (hmp : mo.parent = some p)
    (hgp : h.get p = some po) :
    ∃ o', (h.mergeWithParent m).get p = some o' ∧ o'.own = po.own ++ mo.own ∧
      o'.kids = po.kids.erase m ++ mo.kids := by
  refine ⟨mergeF m p mo p po, by rw [merge_get hgm hmp, hgp]; rfl, ?_, ?_⟩
  · unfold mergeF resetCache; rw [if_pos rfl]; split <;> rfl
  · rw [mergeF_kids, if_pos rfl]

/-- UNCHANGED: a sub-tree that does not contain the parent `p` has the same abstraction after the merge
    (no well-formedness needed) -/
theorem absT_merge_unchanged {h : Heap} {m p : Nat} {mo : Obj} (hgm : h.get m = some mo)
    (hmp : mo.parent = some p) (n x : Nat) (hx : ¬ Down h x p) :
    absT (h.mergeWithParent m) n x = absT h n x := by
  induction n generalizing x with
  | zero => rfl
  | succ n ih =>
    have hxp : x ≠ p := fun e => hx (e ▸ .refl x)
    cases hg : h.get x with
    | none =>
      have : (h.mergeWithParent m).get x = none := by rw [merge_get hgm hmp, hg]; rfl
      rw [absT_succ_none n hg, absT_succ_none n this]
    | some o =>
      obtain ⟨o', hg', ho, hk⟩ := merge_get_ne hgm hmp hxp hg
      rw [absT_succ_some n hg, absT_succ_some n hg', ho, hk]
      congr 1
      apply List.map_congr_left
      intro c hc
      exact ih c (fun d => hx (.step hg hc d))

/-- the same, phrased with the parent chain: `x` is alive, is not `p` and is not an ancestor of `p` -/
theorem absT_merge_unchanged' {h : Heap} (w : WF h) {m p : Nat} {mo : Obj} (hgm : h.get m = some mo)
    (hmp : mo.parent = some p) (n x : Nat) (hxa : x ∈ h.alive) (hxp : x ≠ p) (hx : ¬ Reach h p x) :
    absT (h.mergeWithParent m) n x = absT h n x :=
  absT_merge_unchanged hgm hmp n x fun d => (d.reach w hxa).elim hxp hx

/-- ONE LEVEL: every object other than `p` keeps its own pixels and its child list; its abstraction
    after the merge is assembled from the children's abstractions after the merge -/
theorem absT_merge_step {h : Heap} {m p : Nat} {mo : Obj} (hgm : h.get m = some mo)
    (hmp : mo.parent = some p) (n : Nat) {a : Nat} (ha : a ≠ p) {o : Obj} (hg : h.get a = some o) :
    absT (h.mergeWithParent m) (n + 1) a = .node a o.own (o.kids.map (absT (h.mergeWithParent m) n)) := by
  obtain ⟨o', hg', ho, hk⟩ := merge_get_ne hgm hmp ha hg
  rw [absT_succ_some n hg', ho, hk]

theorem filter_id_map_absT (h : Heap) (n m : Nat) (l : List Nat) :
    (l.map (absT h n)).filter (fun c => c.id != m) = (l.filter (· != m)).map (absT h n) := by
  induction l with
  | nil => rfl
  | cons a l ih =>
    simp only [List.map_cons, List.filter_cons, absT_id]
    split <;> simp [ih]

/-- MAIN: at the parent, `mergeWithParent` is `mergeInto` (any fuel) -/
theorem absT_merge_parent {h : Heap} (w : WF h) {m : Nat} (hm : m ∈ h.alive) {mo : Obj} {p : Nat}
    (hgm : h.get m = some mo) (hmp : mo.parent = some p) (n : Nat) :
    absT (h.mergeWithParent m) n p = mergeInto (absT h n p) (absT h n m) := by
  cases n with
  | zero => rfl
  | succ n =>
    obtain ⟨hpa, po, hgp, hmk⟩ := w.parent_ok m hm mo hgm p hmp
    obtain ⟨rk, hr⟩ := w.rank
    obtain ⟨o', hg', ho, hk⟩ := merge_get_p hgm hmp hgp
    rw [absT_succ_some n hg', absT_succ_some n hgp, absT_succ_some n hgm, ho, hk]
    rw [mergeInto_node]
    rw [filter_id_map_absT, ← (w.kids_nodup p hpa po hgp).erase_eq_filter, List.map_append]
    have hrm := (hr m hm mo hgm).2 p hmp
    congr 2
    · apply List.map_congr_left
      intro c hc
      have hc' := List.mem_of_mem_erase hc
      obtain ⟨hca, co, hgc, hcp⟩ := w.kids_ok p hpa po hgp c hc'
      have := (hr c hca co hgc).2 p hcp
      exact absT_merge_unchanged hgm hmp n c fun d => by
        have := (d.alive_rank w hr hca).2; omega
    · apply List.map_congr_left
      intro c hc
      obtain ⟨hca, co, hgc, hcp⟩ := w.kids_ok m hm mo hgm c hc
      have := (hr c hca co hgc).2 m hcp
      exact absT_merge_unchanged hgm hmp n c fun d => by
        have := (d.alive_rank w hr hca).2; omega

/-! ### the general form: the sub-tree rooted at `p` is replaced -/

mutual
/-- replace the (top-most) sub-tree(s) whose root has identifier `pid` by `new` -/
def replT (pid : Nat) (new : Tree) : Tree → Tree
  | .node i o ks => if i = pid then new else .node i o (replL pid new ks)
def replL (pid : Nat) (new : Tree) : List Tree → List Tree
  | [] => []
  | t :: ts => replT pid new t :: replL pid new ts
end

theorem replL_eq_map (pid : Nat) (new : Tree) (ts : List Tree) : replL pid new ts = ts.map (replT pid new) := by
  induction ts with
  | nil => rfl
  | cons t ts ih => simp [replL, ih]

theorem replT_hit (pid : Nat) (new : Tree) (t : Tree) (ht : t.id = pid) : replT pid new t = new := by
  cases t with | node i o ks => simp only [Tree.id] at ht; simp [replT, ht]

theorem replT_miss (pid : Nat) (new : Tree) (i : Nat) (o : List Nat) (ks : List Tree) (hi : i ≠ pid) :
    replT pid new (.node i o ks) = .node i o (ks.map (replT pid new)) := by
  simp [replT, hi, replL_eq_map]

/-- GENERAL FORM (with the fuel bookkeeping explicit) -/
theorem absT_merge_fuel {h : Heap} (w : WF h) {rk} (hr : RankOK h rk) {m : Nat} (hm : m ∈ h.alive) {mo : Obj}
    {p : Nat} (hgm : h.get m = some mo) (hmp : mo.parent = some p) (n x : Nat) (hx : x ∈ h.alive)
    (hn : h.size ≤ n + rk x) :
    absT (h.mergeWithParent m) n x =
      replT p (mergeInto (absT h h.size p) (absT h h.size m)) (absT h n x) := by
  induction n generalizing x with
  | zero =>
    obtain ⟨o, hg⟩ := w.alive_get x hx
    have := (hr x hx o hg).1; omega
  | succ n ih =>
    by_cases hxp : x = p
    · subst hxp
      have hrm := (hr m hm mo hgm).2 x hmp
      rw [replT_hit _ _ _ (absT_id ..), absT_merge_parent w hm hgm hmp,
        absT_stable w hr (n + 1) h.size x hx hn (by omega),
        absT_stable w hr (n + 1) h.size m hm (by omega) (by omega)]
    · obtain ⟨o, hg⟩ := w.alive_get x hx
      rw [absT_merge_step hgm hmp n hxp hg, absT_succ_some n hg, replT_miss _ _ _ _ _ hxp, List.map_map]
      congr 1
      apply List.map_congr_left
      intro c hc
      obtain ⟨hca, co, hgc, hcp⟩ := w.kids_ok x hx o hg c hc
      have := (hr c hca co hgc).2 x hcp
      exact ih c hca (by omega)

/-- GENERAL FORM: after merging `m` into its parent `p`, the abstraction of every alive object is the
    old one with the sub-tree rooted at `p` replaced by `mergeInto P M` -/
theorem absT_merge {h : Heap} (w : WF h) {m : Nat} (hm : m ∈ h.alive) {mo : Obj} {p : Nat}
    (hgm : h.get m = some mo) (hmp : mo.parent = some p) (x : Nat) (hx : x ∈ h.alive) :
    absT (h.mergeWithParent m) (h.mergeWithParent m).size x =
      replT p (mergeInto (absT h h.size p) (absT h h.size m)) (absT h h.size x) := by
  obtain ⟨rk, hr⟩ := w.rank
  rw [merge_size]
  exact absT_merge_fuel w hr hm hgm hmp h.size x hx (by omega)

/-- the trunk list is not changed by a merge -/
theorem rootsOf_merge {h : Heap} (w : WF h) {m : Nat} (hm : m ∈ h.alive) {mo : Obj} {p : Nat}
    (hgm : h.get m = some mo) (hmp : mo.parent = some p) :
    rootsOf (h.mergeWithParent m) = rootsOf h := by
  unfold rootsOf
  rw [merge_alive hgm hmp, w.alive_nodup.erase_eq_filter, List.filter_filter]
  apply List.filter_congr
  intro x hx
  by_cases hxm : x = m
  · subst hxm; simp [hgm, hmp]
  · obtain ⟨o, hg⟩ := w.alive_get x hx
    rw [merge_get hgm hmp, hg]
    simp only [Option.map_some, Option.bind_some, mergeF_parent]
    split
    · rename_i hk
      obtain ⟨_, co, hgc, hcp⟩ := w.kids_ok m hm mo hgm x hk
      rw [hg] at hgc; cases hgc
      simp [hcp]
    · simp [hxm]

/-- FOREST FORM: the abstracted forest after the merge is the old forest with the sub-tree at `p` replaced -/
theorem absF_merge {h : Heap} (w : WF h) {m : Nat} (hm : m ∈ h.alive) {mo : Obj} {p : Nat}
    (hgm : h.get m = some mo) (hmp : mo.parent = some p) :
    absF (h.mergeWithParent m) (h.mergeWithParent m).size (rootsOf (h.mergeWithParent m)) =
      (absF h h.size (rootsOf h)).map (replT p (mergeInto (absT h h.size p) (absT h h.size m))) := by
  rw [rootsOf_merge w hm hgm hmp]
  unfold absF
  rw [List.map_map]
  apply List.map_congr_left
  intro x hx
  exact absT_merge w hm hgm hmp x (List.mem_filter.1 hx).1

/-! ### an ancestor of `p`: only the child on the path to `p` changes -/

theorem reach_linear {h : Heap} {y a b : Nat} (r : Reach h y a) (t : Reach h y b) :
    a = b ∨ Reach h a b ∨ Reach h b a := by
  induction r generalizing b with
  | one hg hp =>
    cases t with
    | one hg' hp' => rw [hg] at hg'; cases hg'; rw [hp] at hp'; cases hp'; exact .inl rfl
    | step hg' hp' t' => rw [hg] at hg'; cases hg'; rw [hp] at hp'; cases hp'; exact .inr (.inl t')
  | step hg hp r' ih =>
    cases t with
    | one hg' hp' => rw [hg] at hg'; cases hg'; rw [hp] at hp'; cases hp'; exact .inr (.inr r')
    | step hg' hp' t' => rw [hg] at hg'; cases hg'; rw [hp] at hp'; cases hp'; exact ih t'

theorem reach_first {h : Heap} {k c a : Nat} {ko : Obj} (r : Reach h k c) (hg : h.get k = some ko)
    (hp : ko.parent = some a) : c = a ∨ Reach h a c := by
  cases r with
  | one hg' hp' => rw [hg] at hg'; cases hg'; rw [hp] at hp'; cases hp'; exact .inl rfl
  | step hg' hp' t' => rw [hg] at hg'; cases hg'; rw [hp] at hp'; cases hp'; exact .inr t'

/-- two different children of one object have disjoint sub-trees -/
theorem siblings_disjoint {h : Heap} (w : WF h) {a k c y : Nat} {o : Obj} (ha : a ∈ h.alive)
    (hg : h.get a = some o) (hk : k ∈ o.kids) (hc : c ∈ o.kids) (hkc : k ≠ c)
    (dk : Down h k y) (dc : Down h c y) : False := by
  obtain ⟨rk, hr⟩ := w.rank
  obtain ⟨hka, ko, hgk, hkp⟩ := w.kids_ok a ha o hg k hk
  obtain ⟨hca, co, hgc, hcp⟩ := w.kids_ok a ha o hg c hc
  have rka := (hr k hka ko hgk).2 a hkp
  have rca := (hr c hca co hgc).2 a hcp
  -- `u` strictly above `v`, both children of `a` : impossible
  have key : ∀ {u v uo}, h.get u = some uo → uo.parent = some a → u ∈ h.alive → rk a < rk v →
      Reach h u v → False := by
    intro u v uo hgu hup hua hrv r
    rcases reach_first r hgu hup with e | r'
    · subst e; omega
    · have := (r'.alive_rank w hr ha).2; omega
  rcases dk.reach w hka with e1 | r1 <;> rcases dc.reach w hca with e2 | r2
  · exact hkc (e1.trans e2.symm)
  · subst e1; exact key hgk hkp hka rca r2
  · subst e2; exact key hgc hcp hca rka r1
  · rcases reach_linear r1 r2 with e | r | r
    · exact hkc e
    · exact key hgk hkp hka rca r
    · exact key hgc hcp hca rka r

/-- ANCESTOR: an object `a` with a child `c` whose sub-tree contains `p` keeps its own pixels and its
    child list; the sub-tree at `c` is the new one, all other children's sub-trees are the old ones -/
theorem absT_merge_ancestor {h : Heap} (w : WF h) {m : Nat} {mo : Obj} {p : Nat}
    (hgm : h.get m = some mo) (hmp : mo.parent = some p) (n : Nat) {a c : Nat} {o : Obj}
    (ha : a ∈ h.alive) (hg : h.get a = some o) (hc : c ∈ o.kids) (hcp : Down h c p) :
    absT (h.mergeWithParent m) (n + 1) a =
      .node a o.own (o.kids.map fun k => if k = c then absT (h.mergeWithParent m) n c else absT h n k) := by
  obtain ⟨rk, hr⟩ := w.rank
  obtain ⟨hca, co, hgc, hcpar⟩ := w.kids_ok a ha o hg c hc
  have h1 := (hr c hca co hgc).2 a hcpar
  have h2 := (hcp.alive_rank w hr hca).2
  have hap : a ≠ p := by intro e; subst e; omega
  rw [absT_merge_step hgm hmp n hap hg]
  congr 1
  apply List.map_congr_left
  intro k hk
  split
  · rename_i e; rw [e]
  · rename_i hkc
    exact absT_merge_unchanged hgm hmp n k fun d => siblings_disjoint w ha hg hk hc hkc d hcp

/-! ## 3. the heap specifications are the observables of the abstracted tree -/

/-- identifiers of the proper descendants of a tree, prefix order (`Row.desc`) -/
def descIds (t : Tree) : List Nat := (preL t.kids).map Tree.id

theorem specDesc_nil (h : Heap) (n : Nat) : h.specDesc n [] = [] := by
  cases n <;> simp [Heap.specDesc]

theorem specDesc_succ (h : Heap) (n : Nat) (fr : List Nat) :
    h.specDesc (n + 1) fr =
      fr.flatMap (fun i => ((h.get i).map (·.kids)).getD []) ++
        h.specDesc n (fr.flatMap (fun i => ((h.get i).map (·.kids)).getD [])) := by
  rw [Heap.specDesc]
  split
  · rename_i he
    rw [List.isEmpty_iff.1 he, specDesc_nil]; rfl
  · rfl

theorem ids_preL_map (f : Nat → Tree) (hf : ∀ c, (f c).id = c) (l : List Nat) :
    (preL (l.map f)).map Tree.id = l.flatMap (fun c => c :: descIds (f c)) := by
  induction l with
  | nil => rfl
  | cons c l ih =>
    simp only [List.map_cons, preL, List.map_append, ih, List.flatMap_cons, pre_eq, hf, descIds]

theorem descIds_absT_succ (h : Heap) (n x : Nat) :
    descIds (absT h (n + 1) x) =
      (((h.get x).map (·.kids)).getD []).flatMap (fun c => c :: descIds (absT h n c)) := by
  cases hg : h.get x with
  | none => rw [absT_succ_none n hg]; rfl
  | some o =>
    rw [absT_succ_some n hg]
    simp only [descIds, Tree.kids, Option.map_some, Option.getD_some]
    exact ids_preL_map (absT h n) (absT_id h n) o.kids

theorem flatMap_cons_perm (D : Nat → List Nat) (l : List Nat) :
    (l.flatMap (fun c => c :: D c)).Perm (l ++ l.flatMap D) := by
  induction l with
  | nil => simp
  | cons c l ih =>
    simp only [List.flatMap_cons, List.cons_append]
    refine List.Perm.cons c ?_
    refine (List.Perm.append_left (D c) ih).trans ?_
    rw [← List.append_assoc, ← List.append_assoc]
    exact List.Perm.append_right _ List.perm_append_comm

/-- descendants, any frontier, any fuel, any heap: the level-by-level listing of the heap is a
    permutation of the prefix-order listing of the abstracted trees -/
theorem specDesc_perm_frontier (h : Heap) (n : Nat) (fr : List Nat) :
    (h.specDesc n fr).Perm (fr.flatMap fun x => descIds (absT h n x)) := by
  induction n generalizing fr with
  | zero =>
    simp only [Heap.specDesc, absT_zero, descIds, Tree.kids, preL, List.map_nil]
    induction fr with
    | nil => simp
    | cons a l ih => simp
  | succ n ih =>
    rw [specDesc_succ]
    simp only [descIds_absT_succ]
    rw [← List.flatMap_assoc]
    exact (List.Perm.append_left _ (ih _)).trans (flatMap_cons_perm _ _).symm

/-- DESCENDANTS: `specDesc` of one object is a permutation of the identifiers of the proper
    descendants of its abstraction (no well-formedness needed; any fuel) -/
theorem specDesc_perm (h : Heap) (n i : Nat) : (h.specDesc n [i]).Perm (descIds (absT h n i)) := by
  simpa using specDesc_perm_frontier h n [i]

/-- the level-by-level order is in general NOT the prefix order: equality fails on `P17.h0` -/
example : h0.specDesc h0.size [0] ≠ descIds (absT h0 h0.size 0) := by decide

/-! ### rows of the abstracted forest -/

theorem rowsL_eq_flatMap (par : Option Nat) (l : Nat) (anc : Option Nat) (ts : List Tree) :
    rowsL par l anc ts = ts.flatMap (rowsT par l anc) := by
  induction ts with
  | nil => rfl
  | cons t ts ih => simp [rowsL, ih]

theorem rowsT_node (par : Option Nat) (l : Nat) (anc : Option Nat) (i : Nat) (o : List Nat) (ks : List Tree) :
    rowsT par l anc (.node i o ks) =
      { id := i, parent := par, kids := ks.map Tree.id, own := o, level := l, ancestor := anc.getD i,
        desc := descIds (.node i o ks), pixelsSub := (Tree.node i o ks).pixels } ::
        ks.flatMap (rowsT (some i) (l + 1) (some (anc.getD i))) := by
  rw [rowsT, rowsL_eq_flatMap]; rfl

/-- a row of the abstracted forest states exactly what the heap (links and specifications) says -/
structure RowOK (h : Heap) (row : Row) : Prop where
  alive : row.id ∈ h.alive
  obj : ∃ o, h.get row.id = some o ∧ row.parent = o.parent ∧ row.kids = o.kids ∧ row.own = o.own
  level : h.specLevel h.size row.id = some row.level
  ancestor : h.specRoot h.size row.id = some row.ancestor
  desc : (h.specDesc h.size [row.id]).Perm row.desc
  desc_eq : row.desc = descIds (absT h h.size row.id)
  pixelsSub : row.pixelsSub = (absT h h.size row.id).pixels

theorem map_id_absT (h : Heap) (n : Nat) (l : List Nat) : (l.map (absT h n)).map Tree.id = l := by
  induction l with
  | nil => rfl
  | cons a l ih => simp [ih]

theorem rowsT_sound {h : Heap} (w : WF h) {rk} (hr : RankOK h rk) (n x : Nat) (hx : x ∈ h.alive)
    (hn : h.size ≤ n + rk x) {o : Obj} (hg : h.get x = some o) {l a : Nat} (anc : Option Nat)
    (hl : h.specLevel h.size x = some l) (ha : h.specRoot h.size x = some a) (hanc : anc.getD x = a) :
    ∀ row ∈ rowsT o.parent l anc (absT h n x), RowOK h row := by
  induction n generalizing x o l a anc with
  | zero => have := (hr x hx o hg).1; omega
  | succ n ih =>
    have hst : absT h (n + 1) x = absT h h.size x := absT_stable w hr _ _ x hx hn (by omega)
    intro row hrow
    rw [absT_succ_some n hg, rowsT_node, List.mem_cons] at hrow
    rcases hrow with e | hrow
    · rw [← absT_succ_some n hg, hst] at e
      subst e
      refine ⟨hx, ⟨o, hg, rfl, map_id_absT h n o.kids, rfl⟩, hl, by rw [hanc]; exact ha, ?_, rfl, rfl⟩
      exact specDesc_perm h h.size x
    · obtain ⟨t, ht, hrow⟩ := List.mem_flatMap.1 hrow
      obtain ⟨c, hc, rfl⟩ := List.mem_map.1 ht
      obtain ⟨hca, co, hgc, hcp⟩ := w.kids_ok x hx o hg c hc
      have := (hr c hca co hgc).2 x hcp
      rw [← hcp] at hrow
      exact ih c hca (by omega) hgc (some (anc.getD x)) (specLevel_step w hca hgc hcp hl)
        (specRoot_step w hca hgc hcp ha) hanc row hrow

theorem rowsT_head_id (par : Option Nat) (l : Nat) (anc : Option Nat) (h : Heap) (n x : Nat) :
    ∃ row ∈ rowsT par l anc (absT h n x), row.id = x := by
  cases hn : absT h n x with
  | node i o ks =>
    have : i = x := by have := absT_id h n x; rw [hn] at this; exact this
    rw [rowsT_node]
    exact ⟨_, List.mem_cons_self, this⟩

theorem rowsT_complete {h : Heap} (w : WF h) {rk} (hr : RankOK h rk) {x y : Nat} (d : Down h x y) :
    ∀ (n : Nat) (par : Option Nat) (l : Nat) (anc : Option Nat), x ∈ h.alive → h.size ≤ n + rk x →
      ∃ row ∈ rowsT par l anc (absT h n x), row.id = y := by
  induction d with
  | refl x => intro n par l anc _ _; exact rowsT_head_id par l anc h n x
  | step hg hc _ ih =>
    intro n par l anc hx hn
    cases n with
    | zero => have := (hr _ hx _ hg).1; omega
    | succ n =>
      obtain ⟨hca, co, hgc, hcp⟩ := w.kids_ok _ hx _ hg _ hc
      have := (hr _ hca co hgc).2 _ hcp
      obtain ⟨row, hrow, hid⟩ := ih n (some _) (l + 1) (some (anc.getD _)) hca (by omega)
      refine ⟨row, ?_, hid⟩
      rw [absT_succ_some n hg, rowsT_node]
      exact List.mem_cons_of_mem _ (List.mem_flatMap.2 ⟨_, List.mem_map.2 ⟨_, hc, rfl⟩, hrow⟩)

theorem mem_rootsOf {h : Heap} {r : Nat} :
    r ∈ rootsOf h ↔ r ∈ h.alive ∧ (h.get r).bind (·.parent) = none := by
  simp [rootsOf, List.mem_filter]

/-- every alive object lies below some trunk object -/
theorem exists_root {h : Heap} (w : WF h) (i : Nat) (hi : i ∈ h.alive) : ∃ r ∈ rootsOf h, Down h r i := by
  obtain ⟨rk, hr⟩ := w.rank
  have key : ∀ n i, i ∈ h.alive → rk i < n → ∃ r ∈ rootsOf h, Down h r i := by
    intro n
    induction n with
    | zero => intro i _ hn; omega
    | succ n ih =>
      intro i hi hn
      obtain ⟨o, hg⟩ := w.alive_get i hi
      cases hp : o.parent with
      | none => exact ⟨i, mem_rootsOf.2 ⟨hi, by simp [hg, hp]⟩, .refl i⟩
      | some q =>
        obtain ⟨hqa, qo, hgq, hk⟩ := w.parent_ok i hi o hg q hp
        have := (hr i hi o hg).2 q hp
        obtain ⟨r, hrr, d⟩ := ih q hqa (by omega)
        exact ⟨r, hrr, d.snoc hgq hk⟩
  exact key _ i hi (Nat.lt_succ_self _)

/-- ROWS, soundness: every row of the abstracted forest agrees with the heap: parent / children / own
    pixels are the object's fields, `level = specLevel`, `ancestor = specRoot`, `desc ~ specDesc` -/
theorem rows_sound {h : Heap} (w : WF h) : ∀ row ∈ rows (absF h h.size (rootsOf h)), RowOK h row := by
  obtain ⟨rk, hr⟩ := w.rank
  intro row hrow
  rw [rows, rowsL_eq_flatMap, absF] at hrow
  obtain ⟨t, ht, hrow⟩ := List.mem_flatMap.1 hrow
  obtain ⟨r, hrr, rfl⟩ := List.mem_map.1 ht
  obtain ⟨hra, hrp⟩ := mem_rootsOf.1 hrr
  obtain ⟨o, hg⟩ := w.alive_get r hra
  rw [hg] at hrp
  simp only [Option.bind_some] at hrp
  have hrow' : row ∈ rowsT o.parent 0 none (absT h h.size r) := by rw [hrp]; exact hrow
  exact rowsT_sound w hr h.size r hra (by omega) hg none (specLevel_root hg hrp) (specRoot_root hg hrp) rfl
    row hrow'

/-- ROWS, completeness: every alive object has a row -/
theorem rows_complete {h : Heap} (w : WF h) (i : Nat) (hi : i ∈ h.alive) :
    ∃ row ∈ rows (absF h h.size (rootsOf h)), row.id = i := by
  obtain ⟨rk, hr⟩ := w.rank
  obtain ⟨r, hrr, d⟩ := exists_root w i hi
  obtain ⟨row, hrow, hid⟩ := rowsT_complete w hr d h.size none 0 none (mem_rootsOf.1 hrr).1 (by omega)
  refine ⟨row, ?_, hid⟩
  rw [rows, rowsL_eq_flatMap, absF]
  exact List.mem_flatMap.2 ⟨_, List.mem_map.2 ⟨r, hrr, rfl⟩, hrow⟩

/-- LEVEL / ROOT / DESCENDANTS of an alive object, read off the abstracted forest: the object has a
    row, and every row carrying its identifier reports depth `specLevel`, trunk ancestor `specRoot`
    and a descendant list that `specDesc` permutes -/
theorem spec_eq_rows {h : Heap} (w : WF h) (i : Nat) (hi : i ∈ h.alive) :
    (∃ row ∈ rows (absF h h.size (rootsOf h)), row.id = i) ∧
    ∀ row ∈ rows (absF h h.size (rootsOf h)), row.id = i →
      h.specLevel h.size i = some row.level ∧ h.specRoot h.size i = some row.ancestor ∧
        (h.specDesc h.size [i]).Perm row.desc ∧ row.desc = descIds (absT h h.size i) := by
  refine ⟨rows_complete w i hi, fun row hrow hid => ?_⟩
  have ok := rows_sound w row hrow
  subst hid
  exact ⟨ok.level, ok.ancestor, ok.desc, ok.desc_eq⟩

/-! ## the statements with the `Legal`-style precondition of `P17.mergeWithParent_wf` -/

theorem parent_split {h : Heap} {m p : Nat} (hp : (h.get m).bind (·.parent) = some p) :
    ∃ mo, h.get m = some mo ∧ mo.parent = some p := by
  cases hg : h.get m with
  | none => simp [hg] at hp
  | some mo => exact ⟨mo, rfl, by simpa [hg] using hp⟩

/-- MAIN (parent): merging `m` into its parent `p` on the heap is `mergeInto` on the abstraction -/
theorem merge_refines_parent {h : Heap} (w : WF h) {m p : Nat} (hm : m ∈ h.alive)
    (hp : (h.get m).bind (·.parent) = some p) (fuel : Nat) :
    absT (h.mergeWithParent m) fuel p = mergeInto (absT h fuel p) (absT h fuel m) := by
  obtain ⟨mo, hgm, hmp⟩ := parent_split hp
  exact absT_merge_parent w hm hgm hmp fuel

/-- MAIN (everything else unchanged): if `p` is not in the sub-tree of `x`, nothing changes at `x` -/
theorem merge_refines_unchanged {h : Heap} {m p : Nat} (hp : (h.get m).bind (·.parent) = some p)
    (fuel x : Nat) (hx : ¬ Down h x p) : absT (h.mergeWithParent m) fuel x = absT h fuel x := by
  obtain ⟨mo, hgm, hmp⟩ := parent_split hp
  exact absT_merge_unchanged hgm hmp fuel x hx

/-- MAIN (all alive objects): the sub-tree rooted at `p` is replaced by `mergeInto P M` -/
theorem merge_refines {h : Heap} (w : WF h) {m p : Nat} (hm : m ∈ h.alive)
    (hp : (h.get m).bind (·.parent) = some p) (x : Nat) (hx : x ∈ h.alive) :
    absT (h.mergeWithParent m) (h.mergeWithParent m).size x =
      replT p (mergeInto (absT h h.size p) (absT h h.size m)) (absT h h.size x) := by
  obtain ⟨mo, hgm, hmp⟩ := parent_split hp
  exact absT_merge w hm hgm hmp x hx

/-- MAIN (forest) -/
theorem merge_refines_forest {h : Heap} (w : WF h) {m p : Nat} (hm : m ∈ h.alive)
    (hp : (h.get m).bind (·.parent) = some p) :
    absF (h.mergeWithParent m) (h.mergeWithParent m).size (rootsOf (h.mergeWithParent m)) =
      (absF h h.size (rootsOf h)).map (replT p (mergeInto (absT h h.size p) (absT h h.size m))) := by
  obtain ⟨mo, hgm, hmp⟩ := parent_split hp
  exact absF_merge w hm hgm hmp

/-! ## two merges into the same parent, and `pruneAt` -/

/-- merging two children `k1`, `k2` of `p` one after the other is `mergeInto` twice (any fuel) -/
theorem merge_two_refines {h : Heap} (w : WF h) {k1 k2 p : Nat} (h1 : k1 ∈ h.alive) (h2 : k2 ∈ h.alive)
    (hne : k1 ≠ k2) (hp1 : (h.get k1).bind (·.parent) = some p) (hp2 : (h.get k2).bind (·.parent) = some p)
    (fuel : Nat) :
    absT ((h.mergeWithParent k1).mergeWithParent k2) fuel p =
      mergeInto (mergeInto (absT h fuel p) (absT h fuel k1)) (absT h fuel k2) := by
  obtain ⟨o1, hg1, hq1⟩ := parent_split hp1
  obtain ⟨o2, hg2, hq2⟩ := parent_split hp2
  obtain ⟨rk, hr⟩ := w.rank
  have w1 : WF (h.mergeWithParent k1) := mergeWithParent_wf h k1 w h1 (by rw [hp1]; simp)
  have a2 : k2 ∈ (h.mergeWithParent k1).alive := by
    rw [merge_alive hg1 hq1]; exact (List.mem_erase_of_ne (Ne.symm hne)).2 h2
  have p2 : ((h.mergeWithParent k1).get k2).bind (·.parent) = some p := by
    rw [merge_get hg1 hq1, hg2]
    simp only [Option.map_some, Option.bind_some, mergeF_parent]
    split
    · rfl
    · exact hq2
  rw [merge_refines_parent w1 a2 p2, merge_refines_parent w h1 hp1]
  congr 1
  refine absT_merge_unchanged hg1 hq1 fuel k2 fun d => ?_
  have := (d.alive_rank w hr h2).2
  have := (hr k2 h2 o2 hg2).2 p hq2
  omega

/-- PRUNE STEP: what the caller of `_to_prune` does on the heap (merge the failing leaf `k`, or both
    children when the parent has exactly two) is `pruneAt` on the abstraction -/
theorem pruneAt_refines {h : Heap} (w : WF h) {k p : Nat} {po : Obj} (hk : k ∈ h.alive)
    (hp : (h.get k).bind (·.parent) = some p) (hgp : h.get p = some po) :
    absT ((if po.kids.length = 2 then po.kids else [k]).foldl Heap.mergeWithParent h) h.size p =
      pruneAt (absT h h.size p) (absT h h.size k) := by
  obtain ⟨rk, hr⟩ := w.rank
  obtain ⟨ko, hgk, hkp⟩ := parent_split hp
  have hpa := (w.parent_ok k hk ko hgk p hkp).1
  have hP : absT h h.size p = .node p po.own (po.kids.map (absT h h.objs.length)) := by
    rw [size_eq]; exact absT_succ_some _ hgp
  have hlen : (absT h h.size p).kids.length = po.kids.length := by rw [hP]; simp [Tree.kids]
  unfold pruneAt
  rw [hlen]
  by_cases h2 : po.kids.length = 2
  · rw [if_pos h2]
    simp only [h2, beq_self_eq_true, if_true]
    obtain ⟨k1, k2, hks⟩ : ∃ k1 k2, po.kids = [k1, k2] := by
      match hks : po.kids, h2 with
      | [a, b], _ => exact ⟨a, b, rfl⟩
    have hnd := w.kids_nodup p hpa po hgp
    rw [hks] at hnd
    have hne : k1 ≠ k2 := by simpa using hnd
    obtain ⟨a1, c1, g1, q1⟩ := w.kids_ok p hpa po hgp k1 (by simp [hks])
    obtain ⟨a2, c2, g2, q2⟩ := w.kids_ok p hpa po hgp k2 (by simp [hks])
    have r1 := (hr k1 a1 c1 g1).2 p q1
    have r2 := (hr k2 a2 c2 g2).2 p q2
    rw [hks]
    simp only [List.foldl_cons, List.foldl_nil]
    rw [merge_two_refines w a1 a2 hne (by simp [g1, q1]) (by simp [g2, q2])]
    rw [hP, hks]
    simp only [Tree.kids, List.map_cons, List.map_nil, List.foldl_cons, List.foldl_nil]
    rw [absT_stable w hr h.objs.length h.size k1 a1 (by rw [size_eq]; omega) (by omega),
      absT_stable w hr h.objs.length h.size k2 a2 (by rw [size_eq]; omega) (by omega)]
  · rw [if_neg h2]
    have : (po.kids.length == 2) = false := by simpa using h2
    simp only [this, List.foldl_cons, List.foldl_nil]
    exact merge_refines_parent w hk hp h.size

/-! ## a heap-free right-hand side: the merge as a function of the forest and the identifier `m` alone -/

mutual
/-- merge the structure with identifier `m` into its parent, found by search (top-most occurrence) -/
def mergeIdT (m : Nat) : Tree → Tree
  | .node i o ks =>
    match ks.find? (fun c => c.id == m) with
    | some M => mergeInto (.node i o ks) M
    | none => .node i o (mergeIdL m ks)
def mergeIdL (m : Nat) : List Tree → List Tree
  | [] => []
  | t :: ts => mergeIdT m t :: mergeIdL m ts
end

theorem mergeIdL_eq_map (m : Nat) (ts : List Tree) : mergeIdL m ts = ts.map (mergeIdT m) := by
  induction ts with
  | nil => rfl
  | cons t ts ih => simp [mergeIdL, ih]

theorem mergeIdT_hit (m i : Nat) (o : List Nat) (ks : List Tree) (M : Tree)
    (hf : ks.find? (fun c => c.id == m) = some M) :
    mergeIdT m (.node i o ks) = mergeInto (.node i o ks) M := by
  rw [mergeIdT, hf]

theorem mergeIdT_miss (m i : Nat) (o : List Nat) (ks : List Tree)
    (hf : ks.find? (fun c => c.id == m) = none) :
    mergeIdT m (.node i o ks) = .node i o (ks.map (mergeIdT m)) := by
  rw [mergeIdT, hf, mergeIdL_eq_map]

theorem find_map_absT (h : Heap) (n m : Nat) (l : List Nat) :
    (l.map (absT h n)).find? (fun c => c.id == m) = if m ∈ l then some (absT h n m) else none := by
  induction l with
  | nil => rfl
  | cons a l ih =>
    simp only [List.map_cons, List.find?_cons, absT_id, List.mem_cons]
    by_cases e : a = m
    · subst e; simp
    · have e' : ¬ m = a := fun e' => e e'.symm
      have e2 : (a == m) = false := by simpa using e
      simp [e2, e', ih]

theorem absT_merge_id_fuel {h : Heap} (w : WF h) {rk} (hr : RankOK h rk) {m : Nat} (hm : m ∈ h.alive)
    {mo : Obj} {p : Nat} (hgm : h.get m = some mo) (hmp : mo.parent = some p) (n x : Nat)
    (hx : x ∈ h.alive) (hn : h.size ≤ n + rk x) :
    absT (h.mergeWithParent m) n x = mergeIdT m (absT h n x) := by
  induction n generalizing x with
  | zero =>
    obtain ⟨o, hg⟩ := w.alive_get x hx
    have := (hr x hx o hg).1; omega
  | succ n ih =>
    obtain ⟨o, hg⟩ := w.alive_get x hx
    obtain ⟨hpa, po, hgp, hmk⟩ := w.parent_ok m hm mo hgm p hmp
    by_cases hmx : m ∈ o.kids
    · -- `x` is the parent
      obtain ⟨_, mo', hgm', hmp'⟩ := w.kids_ok x hx o hg m hmx
      rw [hgm] at hgm'; cases hgm'
      rw [hmp] at hmp'; cases hmp'
      have hrm := (hr m hm mo hgm).2 p hmp
      rw [absT_merge_parent w hm hgm hmp]
      conv => rhs; rw [absT_succ_some n hg]
      rw [mergeIdT_hit m p o.own _ (absT h n m) (by rw [find_map_absT, if_pos hmx]),
        ← absT_succ_some n hg, absT_stable w hr (n + 1) n m hm (by omega) (by omega)]
    · have hxp : x ≠ p := by
        intro e; subst e; rw [hgp] at hg; cases hg; exact hmx hmk
      rw [absT_merge_step hgm hmp n hxp hg, absT_succ_some n hg,
        mergeIdT_miss m x o.own _ (by rw [find_map_absT, if_neg hmx]), List.map_map]
      congr 1
      apply List.map_congr_left
      intro c hc
      obtain ⟨hca, co, hgc, hcp⟩ := w.kids_ok x hx o hg c hc
      have := (hr c hca co hgc).2 x hcp
      exact ih c hca (by omega)

/-- MAIN (heap-free right-hand side): the abstracted forest after `mergeWithParent m` is `mergeIdL m`
    of the abstracted forest before -/
theorem merge_refines_id {h : Heap} (w : WF h) {m : Nat} (hm : m ∈ h.alive)
    (hp : (h.get m).bind (·.parent) ≠ none) :
    absF (h.mergeWithParent m) (h.mergeWithParent m).size (rootsOf (h.mergeWithParent m)) =
      mergeIdL m (absF h h.size (rootsOf h)) := by
  obtain ⟨p, hp'⟩ := Option.ne_none_iff_exists'.mp hp
  obtain ⟨mo, hgm, hmp⟩ := parent_split hp'
  obtain ⟨rk, hr⟩ := w.rank
  rw [rootsOf_merge w hm hgm hmp, merge_size, mergeIdL_eq_map]
  unfold absF
  rw [List.map_map]
  apply List.map_congr_left
  intro x hx
  exact absT_merge_id_fuel w hr hm hgm hmp h.size x (mem_rootsOf.1 hx).1 (by omega)

/-- the abstraction depends on own pixels and child lists only -/
theorem absT_congr {h h' : Heap}
    (hl : ∀ i, (h'.get i).map (fun o => (o.own, o.kids)) = (h.get i).map (fun o => (o.own, o.kids)))
    (n i : Nat) : absT h' n i = absT h n i := by
  induction n generalizing i with
  | zero => rfl
  | succ n ih =>
    have := hl i
    cases hg : h.get i with
    | none =>
      cases hg' : h'.get i with
      | none => rw [absT_succ_none n hg, absT_succ_none n hg']
      | some o' => simp [hg, hg'] at this
    | some o =>
      cases hg' : h'.get i with
      | none => simp [hg, hg'] at this
      | some o' =>
        simp only [hg, hg', Option.map_some, Option.some.injEq, Prod.mk.injEq] at this
        rw [absT_succ_some n hg, absT_succ_some n hg', this.1, this.2]
        congr 1
        exact List.map_congr_left (fun c _ => ih c)

theorem finishF_own (h : Heap) (o : Obj) : (finishF h o).own = o.own := by
  unfold finishF resetCache
  split
  · dsimp only
    split <;> rfl
  · rfl

/-- the cache reset at the end of `prune` is invisible to the abstraction -/
theorem absF_finishPrune (h : Heap) :
    absF h.finishPrune h.finishPrune.size (rootsOf h.finishPrune) = absF h h.size (rootsOf h) := by
  have hr : rootsOf h.finishPrune = rootsOf h := by
    unfold rootsOf
    show h.alive.filter _ = _
    apply List.filter_congr
    intro x _
    rw [finishPrune_get]
    cases h.get x <;> simp [finishF_parent]
  rw [hr, (finishPrune_same h).size]
  unfold absF
  apply List.map_congr_left
  intro x _
  apply absT_congr
  intro i
  rw [finishPrune_get]
  cases h.get i <;> simp [finishF_own, finishF_kids]

theorem foldl_merge_refines {h : Heap} {ms : List Nat} (w : WF h) (hl : Legal h ms) :
    absF (ms.foldl Heap.mergeWithParent h) (ms.foldl Heap.mergeWithParent h).size
        (rootsOf (ms.foldl Heap.mergeWithParent h)) =
      ms.foldl (fun f m => mergeIdL m f) (absF h h.size (rootsOf h)) := by
  induction hl with
  | nil h => rfl
  | cons hm hp _ ih =>
    simp only [List.foldl_cons]
    rw [ih (mergeWithParent_wf _ _ w hm hp), merge_refines_id w hm hp]

/-- PRUNE: for every legal merge list, the abstracted forest of `Heap.prune h ms` is the tree-level
    merge (`mergeInto` at the parent found by identifier) folded over the list -/
theorem prune_refines {h : Heap} {ms : List Nat} (w : WF h) (hl : Legal h ms) :
    absF (h.prune ms) (h.prune ms).size (rootsOf (h.prune ms)) =
      ms.foldl (fun f m => mergeIdL m f) (absF h h.size (rootsOf h)) := by
  unfold Heap.prune
  rw [absF_finishPrune, foldl_merge_refines w hl]

/-! ## non-vacuity: a concrete heap -/

/-- six objects: `0 → [1, 2]`, `1 → [3, 4]`, `3 → [5]`; object `i` owns pixel `10 + i` -/
def h1 : Heap :=
  { objs := [ { id := 0, kids := [1, 2], own := [10] },
              { id := 1, parent := some 0, kids := [3, 4], own := [11] },
              { id := 2, parent := some 0, own := [12] },
              { id := 3, parent := some 1, kids := [5], own := [13] },
              { id := 4, parent := some 1, own := [14] },
              { id := 5, parent := some 3, own := [15] } ],
    alive := [0, 1, 2, 3, 4, 5] }

def rk1 : Nat → Nat
  | 0 => 0 | 1 => 1 | 2 => 1 | 3 => 2 | 4 => 2 | _ => 3

theorem h1_wf : WF h1 := by
  have k : ∀ i ∈ h1.alive, (h1.get i).isSome = true := by decide
  refine ⟨by decide, fun i hi => Option.isSome_iff_exists.1 (k i hi), by decide, by decide, by decide, ⟨rk1, ?_⟩⟩
  unfold RankOK; decide

/-- the hypotheses of the MAIN theorems hold for the merge of the branch `3` (which has a child) into `1` -/
example : WF h1 ∧ 3 ∈ h1.alive ∧ (h1.get 3).bind (·.parent) = some 1 ∧ 0 ∈ h1.alive :=
  ⟨h1_wf, by decide, by decide, by decide⟩

/-- before and after, computed -/
example : absF h1 h1.size (rootsOf h1) =
    [.node 0 [10] [.node 1 [11] [.node 3 [13] [.node 5 [15] []], .node 4 [14] []], .node 2 [12] []]] := by
  rfl
example : absF (h1.mergeWithParent 3) (h1.mergeWithParent 3).size (rootsOf (h1.mergeWithParent 3)) =
    [.node 0 [10] [.node 1 [11, 13] [.node 4 [14] [], .node 5 [15] []], .node 2 [12] []]] := by
  rfl

/-- the MAIN theorems instantiated on `h1` -/
example : absT (h1.mergeWithParent 3) 7 1 = mergeInto (absT h1 7 1) (absT h1 7 3) :=
  merge_refines_parent h1_wf (by decide) (by decide) 7
example : absT (h1.mergeWithParent 3) (h1.mergeWithParent 3).size 0 =
    replT 1 (mergeInto (absT h1 h1.size 1) (absT h1 h1.size 3)) (absT h1 h1.size 0) :=
  merge_refines h1_wf (by decide) (by decide) 0 (by decide)

/-- the legal merge list `[3, 4]` (both children of `1`, as `prune` does for a two-child parent) -/
example : Legal h1 [3, 4] := .cons (by decide) (by decide) (.cons (by decide) (by decide) (.nil _))
example : absF (h1.prune [3, 4]) (h1.prune [3, 4]).size (rootsOf (h1.prune [3, 4])) =
    [.node 0 [10] [.node 1 [11, 13, 14] [.node 5 [15] []], .node 2 [12] []]] := by
  rfl
example : [3, 4].foldl (fun f m => mergeIdL m f) (absF h1 h1.size (rootsOf h1)) =
    [.node 0 [10] [.node 1 [11, 13, 14] [.node 5 [15] []], .node 2 [12] []]] := by
  rfl

/-- part 3 on `h1`: rows of the abstracted forest against the heap specifications -/
example : (rows (absF h1 h1.size (rootsOf h1))).map (fun r => (r.id, r.level, r.ancestor, r.desc)) =
    [(0, 0, 0, [1, 3, 5, 4, 2]), (1, 1, 0, [3, 5, 4]), (3, 2, 0, [5]), (5, 3, 0, []), (4, 2, 0, []), (2, 1, 0, [])] := by
  decide
example : h1.specDesc h1.size [0] = [1, 2, 3, 4, 5] ∧ h1.specLevel h1.size 5 = some 3 ∧
    h1.specRoot h1.size 5 = some 0 := by decide

end P35
