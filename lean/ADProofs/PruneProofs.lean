import ADProofs.Basic
/-!
# ADProofs.PruneProofs — pruning (property C07)

Facts about `ADModel.Prune`: every successful scan step (`pruneIn` / `pruneForest`) removes at
least one structure, keeps the identifier and the region (pixel multiset) of every surviving
structure, keeps all identifiers distinct and keeps the arity discipline (no structure with exactly
one child); the loop reaches a fixpoint within `sizeL f` rounds; the fixpoint means "no leaf with a
parent fails the criteria"; `prune` is a no-op on such a forest and is idempotent; the recorded
pruning parameters never decrease.

`ic` (post-hoc criteria for a leaf under a parent) and `io` (criteria for a parentless leaf) are
arbitrary functions everywhere.

`PArity` is the same predicate as `Arity` of `ADProofs.Forest` (renamed to avoid a clash).
-/
open Tree

/-- a structure is a leaf or has at least two children -/
def PArity (t : Tree) : Prop := t.kids = [] ∨ 2 ≤ t.kids.length

/-- ids of all nodes distinct -/
def IdsNodup (f : List Tree) : Prop := ((Tree.preL f).map Tree.id).Nodup

/-! ## generalities on trees (in a namespace: other proof files have helpers of the same name) -/
namespace PruneP

@[simp] theorem id_node (i : Nat) (o : List Nat) (ks : List Tree) : (node i o ks).id = i := rfl
@[simp] theorem own_node (i : Nat) (o : List Nat) (ks : List Tree) : (node i o ks).own = o := rfl
@[simp] theorem kids_node (i : Nat) (o : List Nat) (ks : List Tree) : (node i o ks).kids = ks := rfl

theorem preL_singleton (t : Tree) : preL [t] = pre t := by simp [preL]

theorem sizeL_singleton (t : Tree) : sizeL [t] = size t := by simp [sizeL]

theorem pixelsL_singleton (t : Tree) : pixelsL [t] = pixels t := by simp [pixelsL]

theorem preL_cons (t : Tree) (ts : List Tree) : preL (t :: ts) = pre t ++ preL ts := by simp [preL]

theorem size_pos (t : Tree) : 0 < size t := by cases t; simp [size]; omega

theorem size_eq (t : Tree) : size t = 1 + sizeL t.kids := by cases t; simp [size, Tree.kids]

theorem isLeaf_iff (t : Tree) : t.isLeaf = true ↔ t.kids = [] := by simp [isLeaf]

theorem mem_preL {s : Tree} {l : List Tree} : s ∈ preL l ↔ ∃ t ∈ l, s ∈ pre t := by
  induction l with
  | nil => simp [preL]
  | cons t ts ih => simp [preL, ih]

theorem self_mem_pre (t : Tree) : t ∈ pre t := by rw [pre_eq]; exact List.mem_cons_self

theorem mem_pre {s t : Tree} : s ∈ pre t ↔ s = t ∨ s ∈ preL t.kids := by
  rw [pre_eq]; simp

theorem kid_mem_pre {k t : Tree} (h : k ∈ t.kids) : k ∈ pre t :=
  mem_pre.2 (Or.inr (mem_preL.2 ⟨k, h, self_mem_pre k⟩))

theorem sizeL_mem_le {k : Tree} {l : List Tree} (h : k ∈ l) : size k ≤ sizeL l := by
  induction l with
  | nil => cases h
  | cons t ts ih =>
    simp only [sizeL]
    rcases List.mem_cons.1 h with rfl | h
    · omega
    · have := ih h; omega

theorem sublist_preL (l : List Tree) : l.Sublist (preL l) := by
  induction l with
  | nil => simp [preL]
  | cons t ts ih =>
    rw [preL_cons, pre_eq, List.cons_append]
    exact (ih.trans (List.sublist_append_right _ _)).cons_cons t

end PruneP
open PruneP

/-- perm of two lists of naturals built from `++` : compare counts -/
local macro "perm_count" : tactic =>
  `(tactic| (rw [List.perm_iff_count]; intro x;
             simp only [List.count_append, List.count_cons, List.count_nil, List.map_append,
               List.map_cons, List.map_nil, List.cons_append, List.nil_append, List.append_nil,
               id_node];
             omega))

/-! ## the one-step relation -/

/-- what a successful scan step does to the tree it works in (except size and arity) -/
structure PStep (t t' : Tree) : Prop where
  id_eq : t'.id = t.id
  pix : t'.pixels.Perm t.pixels
  reg : ∀ s' ∈ pre t', ∃ s ∈ pre t, s.id = s'.id ∧ s'.pixels.Perm s.pixels
  idsr : ∃ r, ((pre t').map Tree.id ++ r).Perm ((pre t).map Tree.id)

theorem PStep.trans {a b c : Tree} (h1 : PStep a b) (h2 : PStep b c) : PStep a c where
  id_eq := h2.id_eq.trans h1.id_eq
  pix := h2.pix.trans h1.pix
  reg := by
    intro s'' hs''
    obtain ⟨s', hs', e', p'⟩ := h2.reg s'' hs''
    obtain ⟨s, hs, e, p⟩ := h1.reg s' hs'
    exact ⟨s, hs, e.trans e', p'.trans p⟩
  idsr := by
    obtain ⟨r1, p1⟩ := h1.idsr
    obtain ⟨r2, p2⟩ := h2.idsr
    refine ⟨r2 ++ r1, ?_⟩
    rw [← List.append_assoc]
    exact (p2.append_right r1).trans p1

theorem PStep.idsNodup {t t' : Tree} (h : PStep t t') (hids : IdsNodup [t]) : IdsNodup [t'] := by
  unfold IdsNodup at *
  rw [preL_singleton] at *
  obtain ⟨r, p⟩ := h.idsr
  exact (List.nodup_append.1 (p.nodup_iff.2 hids)).1

/-- shape of a single `mergeInto` when ids are distinct: child `m` dissolved into its parent -/
theorem pstep_merge (i : Nat) (o : List Nat) (a : List Tree) (m : Tree) (b : List Tree) :
    PStep (node i o (a ++ m :: b)) (node i (o ++ m.own) (a ++ b ++ m.kids)) where
  id_eq := rfl
  pix := by
    simp only [pixels, pixelsL_append, pixelsL, pixels_eq m]
    perm_count
  reg := by
    intro s' hs'
    rcases mem_pre.1 hs' with rfl | hs'
    · refine ⟨_, self_mem_pre _, rfl, ?_⟩
      simp only [pixels, pixelsL_append, pixelsL, pixels_eq m]
      perm_count
    · refine ⟨s', mem_pre.2 (Or.inr ?_), rfl, List.Perm.refl _⟩
      simp only [kids_node, preL_append, preL_cons, List.mem_append] at hs' ⊢
      rcases hs' with (h | h) | h
      · exact Or.inl h
      · exact Or.inr (Or.inr h)
      · exact Or.inr (Or.inl (mem_pre.2 (Or.inr h)))
  idsr := by
    refine ⟨[m.id], ?_⟩
    simp only [pre, preL_append, preL_cons, pre_eq m]
    perm_count

/-- replacing a child by a `PStep`-image of it -/
theorem pstep_ctx (i : Nat) (o : List Nat) (a : List Tree) (k k' : Tree) (b : List Tree)
    (h : PStep k k') : PStep (node i o (a ++ k :: b)) (node i o (a ++ k' :: b)) where
  id_eq := rfl
  pix := by
    simp only [pixels, pixelsL_append, pixelsL]
    exact List.Perm.append_left _ (List.Perm.append_left _ (h.pix.append_right _))
  reg := by
    intro s' hs'
    rcases mem_pre.1 hs' with rfl | hs'
    · refine ⟨_, self_mem_pre _, rfl, ?_⟩
      simp only [pixels, pixelsL_append, pixelsL]
      exact List.Perm.append_left _ (List.Perm.append_left _ (h.pix.append_right _))
    · simp only [kids_node, preL_append, preL_cons, List.mem_append] at hs'
      rcases hs' with h' | h' | h'
      · refine ⟨s', mem_pre.2 (Or.inr ?_), rfl, List.Perm.refl _⟩
        simp only [kids_node, preL_append, preL_cons, List.mem_append]
        exact Or.inl h'
      · obtain ⟨s, hs, e, p⟩ := h.reg s' h'
        refine ⟨s, mem_pre.2 (Or.inr ?_), e, p⟩
        simp only [kids_node, preL_append, preL_cons, List.mem_append]
        exact Or.inr (Or.inl hs)
      · refine ⟨s', mem_pre.2 (Or.inr ?_), rfl, List.Perm.refl _⟩
        simp only [kids_node, preL_append, preL_cons, List.mem_append]
        exact Or.inr (Or.inr h')
  idsr := by
    obtain ⟨r, p⟩ := h.idsr
    refine ⟨r, ?_⟩
    rw [List.perm_iff_count] at p ⊢
    intro x
    have := p x
    simp only [pre, preL_append, preL_cons, List.map_append, List.map_cons, List.cons_append,
      List.count_append, List.count_cons, id_node] at this ⊢
    omega

/-! ## `mergeInto` and `pruneAt` under distinct ids -/

theorem filter_id_ne (l : List Tree) (j : Nat) (h : j ∉ l.map Tree.id) :
    l.filter (fun c => c.id != j) = l := by
  rw [List.filter_eq_self]
  intro c hc
  simp only [bne_iff_ne, ne_eq]
  intro e
  exact h (e ▸ List.mem_map_of_mem hc)

theorem filter_id_split (a : List Tree) (m : Tree) (b : List Tree)
    (h : ((a ++ m :: b).map Tree.id).Nodup) :
    (a ++ m :: b).filter (fun c => c.id != m.id) = a ++ b := by
  simp only [List.map_append, List.map_cons] at h
  have h' := List.nodup_append.1 h
  have hb := List.nodup_cons.1 h'.2.1
  rw [List.filter_append, List.filter_cons]
  simp only [bne_self_eq_false, Bool.false_eq_true, if_false]
  rw [filter_id_ne a, filter_id_ne b _ hb.1]
  intro hm
  exact h'.2.2 _ hm _ List.mem_cons_self rfl

theorem mergeInto_eq (i : Nat) (o : List Nat) (a : List Tree) (m : Tree) (b : List Tree)
    (h : ((a ++ m :: b).map Tree.id).Nodup) :
    mergeInto (node i o (a ++ m :: b)) m = node i (o ++ m.own) (a ++ b ++ m.kids) := by
  simp only [mergeInto, id_node, own_node, kids_node, filter_id_split a m b h]

theorem idsNodup_kids {i : Nat} {o : List Nat} {ks : List Tree} (h : IdsNodup [node i o ks]) :
    (ks.map Tree.id).Nodup := by
  unfold IdsNodup at h
  rw [preL_singleton, pre] at h
  exact ((List.nodup_cons.1 h).2).sublist ((sublist_preL ks).map _)

/-- the two shapes of `pruneAt` -/
theorem pruneAt_cases (P k : Tree) (hk : k ∈ P.kids) (hids : IdsNodup [P]) :
    (∃ i o a b, P = node i o (a ++ k :: b) ∧ (a ++ k :: b).length ≠ 2 ∧
        pruneAt P k = node i (o ++ k.own) (a ++ b ++ k.kids)) ∨
    (∃ i o x y, P = node i o [x, y] ∧
        pruneAt P k = node i (o ++ x.own ++ y.own) (x.kids ++ y.kids)) := by
  cases P with | node i o ks =>
  simp only [kids_node] at hk
  by_cases h2 : ks.length = 2
  · right
    match ks, h2 with
    | [x, y], _ =>
      refine ⟨i, o, x, y, rfl, ?_⟩
      have e1 : mergeInto (node i o [x, y]) x = node i (o ++ x.own) (y :: x.kids) := by
        simpa using mergeInto_eq i o [] x [y] (by simpa using idsNodup_kids hids)
      have s1 : PStep (node i o [x, y]) (node i (o ++ x.own) (y :: x.kids)) := by
        simpa using pstep_merge i o [] x [y]
      have e2 : mergeInto (node i (o ++ x.own) (y :: x.kids)) y
          = node i (o ++ x.own ++ y.own) (x.kids ++ y.kids) := by
        simpa using mergeInto_eq i (o ++ x.own) [] y x.kids
          (by simpa using idsNodup_kids (s1.idsNodup hids))
      simp [pruneAt, kids_node, e1, e2]
  · left
    obtain ⟨a, b, rfl⟩ := List.append_of_mem hk
    refine ⟨i, o, a, b, rfl, h2, ?_⟩
    have : ¬ (a.length + (b.length + 1) = 2) := by simpa using h2
    simp [pruneAt, kids_node, this, mergeInto_eq i o a k b (idsNodup_kids hids)]

theorem pruneAt_pstep (P k : Tree) (hk : k ∈ P.kids) (hids : IdsNodup [P]) :
    PStep P (pruneAt P k) := by
  rcases pruneAt_cases P k hk hids with ⟨i, o, a, b, rfl, _, e⟩ | ⟨i, o, x, y, rfl, e⟩
  · rw [e]; exact pstep_merge i o a k b
  · rw [e]
    have s1 : PStep (node i o [x, y]) (node i (o ++ x.own) (y :: x.kids)) := by
      simpa using pstep_merge i o [] x [y]
    have s2 : PStep (node i (o ++ x.own) (y :: x.kids))
        (node i (o ++ x.own ++ y.own) (x.kids ++ y.kids)) := by
      simpa using pstep_merge i (o ++ x.own) [] y x.kids
    exact s1.trans s2

/-! ## shape of a successful scan; induction principle -/

theorem pruneKids_some (ic : Tree → Tree → Bool) (P : Tree) (rest : List Tree) :
    ∀ (done : List Tree) (t' : Tree), pruneKids ic P done rest = some t' →
      (∃ k ∈ rest, k.kids = [] ∧ t' = pruneAt P k) ∨
      (∃ a k k' b, rest = a ++ k :: b ∧ pruneIn ic k = some k' ∧
          t' = node P.id P.own (done ++ a ++ k' :: b)) := by
  induction rest with
  | nil => intro done t' h; simp [pruneKids] at h
  | cons k rest ih =>
    intro done t' h
    rw [pruneKids] at h
    have next : pruneKids ic P (done ++ [k]) rest = some t' →
        (∃ k' ∈ k :: rest, k'.kids = [] ∧ t' = pruneAt P k') ∨
        (∃ a k₀ k' b, k :: rest = a ++ k₀ :: b ∧ pruneIn ic k₀ = some k' ∧
            t' = node P.id P.own (done ++ a ++ k' :: b)) := by
      intro h
      rcases ih _ _ h with ⟨k₁, hk₁, hl, e⟩ | ⟨a, k₀, k', b, rfl, hp, e⟩
      · exact Or.inl ⟨k₁, List.mem_cons_of_mem _ hk₁, hl, e⟩
      · exact Or.inr ⟨k :: a, k₀, k', b, rfl, hp, by simpa using e⟩
    split at h
    · rename_i hleaf
      split at h
      · exact next h
      · left
        exact ⟨k, List.mem_cons_self, (isLeaf_iff k).1 hleaf, (Option.some.inj h).symm⟩
    · split at h
      · rename_i k' hp
        right
        exact ⟨[], k, k', rest, rfl, hp, by simpa using (Option.some.inj h).symm⟩
      · exact next h

/-- induction principle for a successful `pruneIn`: either `pruneAt` is applied to the tree itself
    (for one of its children, a leaf), or the step happens inside one of the children -/
theorem pruneIn_ind (ic : Tree → Tree → Bool) (M : Tree → Tree → Prop)
    (hat : ∀ P k, k ∈ P.kids → k.kids = [] → M P (pruneAt P k))
    (hctx : ∀ i o a k k' b, pruneIn ic k = some k' → M k k' →
        M (node i o (a ++ k :: b)) (node i o (a ++ k' :: b)))
    (t t' : Tree) (h : pruneIn ic t = some t') : M t t' := by
  suffices H : ∀ n t t', size t ≤ n → pruneIn ic t = some t' → M t t' from H _ t t' (Nat.le_refl _) h
  intro n
  induction n with
  | zero => intro t t' hs; have := size_pos t; omega
  | succ n ih =>
    intro t t' hs h
    cases t with | node i o ks =>
    rw [pruneIn] at h
    rcases pruneKids_some ic _ ks [] t' h with ⟨k, hk, hl, rfl⟩ | ⟨a, k, k', b, rfl, hp, rfl⟩
    · exact hat _ k hk hl
    · have hk : size k ≤ n := by
        have : size k ≤ sizeL (a ++ k :: b) := sizeL_mem_le (by simp)
        simp only [size] at hs; omega
      simpa [id_node, own_node] using hctx i o a k k' b hp (ih k k' hk hp)

theorem idsNodup_sub {a : List Tree} {t : Tree} {b : List Tree} (h : IdsNodup (a ++ t :: b)) :
    IdsNodup [t] := by
  unfold IdsNodup at *
  rw [preL_singleton]
  simp only [preL_append, preL_cons, List.map_append] at h
  exact (List.nodup_append.1 (List.nodup_append.1 h).2.1).1

theorem idsNodup_kid {i : Nat} {o : List Nat} {a : List Tree} {k : Tree} {b : List Tree}
    (h : IdsNodup [node i o (a ++ k :: b)]) : IdsNodup [k] := by
  have h' : IdsNodup (a ++ k :: b) := by
    unfold IdsNodup at *
    rw [preL_singleton, pre] at h
    exact (List.nodup_cons.1 h).2
  exact idsNodup_sub h'

theorem pruneIn_pstep (ic : Tree → Tree → Bool) (t t' : Tree) (h : pruneIn ic t = some t')
    (hids : IdsNodup [t]) : PStep t t' := by
  revert hids
  refine pruneIn_ind ic (fun t t' => IdsNodup [t] → PStep t t') ?_ ?_ t t' h
  · intro P k hk _ hids
    exact pruneAt_pstep P k hk hids
  · intro i o a k k' b _ ih hids
    exact pstep_ctx i o a k k' b (ih (idsNodup_kid hids))

/-! ## 1. size decreases (no hypothesis on ids needed) -/

theorem sizeL_filter_le (p : Tree → Bool) (l : List Tree) : sizeL (l.filter p) ≤ sizeL l := by
  induction l with
  | nil => simp [sizeL]
  | cons t ts ih =>
    rw [List.filter_cons]; split <;> simp only [sizeL] <;> omega

theorem sizeL_filter_mem (p : Tree → Bool) (l : List Tree) (k : Tree) (hk : k ∈ l)
    (hp : p k = false) : sizeL (l.filter p) + size k ≤ sizeL l := by
  induction l with
  | nil => cases hk
  | cons t ts ih =>
    rcases List.mem_cons.1 hk with rfl | hk
    · have := sizeL_filter_le p ts
      simp only [List.filter_cons, hp, Bool.false_eq_true, if_false, sizeL]; omega
    · have := ih hk
      rw [List.filter_cons]; split <;> simp only [sizeL] <;> omega

theorem mergeInto_size (P m : Tree) (hm : m ∈ P.kids) : size (mergeInto P m) < size P := by
  have := sizeL_filter_mem (fun c => c.id != m.id) P.kids m hm (by simp)
  rw [size_eq m] at this
  rw [size_eq P]
  simp only [mergeInto, size, sizeL_append]
  omega

theorem pruneAt_size (P k : Tree) (hk : k ∈ P.kids) : size (pruneAt P k) < size P := by
  unfold pruneAt
  split
  · rename_i h2
    cases P with | node i o ks =>
    simp only [kids_node] at h2 hk
    match ks, h2 with
    | [x, y], _ =>
      simp only [kids_node, List.foldl_cons, List.foldl_nil]
      simp only [mergeInto, id_node, own_node, kids_node, size, sizeL, sizeL_append,
        List.filter_append, size_eq x, size_eq y]
      have h1 : ([x, y].filter (fun c => c.id != x.id)).filter (fun c => c.id != y.id) = [] := by
        by_cases e : y.id = x.id <;> simp [e]
      have h3 := sizeL_filter_le (fun c => c.id != y.id) x.kids
      rw [h1]
      simp only [sizeL]
      omega
  · exact mergeInto_size P k hk

theorem sizeL_replace {a : List Tree} {k k' : Tree} {b : List Tree} (h : size k' < size k) :
    sizeL (a ++ k' :: b) < sizeL (a ++ k :: b) := by
  simp only [sizeL_append, sizeL]; omega

theorem pruneIn_size (ic : Tree → Tree → Bool) (t t' : Tree) (h : pruneIn ic t = some t') :
    Tree.size t' < Tree.size t := by
  refine pruneIn_ind ic (fun t t' => size t' < size t) ?_ ?_ t t' h
  · intro P k hk _
    exact pruneAt_size P k hk
  · intro i o a k k' b _ ih
    have := sizeL_replace (a := a) (b := b) ih
    simp only [size]; omega

/-! ## shape of a successful forest scan -/

theorem pruneIn_leaf (ic : Tree → Tree → Bool) (t : Tree) (h : t.isLeaf = true) :
    pruneIn ic t = none := by
  cases t with | node i o ks =>
  have : ks = [] := (isLeaf_iff _).1 h
  subst this
  simp [pruneIn, pruneKids]

theorem pruneForest_some (ic : Tree → Tree → Bool) (f : List Tree) :
    ∀ (done f' : List Tree), pruneForest ic done f = some f' →
      ∃ a t t' b, f = a ++ t :: b ∧ f' = done ++ a ++ t' :: b ∧ pruneIn ic t = some t' := by
  induction f with
  | nil => intro done f' h; simp [pruneForest] at h
  | cons t rest ih =>
    intro done f' h
    rw [pruneForest] at h
    have next : pruneForest ic (done ++ [t]) rest = some f' →
        ∃ a t₀ t' b, t :: rest = a ++ t₀ :: b ∧ f' = done ++ a ++ t' :: b ∧
          pruneIn ic t₀ = some t' := by
      intro h
      obtain ⟨a, t₀, t', b, rfl, e, hp⟩ := ih _ _ h
      exact ⟨t :: a, t₀, t', b, rfl, by simpa using e, hp⟩
    split at h
    · exact next h
    · split at h
      · rename_i t' hp
        exact ⟨[], t, t', rest, rfl, by simpa using (Option.some.inj h).symm, hp⟩
      · exact next h

theorem pruneForest_size' (ic : Tree → Tree → Bool) (done f f' : List Tree)
    (h : pruneForest ic done f = some f') : Tree.sizeL f' < Tree.sizeL (done ++ f) := by
  obtain ⟨a, t, t', b, rfl, rfl, hp⟩ := pruneForest_some ic f done f' h
  have := pruneIn_size ic t t' hp
  simp only [sizeL_append, sizeL]; omega

theorem pruneForest_size (ic : Tree → Tree → Bool) (done f f' : List Tree)
    (h : pruneForest ic done f = some f') (hids : IdsNodup (done ++ f)) :
    Tree.sizeL f' < Tree.sizeL (done ++ f) :=
  have _ := hids
  pruneForest_size' ic done f f' h

/-! ## 2. identifier and pixels of the root -/

theorem pruneIn_id (ic : Tree → Tree → Bool) (t t' : Tree) (h : pruneIn ic t = some t') :
    t'.id = t.id := by
  refine pruneIn_ind ic (fun t t' => t'.id = t.id) ?_ ?_ t t' h
  · intro P k _ _
    unfold pruneAt
    have hm : ∀ Q m, (mergeInto Q m).id = Q.id := fun _ _ => rfl
    have hf : ∀ (l : List Tree) Q, (l.foldl mergeInto Q).id = Q.id := by
      intro l
      induction l with
      | nil => intro Q; rfl
      | cons m l ih => intro Q; rw [List.foldl_cons, ih, hm]
    split
    · exact hf _ _
    · rfl
  · intros; rfl

theorem pruneIn_pixels (ic : Tree → Tree → Bool) (t t' : Tree) (h : pruneIn ic t = some t')
    (hids : IdsNodup [t]) : t'.pixels.Perm t.pixels :=
  (pruneIn_pstep ic t t' h hids).pix

theorem pruneForest_pixels (ic : Tree → Tree → Bool) (f f' : List Tree)
    (h : pruneForest ic [] f = some f') (hids : IdsNodup f) :
    (Tree.pixelsL f').Perm (Tree.pixelsL f) := by
  obtain ⟨a, t, t', b, rfl, rfl, hp⟩ := pruneForest_some ic f [] f' h
  have := pruneIn_pixels ic t t' hp (idsNodup_sub hids)
  simp only [List.nil_append, pixelsL_append, pixelsL]
  exact List.Perm.append_left _ (this.append_right _)

/-! ## 3. surviving structures keep identifier and region; ids only disappear -/

theorem pruneIn_regions (ic : Tree → Tree → Bool) (t t' : Tree) (h : pruneIn ic t = some t')
    (hids : IdsNodup [t]) :
    ∀ s' ∈ Tree.preL [t'], ∃ s ∈ Tree.preL [t], s.id = s'.id ∧ s'.pixels.Perm s.pixels := by
  simp only [preL_singleton]
  exact (pruneIn_pstep ic t t' h hids).reg

theorem pruneForest_regions (ic : Tree → Tree → Bool) (f f' : List Tree)
    (h : pruneForest ic [] f = some f') (hids : IdsNodup f) :
    ∀ s' ∈ Tree.preL f', ∃ s ∈ Tree.preL f, s.id = s'.id ∧ s'.pixels.Perm s.pixels := by
  obtain ⟨a, t, t', b, rfl, rfl, hp⟩ := pruneForest_some ic f [] f' h
  have hr := (pruneIn_pstep ic t t' hp (idsNodup_sub hids)).reg
  intro s' hs'
  simp only [List.nil_append, preL_append, preL_cons, List.mem_append] at hs' ⊢
  rcases hs' with h' | h' | h'
  · exact ⟨s', Or.inl h', rfl, List.Perm.refl _⟩
  · obtain ⟨s, hs, e, p⟩ := hr s' h'
    exact ⟨s, Or.inr (Or.inl hs), e, p⟩
  · exact ⟨s', Or.inr (Or.inr h'), rfl, List.Perm.refl _⟩

theorem pruneForest_ids_sublist (ic : Tree → Tree → Bool) (f f' : List Tree)
    (h : pruneForest ic [] f = some f') (hids : IdsNodup f) :
    ∀ i ∈ (Tree.preL f').map Tree.id, i ∈ (Tree.preL f).map Tree.id := by
  intro i hi
  obtain ⟨s', hs', rfl⟩ := List.mem_map.1 hi
  obtain ⟨s, hs, e, _⟩ := pruneForest_regions ic f f' h hids s' hs'
  exact List.mem_map.2 ⟨s, hs, e⟩

/-- the ids after a step, together with the removed ones, are the ids before -/
theorem pruneForest_ids_perm (ic : Tree → Tree → Bool) (f f' : List Tree)
    (h : pruneForest ic [] f = some f') (hids : IdsNodup f) :
    ∃ r, ((Tree.preL f').map Tree.id ++ r).Perm ((Tree.preL f).map Tree.id) := by
  obtain ⟨a, t, t', b, rfl, rfl, hp⟩ := pruneForest_some ic f [] f' h
  obtain ⟨r, p⟩ := (pruneIn_pstep ic t t' hp (idsNodup_sub hids)).idsr
  refine ⟨r, ?_⟩
  simp only [List.nil_append, preL_append, preL_cons, List.map_append, List.append_assoc]
  refine List.Perm.append_left _ ?_
  refine List.Perm.trans ?_ (p.append_right _)
  simp only [List.append_assoc]
  exact List.Perm.append_left _ List.perm_append_comm

theorem pruneIn_idsNodup (ic : Tree → Tree → Bool) (t t' : Tree) (h : pruneIn ic t = some t')
    (hids : IdsNodup [t]) : IdsNodup [t'] :=
  (pruneIn_pstep ic t t' h hids).idsNodup hids

theorem pruneForest_idsNodup (ic : Tree → Tree → Bool) (f f' : List Tree)
    (h : pruneForest ic [] f = some f') (hids : IdsNodup f) : IdsNodup f' := by
  obtain ⟨r, p⟩ := pruneForest_ids_perm ic f f' h hids
  exact (List.nodup_append.1 (p.nodup_iff.2 hids)).1

/-! ## 4. arity -/

theorem pruneAt_arity (P k : Tree) (hk : k ∈ P.kids) (hl : k.kids = []) (hids : IdsNodup [P])
    (ha : ∀ s ∈ pre P, PArity s) : ∀ s ∈ pre (pruneAt P k), PArity s := by
  have hsub : ∀ s ∈ preL (pruneAt P k).kids, PArity s := by
    intro s hs
    -- the very same subtree occurs in `P` : use the shapes
    rcases pruneAt_cases P k hk hids with ⟨i, o, a, b, rfl, _, e⟩ | ⟨i, o, x, y, rfl, e⟩
    · rw [e] at hs
      apply ha s
      refine mem_pre.2 (Or.inr ?_)
      simp only [kids_node, preL_append, List.mem_append, hl, preL] at hs ⊢
      rcases hs with (h | h) | h
      · exact Or.inl h
      · exact Or.inr (Or.inr h)
      · cases h
    · rw [e] at hs
      apply ha s
      refine mem_pre.2 (Or.inr ?_)
      simp only [kids_node, preL_append, preL_cons, List.mem_append, preL, List.append_nil] at hs ⊢
      rcases hs with h | h
      · exact Or.inl (mem_pre.2 (Or.inr h))
      · exact Or.inr (mem_pre.2 (Or.inr h))
  intro s hs
  rcases mem_pre.1 hs with rfl | hs
  · rcases pruneAt_cases P k hk hids with ⟨i, o, a, b, rfl, h2, e⟩ | ⟨i, o, x, y, rfl, e⟩
    · have hP := ha _ (self_mem_pre _)
      rw [e]
      unfold PArity at *
      simp only [kids_node, hl, List.append_nil, List.length_append, List.length_cons] at *
      right
      rcases hP with hP | hP
      · simp at hP
      · omega
    · rw [e]
      have hx := ha x (kid_mem_pre (by simp [kids_node]))
      have hy := ha y (kid_mem_pre (by simp [kids_node]))
      unfold PArity at *
      simp only [kids_node, List.mem_cons, List.not_mem_nil, or_false] at hk ⊢
      rcases hk with rfl | rfl
      · simpa [hl] using hy
      · simpa [hl] using hx
  · exact hsub s hs

theorem pruneIn_arity' (ic : Tree → Tree → Bool) (t t' : Tree) (h : pruneIn ic t = some t')
    (hids : IdsNodup [t]) (ha : ∀ s ∈ pre t, PArity s) : ∀ s ∈ pre t', PArity s := by
  revert hids ha
  refine pruneIn_ind ic
    (fun t t' => IdsNodup [t] → (∀ s ∈ pre t, PArity s) → ∀ s ∈ pre t', PArity s) ?_ ?_ t t' h
  · intro P k hk hl hids ha
    exact pruneAt_arity P k hk hl hids ha
  · intro i o a k k' b _ ih hids ha s hs
    have hk' := ih (idsNodup_kid hids) (fun s hs => ha s (mem_pre.2 (Or.inr (by
      simp only [kids_node, preL_append, preL_cons, List.mem_append]; exact Or.inr (Or.inl hs)))))
    rcases mem_pre.1 hs with rfl | hs
    · have := ha _ (self_mem_pre _)
      unfold PArity at *
      simp only [kids_node, List.length_append, List.length_cons] at *
      rcases this with h0 | h0
      · simp at h0
      · exact Or.inr h0
    · simp only [kids_node, preL_append, preL_cons, List.mem_append] at hs
      rcases hs with h' | h' | h'
      · exact ha s (mem_pre.2 (Or.inr (by
          simp only [kids_node, preL_append, preL_cons, List.mem_append]; exact Or.inl h')))
      · exact hk' s h'
      · exact ha s (mem_pre.2 (Or.inr (by
          simp only [kids_node, preL_append, preL_cons, List.mem_append]; exact Or.inr (Or.inr h'))))

theorem pruneIn_arity (ic : Tree → Tree → Bool) (t t' : Tree) (h : pruneIn ic t = some t')
    (hids : IdsNodup [t]) (ha : ∀ s ∈ Tree.preL [t], PArity s) :
    ∀ s ∈ Tree.preL [t'], PArity s := by
  simp only [preL_singleton] at *
  exact pruneIn_arity' ic t t' h hids ha

theorem pruneForest_arity (ic : Tree → Tree → Bool) (f f' : List Tree)
    (h : pruneForest ic [] f = some f') (hids : IdsNodup f) (ha : ∀ s ∈ Tree.preL f, PArity s) :
    ∀ s ∈ Tree.preL f', PArity s := by
  obtain ⟨a, t, t', b, rfl, rfl, hp⟩ := pruneForest_some ic f [] f' h
  have hk := pruneIn_arity' ic t t' hp (idsNodup_sub hids) (fun s hs => ha s (by
    simp only [preL_append, preL_cons, List.mem_append]; exact Or.inr (Or.inl hs)))
  intro s hs
  simp only [List.nil_append, preL_append, preL_cons, List.mem_append] at hs
  rcases hs with h' | h' | h'
  · exact ha s (by simp only [preL_append, preL_cons, List.mem_append]; exact Or.inl h')
  · exact hk s h'
  · exact ha s (by simp only [preL_append, preL_cons, List.mem_append]; exact Or.inr (Or.inr h'))

/-! ## 6. meaning of `none` -/

theorem pruneKids_none (ic : Tree → Tree → Bool) (P : Tree) (rest : List Tree) :
    ∀ done, pruneKids ic P done rest = none ↔
      ∀ k ∈ rest, (k.kids = [] → ic P k = true) ∧ (k.kids ≠ [] → pruneIn ic k = none) := by
  induction rest with
  | nil => intro done; simp [pruneKids]
  | cons k rest ih =>
    intro done
    rw [pruneKids]
    simp only [List.mem_cons, forall_eq_or_imp]
    by_cases hl : k.isLeaf = true
    · have hk : k.kids = [] := (isLeaf_iff k).1 hl
      simp only [hl, if_true, hk, ne_eq, not_true_eq_false, false_implies, and_true, true_implies]
      by_cases hc : ic P k = true
      · simp only [hc, if_true, true_and]; exact ih _
      · simp [hc]
    · have hk : k.kids ≠ [] := fun e => hl ((isLeaf_iff k).2 e)
      simp only [hl, Bool.false_eq_true, if_false, hk, ne_eq, not_false_eq_true, true_implies,
        false_implies, true_and]
      cases hp : pruneIn ic k with
      | none => simp only [true_and]; exact ih _
      | some k' => simp

theorem pruneIn_none_iff (ic : Tree → Tree → Bool) (t : Tree) :
    pruneIn ic t = none ↔ ∀ P ∈ pre t, ∀ L ∈ P.kids, L.kids = [] → ic P L = true := by
  suffices H : ∀ n t, size t ≤ n →
      (pruneIn ic t = none ↔ ∀ P ∈ pre t, ∀ L ∈ P.kids, L.kids = [] → ic P L = true) from
    H _ t (Nat.le_refl _)
  intro n
  induction n with
  | zero => intro t hs; have := size_pos t; omega
  | succ n ih =>
    intro t hs
    cases t with | node i o ks =>
    rw [pruneIn, pruneKids_none]
    have hsz : ∀ k ∈ ks, size k ≤ n := by
      intro k hk
      have := sizeL_mem_le hk
      simp only [size] at hs; omega
    constructor
    · intro h P hP L hL hleaf
      rcases mem_pre.1 hP with rfl | hP
      · exact (h L hL).1 hleaf
      · obtain ⟨k, hk, hPk⟩ := mem_preL.1 hP
        by_cases hkl : k.kids = []
        · rw [pre_eq, hkl] at hPk
          simp only [preL, List.mem_singleton] at hPk
          subst hPk
          rw [hkl] at hL; cases hL
        · exact (ih k (hsz k hk)).1 ((h k hk).2 hkl) P hPk L hL hleaf
    · intro h k hk
      refine ⟨fun hleaf => h _ (self_mem_pre _) k hk hleaf, fun _ => ?_⟩
      rw [ih k (hsz k hk)]
      intro P hP
      exact h P (mem_pre.2 (Or.inr (mem_preL.2 ⟨k, hk, hP⟩)))

theorem pruneForest_none (ic : Tree → Tree → Bool) (f : List Tree) :
    ∀ done, pruneForest ic done f = none ↔ ∀ t ∈ f, pruneIn ic t = none := by
  induction f with
  | nil => intro done; simp [pruneForest]
  | cons t rest ih =>
    intro done
    rw [pruneForest]
    simp only [List.mem_cons, forall_eq_or_imp]
    by_cases hl : t.isLeaf = true
    · simp only [hl, if_true, pruneIn_leaf ic t hl, true_and]; exact ih _
    · simp only [hl, Bool.false_eq_true, if_false]
      cases hp : pruneIn ic t with
      | none => simp only [true_and]; exact ih _
      | some t' => simp

theorem pruneForest_none_iff (ic : Tree → Tree → Bool) (f : List Tree) :
    pruneForest ic [] f = none ↔
      ∀ P ∈ Tree.preL f, ∀ L ∈ P.kids, L.kids = [] → ic P L = true := by
  rw [pruneForest_none]
  simp only [pruneIn_none_iff]
  constructor
  · intro h P hP
    obtain ⟨t, ht, hPt⟩ := mem_preL.1 hP
    exact h t ht P hPt
  · intro h t ht P hP
    exact h P (mem_preL.2 ⟨t, ht, hP⟩)

/-! ## 5. the loop -/

theorem pruneLoop_idsNodup (ic : Tree → Tree → Bool) (n : Nat) (f : List Tree)
    (hids : IdsNodup f) : IdsNodup (pruneLoop ic n f) := by
  induction n generalizing f with
  | zero => exact hids
  | succ n ih =>
    rw [pruneLoop]
    cases hp : pruneForest ic [] f with
    | none => exact hids
    | some f' => exact ih f' (pruneForest_idsNodup ic f f' hp hids)

theorem pruneLoop_fixpoint_of_le (ic : Tree → Tree → Bool) (n : Nat) (f : List Tree)
    (hn : Tree.sizeL f ≤ n) : pruneForest ic [] (pruneLoop ic n f) = none := by
  induction n generalizing f with
  | zero =>
    rw [pruneLoop]
    cases hp : pruneForest ic [] f with
    | none => rfl
    | some f' => have := pruneForest_size' ic [] f f' hp; simp at this; omega
  | succ n ih =>
    rw [pruneLoop]
    cases hp : pruneForest ic [] f with
    | none => exact hp
    | some f' =>
      have := pruneForest_size' ic [] f f' hp
      simp only [List.nil_append] at this
      exact ih f' (by omega)

theorem pruneLoop_fixpoint (ic : Tree → Tree → Bool) (f : List Tree) (hids : IdsNodup f) :
    pruneForest ic [] (pruneLoop ic (Tree.sizeL f) f) = none :=
  have _ := hids
  pruneLoop_fixpoint_of_le ic _ f (Nat.le_refl _)

theorem pruneLoop_pixels (ic : Tree → Tree → Bool) (n : Nat) (f : List Tree) (hids : IdsNodup f) :
    (Tree.pixelsL (pruneLoop ic n f)).Perm (Tree.pixelsL f) := by
  induction n generalizing f with
  | zero => exact List.Perm.refl _
  | succ n ih =>
    rw [pruneLoop]
    cases hp : pruneForest ic [] f with
    | none => exact List.Perm.refl _
    | some f' =>
      exact (ih f' (pruneForest_idsNodup ic f f' hp hids)).trans (pruneForest_pixels ic f f' hp hids)

theorem pruneLoop_regions (ic : Tree → Tree → Bool) (n : Nat) (f : List Tree) (hids : IdsNodup f) :
    ∀ s' ∈ Tree.preL (pruneLoop ic n f),
      ∃ s ∈ Tree.preL f, s.id = s'.id ∧ s'.pixels.Perm s.pixels := by
  induction n generalizing f with
  | zero => intro s' hs'; exact ⟨s', hs', rfl, List.Perm.refl _⟩
  | succ n ih =>
    rw [pruneLoop]
    cases hp : pruneForest ic [] f with
    | none => intro s' hs'; exact ⟨s', hs', rfl, List.Perm.refl _⟩
    | some f' =>
      intro s'' hs''
      obtain ⟨s', hs', e', p'⟩ := ih f' (pruneForest_idsNodup ic f f' hp hids) s'' hs''
      obtain ⟨s, hs, e, p⟩ := pruneForest_regions ic f f' hp hids s' hs'
      exact ⟨s, hs, e.trans e', p'.trans p⟩

theorem pruneLoop_arity (ic : Tree → Tree → Bool) (n : Nat) (f : List Tree) (hids : IdsNodup f)
    (ha : ∀ s ∈ Tree.preL f, PArity s) : ∀ s ∈ Tree.preL (pruneLoop ic n f), PArity s := by
  induction n generalizing f with
  | zero => exact ha
  | succ n ih =>
    rw [pruneLoop]
    cases hp : pruneForest ic [] f with
    | none => exact ha
    | some f' =>
      exact ih f' (pruneForest_idsNodup ic f f' hp hids) (pruneForest_arity ic f f' hp hids ha)

/-! ## 7. the trunk step -/

theorem makeTrunkP_leaves_pass (io : Tree → Bool) (f : List Tree) :
    ∀ t ∈ makeTrunkP io f, t.kids = [] → io t = true := by
  intro t ht hl
  unfold makeTrunkP at ht
  have := (List.mem_filter.1 ht).2
  simpa [isLeaf, hl] using this

theorem makeTrunkP_sub (io : Tree → Bool) (f : List Tree) : ∀ t ∈ makeTrunkP io f, t ∈ f := by
  intro t ht
  unfold makeTrunkP at ht
  exact mem_sortById.1 (List.mem_filter.1 ht).1

/-! ## 8. no-op and idempotence -/

theorem pruneLoop_of_none (ic : Tree → Tree → Bool) (n : Nat) (f : List Tree)
    (h : pruneForest ic [] f = none) : pruneLoop ic n f = f := by
  cases n with
  | zero => rfl
  | succ n => rw [pruneLoop, h]

theorem prune_noop (ic : Tree → Tree → Bool) (io : Tree → Bool) (f : List Tree)
    (hfix : pruneForest ic [] f = none) (hio : ∀ t ∈ f, t.kids = [] → io t = true) :
    prune ic io f = sortById f := by
  unfold prune makeTrunkP
  rw [pruneLoop_of_none ic _ f hfix, List.filter_eq_self]
  intro t ht
  have := hio t (mem_sortById.1 ht)
  by_cases hl : t.kids = []
  · simp [this hl]
  · simp [isLeaf, hl]

namespace PruneP
/-- sortedness by id -/
def SortedById (l : List Tree) : Prop := l.Pairwise (fun a b => a.id ≤ b.id)

theorem insertById_sorted (t : Tree) (l : List Tree) (h : SortedById l) :
    SortedById (insertById t l) := by
  unfold SortedById at *
  induction l with
  | nil => simp [insertById]
  | cons u us ih =>
    rw [insertById]
    split
    · rename_i hle
      refine List.pairwise_cons.2 ⟨?_, h⟩
      intro b hb
      rcases List.mem_cons.1 hb with rfl | hb
      · exact hle
      · exact Nat.le_trans hle ((List.pairwise_cons.1 h).1 b hb)
    · rename_i hle
      have h' := List.pairwise_cons.1 h
      refine List.pairwise_cons.2 ⟨?_, ih h'.2⟩
      intro b hb
      rcases List.mem_cons.1 ((insertById_perm t us).mem_iff.1 hb) with rfl | hb
      · omega
      · exact h'.1 b hb

theorem sortById_sorted (l : List Tree) : SortedById (sortById l) := by
  induction l with
  | nil => simp [sortById, SortedById]
  | cons t ts ih => exact insertById_sorted t _ ih

/-- sorting a list already sorted by id changes nothing (ties keep their order) -/
theorem sortById_of_sorted (l : List Tree) (h : SortedById l) : sortById l = l := by
  unfold SortedById at h
  induction l with
  | nil => rfl
  | cons t ts ih =>
    have h' := List.pairwise_cons.1 h
    rw [sortById, ih h'.2]
    cases ts with
    | nil => rfl
    | cons u us => rw [insertById, if_pos (h'.1 u List.mem_cons_self)]

theorem sortById_idem (l : List Tree) : sortById (sortById l) = sortById l :=
  sortById_of_sorted _ (sortById_sorted l)

end PruneP

theorem makeTrunkP_idem (io : Tree → Bool) (f : List Tree) :
    makeTrunkP io (makeTrunkP io f) = makeTrunkP io f := by
  unfold makeTrunkP
  rw [sortById_of_sorted _ ((sortById_sorted f).filter _), List.filter_filter]
  simp

/-- the result of `prune` is a fixpoint of the scan, whatever the forest -/
theorem prune_fixpoint (ic : Tree → Tree → Bool) (io : Tree → Bool) (f : List Tree) :
    pruneForest ic [] (prune ic io f) = none := by
  have hfix := pruneLoop_fixpoint_of_le ic _ f (Nat.le_refl _)
  rw [pruneForest_none_iff] at hfix ⊢
  intro P hP
  obtain ⟨t, ht, hPt⟩ := mem_preL.1 hP
  exact hfix P (mem_preL.2 ⟨t, makeTrunkP_sub io _ t ht, hPt⟩)

/-- idempotence holds for every forest -/
theorem prune_idempotent' (ic : Tree → Tree → Bool) (io : Tree → Bool) (f : List Tree) :
    prune ic io (prune ic io f) = prune ic io f := by
  have h := prune_fixpoint ic io f
  rw [prune.eq_1 ic io (prune ic io f), pruneLoop_of_none ic _ _ h]
  unfold prune
  exact makeTrunkP_idem io _

theorem prune_idempotent (ic : Tree → Tree → Bool) (io : Tree → Bool) (f : List Tree)
    (hids : IdsNodup f) : prune ic io (prune ic io f) = prune ic io f :=
  have _ := hids
  prune_idempotent' ic io f

/-! ## 9. parameters never decrease -/

theorem pruneParam_monotone (recorded req : Int) : recorded ≤ (pruneParam recorded req).2 := by
  simp only [pruneParam]
  split <;> omega

theorem pruneParam_effective (recorded req : Int)
    (h : recorded ≤ (pruneParam recorded req).1) :
    (pruneParam recorded req).2 = (pruneParam recorded req).1 := by
  simp only [pruneParam] at *
  rw [if_neg (by omega)]

theorem pruneParam_zero_inherits (recorded : Int) : pruneParam recorded 0 = (recorded, recorded) := by
  simp [pruneParam]
