import ADProofs.HeapRefine
import ADProofs.PruneProofs

/-!
# PruneLoopRefine (P41): the `_to_prune` loop on the object heap refines `pruneLoop` on trees

`P35.prune_refines` relates `Heap.prune h ms` to the tree model for an *arbitrary* legal merge list `ms`.
The code (dendrogram.py:598-612, 785-827) does not take a list: `_to_prune` *finds* the next structure by
scanning `all_structures`, the caller applies the two-sibling rule, and the scan restarts.

A. model of the loop on the heap, as the code runs it (executable, definitions first):
   `prefixIds` (`all_structures`, the `todo = st.children + todo` work-list), `cand` (the four tests of
   `_to_prune`), `scanFirstFrom` / `scanFirst` (the structure yielded), `mergeList` (two-sibling rule),
   `stepH`, `loopStepFrom` / `loopStep`, `loopRunFrom` / `loopRun`, `loopMergesFrom` / `loopMerges`.
   The `…From` versions take the trunk list `roots` as a parameter (`dendrogram.trunk` is not reassigned
   inside the loop; `pruneForest` scans the forest in the order given), the others read it off the heap
   (`P35.rootsOf`).  `Trunk h roots` : `roots` is a duplicate-free list of alive parentless objects.
   The criterion is a function of the CURRENT heap and an identifier (`ic : Heap → Nat → Bool`);
   `icOf icT h i = icT (absT h h.size p) (absT h h.size i)` (`p` the parent of `i` in `h`) is a tree-level
   criterion read on the current heap.  With a criterion frozen on the initial heap the refinement is false
   (`h3`, counterexample at the end).
B. theorems (`WF h`, `Trunk h roots`):
   0. `prefixIds_refines` : `prefixIds h h.size roots = (preL (absF h h.size roots)).map Tree.id`
      (`prefixIds_eq` : any sufficient fuel; `absF_idsNodup` : the abstracted forest has distinct ids);
   1. `scan_none`, `scan_some`, `loopStep_refines` (`loopStep_refines'` for `rootsOf`) : `scanFirst` finds the
      leaf `pruneForest` acts on and `pruneForest … = (loopStep …).map absF`;  the core is `scanKids` /
      `scanIn` / `scanRoots` (scan of a child list / a sub-tree / the trunk list, any sufficient fuel);
   2. `loopRunFrom_refines`, `loopRun_refines` (MAIN) : `absF (loopRun n h (icOf icT)) … = pruneLoop icT n (absF h …)`
      for every `n`;  `loopRun_fixpoint` (`h.size - 1` rounds suffice, then `scanFirst = none`),
      `prune_eq_loopRun` (`ADModel.Prune.prune`), `heap_prune_refines` (`Heap.prune` with the merges found);
   3. `loopStep_inv`, `loopRunFrom_inv`, `mergeList_legal`, `loopMergesFrom_legal`, `loopRun_legal` : each round
      keeps `WF` and `Trunk`, its merges are `Legal`, the whole run is `foldl mergeWithParent` over the legal
      list `loopMerges`; so `P35.prune_refines` and `P17.prune_sound` apply (`heap_prune_refines`).
Non-vacuity: `h2` (two rounds: one merge of a single leaf, one two-sibling merge), `P35.h1` (three rounds).

Remark (both models alike): for a parent with exactly ONE child the Python caller leaves `merge` unbound /
stale (`len(siblings)` is neither `== 2` nor `> 2`); `pruneAt` and `mergeList` merge the leaf alone.
-/

namespace P41
open Heap Tree P17 P35

/-! ## A. the loop as the code runs it, on the object heap -/

/-- `struct.children` (empty for a missing object) -/
def kidsOf (h : Heap) (i : Nat) : List Nat := ((h.get i).map (·.kids)).getD []

/-- `struct.parent` -/
def parentOf (h : Heap) (i : Nat) : Option Nat := (h.get i).bind (·.parent)

/-- `Dendrogram.all_structures` : `todo = list(trunk); while todo: st = todo.pop(0); yield st;
    todo = st.children + todo`.  `fuel` bounds the number of `pop`s. -/
def prefixIds (h : Heap) : Nat → List Nat → List Nat
  | 0, _ => []
  | _ + 1, [] => []
  | fuel + 1, i :: todo => i :: prefixIds h fuel (kidsOf h i ++ todo)

/-- the four tests of `_to_prune`, negated: `struct.is_leaf`, `struct.idx in keep_structures`,
    `not is_independent(struct)`, `struct.parent is not None` -/
def cand (h : Heap) (ic : Nat → Bool) (i : Nat) : Bool :=
  (kidsOf h i).isEmpty && h.alive.contains i && !ic i && (parentOf h i).isSome

/-- one pass of the `for struct in dendrogram.all_structures` loop of `_to_prune` over the trunk
    list `roots` : the structure that is yielded, if any -/
def scanFirstFrom (h : Heap) (roots : List Nat) (ic : Nat → Bool) : Option Nat :=
  (prefixIds h h.size roots).find? (cand h ic)

/-- the caller's `merge` list: both children when the parent has exactly two, else the leaf -/
def mergeList (h : Heap) (i : Nat) : List Nat :=
  match parentOf h i with
  | none => []
  | some p => if (kidsOf h p).length = 2 then kidsOf h p else [i]

/-- `for m in merge: _merge_with_parent(m); del keep_structures[m.idx]` -/
def stepH (h : Heap) (i : Nat) : Heap := (mergeList h i).foldl Heap.mergeWithParent h

/-- one round of `for struct in _to_prune(...)` : `none` when the generator returns -/
def loopStepFrom (h : Heap) (roots : List Nat) (ic : Nat → Bool) : Option Heap :=
  (scanFirstFrom h roots ic).map (stepH h)

/-- the loop; the criterion reads the *current* heap (`is_independent(struct)` reads the live
    fields of `struct` and of `struct.parent`); `dendrogram.trunk` is not reassigned in the loop -/
def loopRunFrom (roots : List Nat) (ic : Heap → Nat → Bool) : Nat → Heap → Heap
  | 0, h => h
  | n + 1, h =>
    match loopStepFrom h roots (ic h) with
    | none => h
    | some h' => loopRunFrom roots ic n h'

/-- the merges the loop performs, in order -/
def loopMergesFrom (roots : List Nat) (ic : Heap → Nat → Bool) : Nat → Heap → List Nat
  | 0, _ => []
  | n + 1, h =>
    match scanFirstFrom h roots (ic h) with
    | none => []
    | some i => mergeList h i ++ loopMergesFrom roots ic n (stepH h i)

/-- the versions with the trunk read off the heap -/
def scanFirst (h : Heap) (ic : Nat → Bool) : Option Nat := scanFirstFrom h (rootsOf h) ic
def loopStep (h : Heap) (ic : Nat → Bool) : Option Heap := loopStepFrom h (rootsOf h) ic
def loopRun (fuel : Nat) (h : Heap) (ic : Heap → Nat → Bool) : Heap := loopRunFrom (rootsOf h) ic fuel h
def loopMerges (fuel : Nat) (h : Heap) (ic : Heap → Nat → Bool) : List Nat :=
  loopMergesFrom (rootsOf h) ic fuel h

/-- a tree-level criterion (parent tree, leaf tree) evaluated on the current heap -/
def icOf (icT : Tree → Tree → Bool) (h : Heap) (i : Nat) : Bool :=
  match parentOf h i with
  | none => true
  | some p => icT (absT h h.size p) (absT h h.size i)

/-- the trunk list: distinct alive parentless objects -/
structure Trunk (h : Heap) (roots : List Nat) : Prop where
  nodup : roots.Nodup
  alive : ∀ r ∈ roots, r ∈ h.alive
  noparent : ∀ r ∈ roots, parentOf h r = none

/-! ## basic facts -/

theorem kidsOf_eq {h : Heap} {i : Nat} {o : Obj} (hg : h.get i = some o) : kidsOf h i = o.kids := by
  simp [kidsOf, hg]

theorem parentOf_eq {h : Heap} {i : Nat} {o : Obj} (hg : h.get i = some o) : parentOf h i = o.parent := by
  simp [parentOf, hg]

theorem parentOf_split {h : Heap} {m p : Nat} (hp : parentOf h m = some p) :
    ∃ mo, h.get m = some mo ∧ mo.parent = some p := parent_split hp

theorem trunk_rootsOf {h : Heap} (w : WF h) : Trunk h (rootsOf h) :=
  ⟨w.alive_nodup.filter _, fun _ hr => (mem_rootsOf.1 hr).1, fun _ hr => (mem_rootsOf.1 hr).2⟩

theorem cand_iff {h : Heap} {ic : Nat → Bool} {i : Nat} :
    cand h ic i = true ↔ kidsOf h i = [] ∧ i ∈ h.alive ∧ ic i = false ∧ parentOf h i ≠ none := by
  simp [cand, List.isEmpty_iff, Option.isSome_iff_ne_none, and_assoc]

theorem mergeList_eq {h : Heap} {i p : Nat} {po : Obj} (hp : parentOf h i = some p) (hgp : h.get p = some po) :
    mergeList h i = if po.kids.length = 2 then po.kids else [i] := by
  simp [mergeList, hp, kidsOf_eq hgp]

theorem foldl_merge_size (ms : List Nat) (h : Heap) : (ms.foldl Heap.mergeWithParent h).size = h.size := by
  induction ms generalizing h with
  | nil => rfl
  | cons m ms ih => simp only [List.foldl_cons, ih, merge_size]

theorem stepH_size (h : Heap) (i : Nat) : (stepH h i).size = h.size := foldl_merge_size _ _

/-! ## what a step into parent `p` leaves alone -/

/-- own pixels and child list of every object other than `p` are the same in `h'` as in `h` -/
def Local (h h' : Heap) (p : Nat) : Prop :=
  ∀ x, x ≠ p → (h'.get x).map (fun o => (o.own, o.kids)) = (h.get x).map (fun o => (o.own, o.kids))

theorem Local.refl (h : Heap) (p : Nat) : Local h h p := fun _ _ => rfl

theorem Local.trans {h h' h'' : Heap} {p : Nat} (a : Local h h' p) (b : Local h' h'' p) : Local h h'' p :=
  fun x hx => (b x hx).trans (a x hx)

theorem Local.get_some {h h' : Heap} {p x : Nat} {o : Obj} (l : Local h h' p) (hx : x ≠ p)
    (hg : h.get x = some o) : ∃ o', h'.get x = some o' ∧ o'.own = o.own ∧ o'.kids = o.kids := by
  have := l x hx
  rw [hg] at this
  cases hg' : h'.get x with
  | none => simp [hg'] at this
  | some o' =>
    simp only [hg', Option.map_some, Option.some.injEq, Prod.mk.injEq] at this
    exact ⟨o', rfl, this.1, this.2⟩

theorem Local.get_none {h h' : Heap} {p x : Nat} (l : Local h h' p) (hx : x ≠ p)
    (hg : h.get x = none) : h'.get x = none := by
  have := l x hx
  rw [hg] at this
  cases hg' : h'.get x with
  | none => rfl
  | some o' => simp [hg'] at this

/-- a sub-tree that does not contain `p` has the same abstraction -/
theorem Local.unchanged {h h' : Heap} {p : Nat} (l : Local h h' p) (n x : Nat) (hx : ¬ Down h x p) :
    absT h' n x = absT h n x := by
  induction n generalizing x with
  | zero => rfl
  | succ n ih =>
    have hxp : x ≠ p := fun e => hx (e ▸ .refl x)
    cases hg : h.get x with
    | none => rw [absT_succ_none n hg, absT_succ_none n (l.get_none hxp hg)]
    | some o =>
      obtain ⟨o', hg', ho, hk⟩ := l.get_some hxp hg
      rw [absT_succ_some n hg, absT_succ_some n hg', ho, hk]
      congr 1
      apply List.map_congr_left
      intro c hc
      exact ih c (fun d => hx (.step hg hc d))

/-- every object other than `p` is assembled from its children's new abstractions -/
theorem Local.step {h h' : Heap} {p : Nat} (l : Local h h' p) (n : Nat) {x : Nat} (hx : x ≠ p) {o : Obj}
    (hg : h.get x = some o) : absT h' (n + 1) x = .node x o.own (o.kids.map (absT h' n)) := by
  obtain ⟨o', hg', ho, hk⟩ := l.get_some hx hg
  rw [absT_succ_some n hg', ho, hk]

theorem local_merge {h : Heap} {m p : Nat} (hp : parentOf h m = some p) : Local h (h.mergeWithParent m) p := by
  obtain ⟨mo, hgm, hmp⟩ := parentOf_split hp
  intro x hx
  cases hg : h.get x with
  | none => rw [merge_get hgm hmp, hg]; rfl
  | some o =>
    obtain ⟨o', hg', ho, hk⟩ := merge_get_ne hgm hmp hx hg
    simp [hg', ho, hk]

/-! ## the merges of one step are legal -/

theorem merge_alive_of_ne {h : Heap} {m x : Nat} (hx : x ∈ h.alive) (hxm : x ≠ m) :
    x ∈ (h.mergeWithParent m).alive := by
  cases hgm : h.get m with
  | none => simp only [Heap.mergeWithParent, hgm]; exact hx
  | some mo =>
    cases hmp : mo.parent with
    | none => simp only [Heap.mergeWithParent, hgm, hmp]; exact hx
    | some p => rw [merge_alive hgm hmp]; exact (List.mem_erase_of_ne hxm).2 hx

/-- the parent link of an object that is not a child of the merged structure is untouched -/
theorem merge_parentOf {h : Heap} (w : WF h) {m p : Nat} (hm : m ∈ h.alive) (hp : parentOf h m = some p)
    {x : Nat} (hx : x ∈ h.alive) (hxm : parentOf h x ≠ some m) :
    parentOf (h.mergeWithParent m) x = parentOf h x := by
  obtain ⟨mo, hgm, hmp⟩ := parentOf_split hp
  obtain ⟨o, hg⟩ := w.alive_get x hx
  unfold parentOf
  rw [merge_get hgm hmp, hg]
  simp only [Option.map_some, Option.bind_some, mergeF_parent]
  split
  · rename_i hk
    obtain ⟨_, co, hgc, hcp⟩ := w.kids_ok m hm mo hgm x hk
    rw [hg] at hgc; cases hgc
    exact absurd (by rw [parentOf_eq hg, hcp]) hxm
  · rfl

/-- the two children of a two-child parent: what is needed to merge them one after the other -/
theorem two_kids {h : Heap} (w : WF h) {p k1 k2 : Nat} {po : Obj} (hpa : p ∈ h.alive) (hgp : h.get p = some po)
    (hks : po.kids = [k1, k2]) :
    k1 ≠ k2 ∧ k1 ∈ h.alive ∧ k2 ∈ h.alive ∧ parentOf h k1 = some p ∧ parentOf h k2 = some p ∧
      k2 ∈ (h.mergeWithParent k1).alive ∧ parentOf (h.mergeWithParent k1) k2 = some p := by
  have hnd := w.kids_nodup p hpa po hgp
  rw [hks] at hnd
  have hne : k1 ≠ k2 := by simpa using hnd
  obtain ⟨a1, c1, g1, q1⟩ := w.kids_ok p hpa po hgp k1 (by simp [hks])
  obtain ⟨a2, c2, g2, q2⟩ := w.kids_ok p hpa po hgp k2 (by simp [hks])
  have p1 : parentOf h k1 = some p := by rw [parentOf_eq g1, q1]
  have p2 : parentOf h k2 = some p := by rw [parentOf_eq g2, q2]
  obtain ⟨rk, hr⟩ := w.rank
  have r1 := (hr k1 a1 c1 g1).2 p q1
  refine ⟨hne, a1, a2, p1, p2, merge_alive_of_ne a2 (Ne.symm hne), ?_⟩
  rw [merge_parentOf w a1 p1 a2 (by rw [p2]; intro e; cases e; omega), p2]

theorem mergeList_legal {h : Heap} (w : WF h) {i p : Nat} (hi : i ∈ h.alive) (hp : parentOf h i = some p) :
    Legal h (mergeList h i) := by
  obtain ⟨io, hgi, hip⟩ := parentOf_split hp
  obtain ⟨hpa, po, hgp, _⟩ := w.parent_ok i hi io hgi p hip
  rw [mergeList_eq hp hgp]
  by_cases h2 : po.kids.length = 2
  · rw [if_pos h2]
    obtain ⟨k1, k2, hks⟩ : ∃ k1 k2, po.kids = [k1, k2] := by
      match hks : po.kids, h2 with
      | [a, b], _ => exact ⟨a, b, rfl⟩
    obtain ⟨_, a1, _, p1, _, a2, p2⟩ := two_kids w hpa hgp hks
    rw [hks]
    exact .cons a1 (by unfold parentOf at p1; rw [p1]; simp)
      (.cons a2 (by unfold parentOf at p2; rw [p2]; simp) (.nil _))
  · rw [if_neg h2]
    exact .cons hi (by unfold parentOf at hp; rw [hp]; simp) (.nil _)

theorem stepH_local {h : Heap} (w : WF h) {i p : Nat} (hi : i ∈ h.alive) (hp : parentOf h i = some p) :
    Local h (stepH h i) p := by
  obtain ⟨io, hgi, hip⟩ := parentOf_split hp
  obtain ⟨hpa, po, hgp, _⟩ := w.parent_ok i hi io hgi p hip
  unfold stepH
  rw [mergeList_eq hp hgp]
  by_cases h2 : po.kids.length = 2
  · rw [if_pos h2]
    obtain ⟨k1, k2, hks⟩ : ∃ k1 k2, po.kids = [k1, k2] := by
      match hks : po.kids, h2 with
      | [a, b], _ => exact ⟨a, b, rfl⟩
    obtain ⟨_, _, _, p1, _, _, p2⟩ := two_kids w hpa hgp hks
    rw [hks]
    exact (local_merge p1).trans (local_merge p2)
  · rw [if_neg h2]
    exact local_merge hp

theorem stepH_wf {h : Heap} (w : WF h) {i p : Nat} (hi : i ∈ h.alive) (hp : parentOf h i = some p) :
    WF (stepH h i) := foldl_merge_wf w (mergeList_legal w hi hp)

/-- a legal merge list keeps a trunk list a trunk list -/
theorem trunk_foldl {h : Heap} {ms : List Nat} (hl : Legal h ms) {roots : List Nat} (w : WF h)
    (t : Trunk h roots) : Trunk (ms.foldl Heap.mergeWithParent h) roots := by
  induction hl with
  | nil h => exact t
  | @cons h m ms hm hp _ ih =>
    simp only [List.foldl_cons]
    obtain ⟨p, hp'⟩ := Option.ne_none_iff_exists'.mp hp
    have hp'' : parentOf h m = some p := hp'
    refine ih (mergeWithParent_wf _ _ w hm hp) ⟨t.nodup, fun r hr => ?_, fun r hr => ?_⟩
    · refine merge_alive_of_ne (t.alive r hr) ?_
      intro e; subst e
      rw [t.noparent r hr] at hp''; cases hp''
    · rw [merge_parentOf w hm hp'' (t.alive r hr) (by rw [t.noparent r hr]; simp), t.noparent r hr]

theorem stepH_trunk {h : Heap} (w : WF h) {i p : Nat} (hi : i ∈ h.alive) (hp : parentOf h i = some p)
    {roots : List Nat} (t : Trunk h roots) : Trunk (stepH h i) roots :=
  trunk_foldl (mergeList_legal w hi hp) w t

/-! ## the step at the parent is `pruneAt` (any sufficient fuel) -/

theorem base_step {h : Heap} (w : WF h) {rk} (hr : RankOK h rk) {k p : Nat} {po : Obj} (hk : k ∈ h.alive)
    (hp : parentOf h k = some p) (hgp : h.get p = some po) (n : Nat) (hn : h.size ≤ n + 1 + rk p) :
    absT (stepH h k) (n + 1) p = pruneAt (absT h (n + 1) p) (absT h n k) := by
  obtain ⟨ko, hgk, hkp⟩ := parentOf_split hp
  have hpa := (w.parent_ok k hk ko hgk p hkp).1
  have hP : absT h (n + 1) p = .node p po.own (po.kids.map (absT h n)) := absT_succ_some _ hgp
  have hlen : (absT h (n + 1) p).kids.length = po.kids.length := by rw [hP]; simp [Tree.kids]
  unfold stepH pruneAt
  rw [mergeList_eq hp hgp, hlen]
  by_cases h2 : po.kids.length = 2
  · rw [if_pos h2]
    simp only [h2, beq_self_eq_true, if_true]
    obtain ⟨k1, k2, hks⟩ : ∃ k1 k2, po.kids = [k1, k2] := by
      match hks : po.kids, h2 with
      | [a, b], _ => exact ⟨a, b, rfl⟩
    obtain ⟨hne, a1, a2, p1, p2, _, _⟩ := two_kids w hpa hgp hks
    obtain ⟨c1, g1, q1⟩ := parentOf_split p1
    obtain ⟨c2, g2, q2⟩ := parentOf_split p2
    have r1 := (hr k1 a1 c1 g1).2 p q1
    have r2 := (hr k2 a2 c2 g2).2 p q2
    rw [hks]
    simp only [List.foldl_cons, List.foldl_nil]
    rw [merge_two_refines w a1 a2 hne p1 p2]
    rw [hP, hks]
    simp only [Tree.kids, List.map_cons, List.map_nil, List.foldl_cons, List.foldl_nil]
    rw [absT_stable w hr n (n + 1) k1 a1 (by omega) (by omega),
      absT_stable w hr n (n + 1) k2 a2 (by omega) (by omega)]
  · rw [if_neg h2]
    have : (po.kids.length == 2) = false := by simpa using h2
    simp only [this, List.foldl_cons, List.foldl_nil]
    have rkk := (hr k hk ko hgk).2 p hkp
    rw [merge_refines_parent w hk hp (n + 1), absT_stable w hr n (n + 1) k hk (by omega) (by omega)]
    rfl

/-! ## the scan of one sub-tree -/

/-- the structure found is alive, and its parent lies in the sub-tree of `x` -/
def Found (h : Heap) (x i : Nat) : Prop := i ∈ h.alive ∧ ∃ p, parentOf h i = some p ∧ Down h x p

/-- identifiers of a list of sub-trees, prefix order, as `all_structures` lists them -/
def idsBelow (h : Heap) (n : Nat) (l : List Nat) : List Nat := l.flatMap fun c => c :: descIds (absT h n c)

/-- the scan strictly below `x` agrees with `pruneIn` on the abstraction of `x` -/
def InSpec (h : Heap) (icT : Tree → Tree → Bool) (n x : Nat) : Prop :=
  ((descIds (absT h n x)).find? (cand h (icOf icT h)) = none → pruneIn icT (absT h n x) = none) ∧
  ∀ i, (descIds (absT h n x)).find? (cand h (icOf icT h)) = some i →
    Found h x i ∧ pruneIn icT (absT h n x) = some (absT (stepH h i) n x)

theorem descIds_succ {h : Heap} {x : Nat} {o : Obj} (n : Nat) (hg : h.get x = some o) :
    descIds (absT h (n + 1) x) = idsBelow h n o.kids := by
  rw [descIds_absT_succ, hg]; rfl

theorem absT_kids_pos {h : Heap} {c : Nat} {co : Obj} (hg : h.get c = some co) {n : Nat} (hn : 0 < n) :
    (absT h n c).kids = co.kids.map (absT h (n - 1)) := by
  cases n with
  | zero => omega
  | succ n => rw [absT_succ_some n hg]; rfl

theorem absT_own_succ {h : Heap} {c : Nat} {co : Obj} (hg : h.get c = some co) (n : Nat) :
    (absT h (n + 1) c).own = co.own := by
  rw [absT_succ_some n hg]; rfl

theorem scanKids {h : Heap} (w : WF h) {rk} (hr : RankOK h rk) (icT : Tree → Tree → Bool) (n : Nat)
    (IH : ∀ c, c ∈ h.alive → h.size ≤ n + rk c → InSpec h icT n c)
    {x : Nat} {o : Obj} (hx : x ∈ h.alive) (hg : h.get x = some o) (hn : h.size ≤ n + 1 + rk x) :
    ∀ rs dn, o.kids = dn ++ rs →
      ((idsBelow h n rs).find? (cand h (icOf icT h)) = none →
        pruneKids icT (absT h (n + 1) x) (dn.map (absT h n)) (rs.map (absT h n)) = none) ∧
      ∀ i, (idsBelow h n rs).find? (cand h (icOf icT h)) = some i →
        Found h x i ∧
        pruneKids icT (absT h (n + 1) x) (dn.map (absT h n)) (rs.map (absT h n)) =
          some (absT (stepH h i) (n + 1) x) := by
  intro rs
  induction rs with
  | nil =>
    intro dn _
    refine ⟨fun _ => by simp [pruneKids], fun i hi => ?_⟩
    simp [idsBelow] at hi
  | cons c rs ih =>
    intro dn hks
    have hc : c ∈ o.kids := by rw [hks]; simp
    obtain ⟨hca, co, hgc, hcp⟩ := w.kids_ok x hx o hg c hc
    have rc := (hr c hca co hgc).2 x hcp
    have rcs := (hr c hca co hgc).1
    have hnpos : 0 < n := by omega
    have hks' : o.kids = (dn ++ [c]) ++ rs := by rw [hks]; simp
    have ih' := ih (dn ++ [c]) hks'
    rw [List.map_append, List.map_cons, List.map_nil] at ih'
    have hpc : parentOf h c = some x := by rw [parentOf_eq hgc, hcp]
    have hcons : idsBelow h n (c :: rs) = (c :: descIds (absT h n c)) ++ idsBelow h n rs := by
      simp [idsBelow]
    rw [hcons, List.map_cons, pruneKids]
    by_cases hleaf : co.kids = []
    · -- `c` is a leaf
      have hK : (absT h n c).kids = [] := by rw [absT_kids_pos hgc hnpos, hleaf]; rfl
      have hKl : (absT h n c).isLeaf = true := (PruneP.isLeaf_iff _).2 hK
      have hD : descIds (absT h n c) = [] := by simp [descIds, hK, preL]
      have hic : icOf icT h c = icT (absT h (n + 1) x) (absT h n c) := by
        simp only [icOf, hpc]
        rw [absT_stable w hr h.size (n + 1) x hx (by omega) (by omega),
          absT_stable w hr h.size n c hca (by omega) (by omega)]
      have hcand : cand h (icOf icT h) c = !icT (absT h (n + 1) x) (absT h n c) := by
        simp [cand, kidsOf_eq hgc, hleaf, hca, hpc, hic]
      rw [hD, hKl]
      simp only [if_true, List.cons_append, List.nil_append, List.find?_cons, hcand]
      cases hv : icT (absT h (n + 1) x) (absT h n c) with
      | true => simpa using ih'
      | false =>
        simp only [Bool.not_false, Bool.false_eq_true, if_false]
        refine ⟨fun hcontra => (by cases hcontra), fun i hi => ?_⟩
        cases hi
        exact ⟨⟨hca, x, hpc, .refl x⟩, by rw [base_step w hr hca hpc hg n hn]⟩
    · -- `c` is a branch
      have hK : (absT h n c).kids ≠ [] := by
        rw [absT_kids_pos hgc hnpos]
        intro e; exact hleaf (List.map_eq_nil_iff.1 e)
      have hKl : (absT h n c).isLeaf = false := by
        cases hb : (absT h n c).isLeaf with
        | false => rfl
        | true => exact absurd ((PruneP.isLeaf_iff _).1 hb) hK
      have hcand : cand h (icOf icT h) c = false := by
        have : (co.kids.isEmpty) = false := by
          cases hb : co.kids.isEmpty with
          | false => rfl
          | true => exact absurd (List.isEmpty_iff.1 hb) hleaf
        simp [cand, kidsOf_eq hgc, this]
      have hfind : ((c :: descIds (absT h n c)) ++ idsBelow h n rs).find? (cand h (icOf icT h)) =
          ((descIds (absT h n c)).find? (cand h (icOf icT h))).or
            ((idsBelow h n rs).find? (cand h (icOf icT h))) := by
        rw [List.cons_append, List.find?_cons, hcand, List.find?_append]
      rw [hfind, hKl]
      simp only [Bool.false_eq_true, if_false]
      obtain ⟨ihn, ihs⟩ := IH c hca (by omega)
      cases hf : (descIds (absT h n c)).find? (cand h (icOf icT h)) with
      | none =>
        rw [ihn hf]
        simpa using ih'
      | some j =>
        obtain ⟨⟨hja, p, hjp, hd⟩, hin⟩ := ihs j hf
        rw [hin]
        dsimp only
        refine ⟨fun hcontra => (by simp at hcontra), fun i hi => ?_⟩
        have hi : j = i := by simpa using hi
        subst hi
        refine ⟨⟨hja, p, hjp, .step hg hc hd⟩, ?_⟩
        have rp := (hd.alive_rank w hr hca).2
        have hxp : x ≠ p := by intro e; subst e; omega
        have l := stepH_local w hja hjp
        rw [l.step n hxp hg, absT_id, absT_own_succ hg, hks, List.map_append, List.map_cons]
        have hnd := w.kids_nodup x hx o hg
        rw [hks] at hnd
        have hunch : ∀ k ∈ o.kids, k ≠ c → absT (stepH h j) n k = absT h n k := by
          intro k hk hkc
          exact l.unchanged n k fun d => siblings_disjoint w hx hg hk hc hkc d hd
        congr 3
        · apply List.map_congr_left
          intro k hk
          refine (hunch k (by rw [hks]; simp [hk]) ?_).symm
          intro e; subst e
          exact (List.nodup_append.1 hnd).2.2 k hk k (by simp) rfl
        · congr 1
          apply List.map_congr_left
          intro k hk
          refine (hunch k (by rw [hks]; simp [hk]) ?_).symm
          intro e; subst e
          exact (List.nodup_cons.1 (List.nodup_append.1 hnd).2.1).1 hk

/-- SUB-TREE: the first candidate strictly below `x` in prefix order is the leaf `pruneIn` acts on, and the
    result of `pruneIn` is the abstraction of `x` in the heap after the step -/
theorem scanIn {h : Heap} (w : WF h) {rk} (hr : RankOK h rk) (icT : Tree → Tree → Bool) (n : Nat) :
    ∀ x, x ∈ h.alive → h.size ≤ n + rk x → InSpec h icT n x := by
  induction n with
  | zero =>
    intro x hx hn
    obtain ⟨o, hg⟩ := w.alive_get x hx
    have := (hr x hx o hg).1; omega
  | succ n ih =>
    intro x hx hn
    obtain ⟨o, hg⟩ := w.alive_get x hx
    have key := scanKids w hr icT n ih hx hg (by omega) o.kids [] rfl
    unfold InSpec
    rw [descIds_succ n hg]
    have hP : pruneIn icT (absT h (n + 1) x) =
        pruneKids icT (absT h (n + 1) x) [] (o.kids.map (absT h n)) := by
      rw [absT_succ_some n hg, pruneIn]
    rw [hP]
    simpa using key

/-! ## the scan of the trunk list -/

theorem reach_parent {h : Heap} {a b : Nat} (r : Reach h a b) : parentOf h a ≠ none := by
  cases r with
  | one hg hp => rw [parentOf_eq hg, hp]; simp
  | step hg hp _ => rw [parentOf_eq hg, hp]; simp

/-- two different parentless objects have disjoint sub-trees -/
theorem roots_disjoint {h : Heap} (w : WF h) {r1 r2 y : Nat} (a1 : r1 ∈ h.alive) (a2 : r2 ∈ h.alive)
    (p1 : parentOf h r1 = none) (p2 : parentOf h r2 = none) (hne : r1 ≠ r2)
    (d1 : Down h r1 y) (d2 : Down h r2 y) : False := by
  rcases d1.reach w a1 with e1 | t1 <;> rcases d2.reach w a2 with e2 | t2
  · exact hne (e1.trans e2.symm)
  · subst e1; exact reach_parent t2 p1
  · subst e2; exact reach_parent t1 p2
  · rcases reach_linear t1 t2 with e | t | t
    · exact hne e
    · exact reach_parent t p1
    · exact reach_parent t p2

theorem scanRoots {h : Heap} (w : WF h) (icT : Tree → Tree → Bool) {roots : List Nat} (t : Trunk h roots) :
    ∀ rs dn, roots = dn ++ rs →
      ((idsBelow h h.size rs).find? (cand h (icOf icT h)) = none →
        pruneForest icT (dn.map (absT h h.size)) (rs.map (absT h h.size)) = none) ∧
      ∀ i, (idsBelow h h.size rs).find? (cand h (icOf icT h)) = some i →
        (i ∈ h.alive ∧ parentOf h i ≠ none) ∧
        pruneForest icT (dn.map (absT h h.size)) (rs.map (absT h h.size)) =
          some (absF (stepH h i) h.size roots) := by
  obtain ⟨rk, hr⟩ := w.rank
  intro rs
  induction rs with
  | nil =>
    intro dn _
    refine ⟨fun _ => by simp [pruneForest], fun i hi => ?_⟩
    simp [idsBelow] at hi
  | cons r rs ih =>
    intro dn hks
    have hrr : r ∈ roots := by rw [hks]; simp
    have hra := t.alive r hrr
    have hrp := t.noparent r hrr
    obtain ⟨ro, hgr⟩ := w.alive_get r hra
    have hks' : roots = (dn ++ [r]) ++ rs := by rw [hks]; simp
    have ih' := ih (dn ++ [r]) hks'
    rw [List.map_append, List.map_cons, List.map_nil] at ih'
    have hcand : cand h (icOf icT h) r = false := by simp [cand, hrp]
    have hfind : (idsBelow h h.size (r :: rs)).find? (cand h (icOf icT h)) =
        ((descIds (absT h h.size r)).find? (cand h (icOf icT h))).or
          ((idsBelow h h.size rs).find? (cand h (icOf icT h))) := by
      simp only [idsBelow, List.flatMap_cons, List.cons_append, List.find?_cons, hcand, List.find?_append]
    rw [hfind, List.map_cons, pruneForest]
    obtain ⟨ihn, ihs⟩ := scanIn w hr icT h.size r hra (by omega)
    by_cases hl : (absT h h.size r).isLeaf = true
    · have hD : descIds (absT h h.size r) = [] := by
        simp [descIds, (PruneP.isLeaf_iff _).1 hl, preL]
      rw [hD]
      simpa [hl] using ih'
    · simp only [hl, Bool.false_eq_true, if_false]
      cases hf : (descIds (absT h h.size r)).find? (cand h (icOf icT h)) with
      | none =>
        rw [ihn hf]
        simpa using ih'
      | some j =>
        obtain ⟨⟨hja, p, hjp, hd⟩, hin⟩ := ihs j hf
        rw [hin]
        dsimp only
        refine ⟨fun hcontra => (by simp at hcontra), fun i hi => ?_⟩
        have hi : j = i := by simpa using hi
        subst hi
        refine ⟨⟨hja, by rw [hjp]; simp⟩, ?_⟩
        have l := stepH_local w hja hjp
        have hunch : ∀ k ∈ roots, k ≠ r → absT (stepH h j) h.size k = absT h h.size k := by
          intro k hk hkr
          exact l.unchanged h.size k fun d =>
            roots_disjoint w (t.alive k hk) hra (t.noparent k hk) hrp hkr d hd
        have hnd := t.nodup
        rw [hks] at hnd
        unfold absF
        rw [hks, List.map_append, List.map_cons]
        have e1 : dn.map (absT h h.size) = dn.map (absT (stepH h j) h.size) := by
          apply List.map_congr_left
          intro k hk
          refine (hunch k (by rw [hks]; simp [hk]) ?_).symm
          intro e; subst e
          exact (List.nodup_append.1 hnd).2.2 k hk k (by simp) rfl
        have e2 : rs.map (absT h h.size) = rs.map (absT (stepH h j) h.size) := by
          apply List.map_congr_left
          intro k hk
          refine (hunch k (by rw [hks]; simp [hk]) ?_).symm
          intro e; subst e
          exact (List.nodup_cons.1 (List.nodup_append.1 hnd).2.1).1 hk
        rw [e1, e2]

/-! ## `all_structures` : the work-list is the prefix listing -/

/-- `idsBelow` is the identifier list of the prefix listing of the abstracted forest -/
theorem idsBelow_eq_preL (h : Heap) (n : Nat) (l : List Nat) :
    idsBelow h n l = (preL (absF h n l)).map Tree.id :=
  (ids_preL_map (absT h n) (absT_id h n) l).symm

theorem idsBelow_append (h : Heap) (n : Nat) (a b : List Nat) :
    idsBelow h n (a ++ b) = idsBelow h n a ++ idsBelow h n b := by
  simp [idsBelow]

theorem descIds_size {h : Heap} (w : WF h) {x : Nat} {o : Obj} (hx : x ∈ h.alive) (hg : h.get x = some o) :
    descIds (absT h h.size x) = idsBelow h h.size o.kids := by
  rw [← absT_stable_size w 1 x hx, descIds_succ _ hg]

/-- WORK-LIST: with enough fuel, the `todo = st.children + todo` loop lists the identifiers of the
    abstracted forest in prefix order -/
theorem prefixIds_eq {h : Heap} (w : WF h) (fuel : Nat) :
    ∀ todo, (∀ i ∈ todo, i ∈ h.alive) → (idsBelow h h.size todo).length ≤ fuel →
      prefixIds h fuel todo = idsBelow h h.size todo := by
  induction fuel with
  | zero =>
    intro todo _ hl
    cases todo with
    | nil => rfl
    | cons i t => simp [idsBelow] at hl
  | succ fuel ih =>
    intro todo ha hl
    cases todo with
    | nil => rfl
    | cons i t =>
      have hia := ha i (by simp)
      obtain ⟨o, hg⟩ := w.alive_get i hia
      have hcons : idsBelow h h.size (i :: t) = i :: (idsBelow h h.size o.kids ++ idsBelow h h.size t) := by
        simp only [idsBelow, List.flatMap_cons, List.cons_append]
        rw [descIds_size w hia hg]; rfl
      rw [hcons] at hl ⊢
      rw [prefixIds, kidsOf_eq hg, ih (o.kids ++ t) ?_ ?_, idsBelow_append]
      · intro c hc
        rcases List.mem_append.1 hc with hc | hc
        · exact (w.kids_ok i hia o hg c hc).1
        · exact ha c (by simp [hc])
      · rw [idsBelow_append]
        simp only [List.length_cons] at hl
        omega

/-! ### counting: the forest has at most `alive.length < h.size` structures -/

theorem mem_ids_down (h : Heap) (n : Nat) : ∀ x y, y ∈ x :: descIds (absT h n x) → Down h x y := by
  induction n with
  | zero =>
    intro x y hy
    simp [absT_zero, descIds, Tree.kids, preL] at hy
    subst hy; exact .refl _
  | succ n ih =>
    intro x y hy
    rcases List.mem_cons.1 hy with e | hy
    · subst e; exact .refl _
    · cases hg : h.get x with
      | none => rw [absT_succ_none n hg] at hy; simp [descIds, Tree.kids, preL] at hy
      | some o =>
        rw [descIds_succ n hg, idsBelow, List.mem_flatMap] at hy
        obtain ⟨c, hc, hy⟩ := hy
        exact .step hg hc (ih c y hy)

theorem nodup_flatMap_of {α β : Type} (g : α → List β) (l : List α) (hl : l.Nodup)
    (h1 : ∀ a ∈ l, (g a).Nodup)
    (h2 : ∀ a ∈ l, ∀ b ∈ l, a ≠ b → ∀ y, y ∈ g a → y ∈ g b → False) : (l.flatMap g).Nodup := by
  induction l with
  | nil => simp
  | cons a l ih =>
    rw [List.flatMap_cons, List.nodup_append]
    obtain ⟨hal, hl'⟩ := List.nodup_cons.1 hl
    refine ⟨h1 a (by simp), ?_, ?_⟩
    · exact ih hl' (fun b hb => h1 b (by simp [hb]))
        (fun b hb c hc => h2 b (by simp [hb]) c (by simp [hc]))
    · intro y hy z hz hyz
      subst hyz
      obtain ⟨b, hb, hyb⟩ := List.mem_flatMap.1 hz
      exact h2 a (by simp) b (by simp [hb]) (fun e => hal (e ▸ hb)) y hy hyb

theorem ids_nodup {h : Heap} (w : WF h) (n : Nat) : ∀ x, x ∈ h.alive → (x :: descIds (absT h n x)).Nodup := by
  obtain ⟨rk, hr⟩ := w.rank
  induction n with
  | zero => intro x _; simp [absT_zero, descIds, Tree.kids, preL]
  | succ n ih =>
    intro x hx
    obtain ⟨o, hg⟩ := w.alive_get x hx
    rw [descIds_succ n hg, List.nodup_cons]
    constructor
    · intro hmem
      obtain ⟨c, hc, hy⟩ := List.mem_flatMap.1 hmem
      obtain ⟨hca, co, hgc, hcp⟩ := w.kids_ok x hx o hg c hc
      have := (hr c hca co hgc).2 x hcp
      have := ((mem_ids_down h n c x hy).alive_rank w hr hca).2
      omega
    · refine nodup_flatMap_of _ _ (w.kids_nodup x hx o hg)
        (fun c hc => ih c (w.kids_ok x hx o hg c hc).1) ?_
      intro a ha b hb hab y hya hyb
      exact siblings_disjoint w hx hg ha hb hab (mem_ids_down h n a y hya) (mem_ids_down h n b y hyb)

theorem idsBelow_nodup {h : Heap} (w : WF h) {roots : List Nat} (t : Trunk h roots) (n : Nat) :
    (idsBelow h n roots).Nodup := by
  refine nodup_flatMap_of _ _ t.nodup (fun r hr => ids_nodup w n r (t.alive r hr)) ?_
  intro a ha b hb hab y hya hyb
  exact roots_disjoint w (t.alive a ha) (t.alive b hb) (t.noparent a ha) (t.noparent b hb) hab
    (mem_ids_down h n a y hya) (mem_ids_down h n b y hyb)

/-- the identifiers of the abstracted forest are distinct (the hypothesis of the theorems of
    `ADProofs.PruneProofs`) -/
theorem absF_idsNodup {h : Heap} (w : WF h) {roots : List Nat} (t : Trunk h roots) (n : Nat) :
    IdsNodup (absF h n roots) := by
  unfold IdsNodup
  rw [← idsBelow_eq_preL]
  exact idsBelow_nodup w t n

theorem idsBelow_alive {h : Heap} (w : WF h) {roots : List Nat} (ha : ∀ r ∈ roots, r ∈ h.alive) (n : Nat) :
    ∀ y ∈ idsBelow h n roots, y ∈ h.alive := by
  obtain ⟨rk, hr⟩ := w.rank
  intro y hy
  obtain ⟨r, hrr, hy⟩ := List.mem_flatMap.1 hy
  exact ((mem_ids_down h n r y hy).alive_rank w hr (ha r hrr)).1

theorem nodup_subset_length : ∀ (l m : List Nat), l.Nodup → (∀ a ∈ l, a ∈ m) → l.length ≤ m.length := by
  intro l
  induction l with
  | nil => intro m _ _; simp
  | cons a l ih =>
    intro m hnd hsub
    obtain ⟨hal, hl⟩ := List.nodup_cons.1 hnd
    have ham : a ∈ m := hsub a (by simp)
    have := ih (m.erase a) hl (fun b hb =>
      (List.mem_erase_of_ne (fun (e : b = a) => hal (e ▸ hb))).2 (hsub b (by simp [hb])))
    rw [List.length_erase_of_mem ham] at this
    have : 0 < m.length := List.length_pos_of_mem ham
    simp only [List.length_cons]
    omega

theorem alive_length_lt_size {h : Heap} (w : WF h) : h.alive.length < h.size := by
  have : h.alive.length ≤ (h.objs.map (·.id)).length := by
    refine nodup_subset_length _ _ w.alive_nodup fun i hi => ?_
    obtain ⟨o, hg⟩ := w.alive_get i hi
    exact List.mem_map.2 ⟨o, List.mem_of_find?_eq_some hg, get_id hg⟩
  rw [List.length_map] at this
  rw [P17.size_eq]; omega

theorem idsBelow_length {h : Heap} (w : WF h) {roots : List Nat} (t : Trunk h roots) (n : Nat) :
    (idsBelow h n roots).length ≤ h.alive.length :=
  nodup_subset_length _ _ (idsBelow_nodup w t n) (idsBelow_alive w t.alive n)

/-- ALL_STRUCTURES: the work-list with fuel `h.size` is the prefix listing of the abstracted forest -/
theorem prefixIds_refines {h : Heap} (w : WF h) {roots : List Nat} (t : Trunk h roots) :
    prefixIds h h.size roots = (preL (absF h h.size roots)).map Tree.id := by
  rw [← idsBelow_eq_preL]
  refine prefixIds_eq w h.size roots t.alive ?_
  have := idsBelow_length w t h.size
  have := alive_length_lt_size w
  omega

/-! ## B. the theorems -/

theorem scanFirstFrom_eq {h : Heap} (w : WF h) {roots : List Nat} (t : Trunk h roots) (ic : Nat → Bool) :
    scanFirstFrom h roots ic = ((preL (absF h h.size roots)).map Tree.id).find? (cand h ic) := by
  rw [scanFirstFrom, prefixIds_refines w t]

/-- what `_to_prune` yields is an alive leaf with a parent that fails the criterion -/
theorem scanFirstFrom_some {h : Heap} {roots : List Nat} {ic : Nat → Bool} {i : Nat}
    (hs : scanFirstFrom h roots ic = some i) :
    kidsOf h i = [] ∧ i ∈ h.alive ∧ ic i = false ∧ parentOf h i ≠ none :=
  cand_iff.1 (List.find?_some hs)

/-- B1 (nothing found): the tree-level scan finds nothing either -/
theorem scan_none {h : Heap} (w : WF h) {roots : List Nat} (t : Trunk h roots) (icT : Tree → Tree → Bool)
    (hs : scanFirstFrom h roots (icOf icT h) = none) :
    pruneForest icT [] (absF h h.size roots) = none := by
  rw [scanFirstFrom_eq w t, ← idsBelow_eq_preL] at hs
  exact (scanRoots w icT t roots [] rfl).1 hs

/-- B1 (found `i`): the tree-level scan acts on the same leaf, and its result is the abstraction of the
    heap after the caller's merges -/
theorem scan_some {h : Heap} (w : WF h) {roots : List Nat} (t : Trunk h roots) (icT : Tree → Tree → Bool)
    {i : Nat} (hs : scanFirstFrom h roots (icOf icT h) = some i) :
    pruneForest icT [] (absF h h.size roots) = some (absF (stepH h i) (stepH h i).size roots) := by
  rw [scanFirstFrom_eq w t, ← idsBelow_eq_preL] at hs
  rw [stepH_size]
  exact ((scanRoots w icT t roots [] rfl).2 i hs).2

/-- B1 in one equation -/
theorem loopStep_refines {h : Heap} (w : WF h) {roots : List Nat} (t : Trunk h roots)
    (icT : Tree → Tree → Bool) :
    pruneForest icT [] (absF h h.size roots) =
      (loopStepFrom h roots (icOf icT h)).map fun h' => absF h' h'.size roots := by
  unfold loopStepFrom
  cases hs : scanFirstFrom h roots (icOf icT h) with
  | none => rw [scan_none w t icT hs]; rfl
  | some i => rw [scan_some w t icT hs]; rfl

/-- B3: one round of the loop performs a legal merge list and keeps the invariants (any criterion) -/
theorem loopStep_inv {h h' : Heap} (w : WF h) {roots : List Nat} (t : Trunk h roots) {ic : Nat → Bool}
    (hs : loopStepFrom h roots ic = some h') :
    ∃ i, scanFirstFrom h roots ic = some i ∧ h' = (mergeList h i).foldl Heap.mergeWithParent h ∧
      Legal h (mergeList h i) ∧ WF h' ∧ Trunk h' roots := by
  unfold loopStepFrom at hs
  cases hsc : scanFirstFrom h roots ic with
  | none => rw [hsc] at hs; cases hs
  | some i =>
    rw [hsc] at hs
    simp only [Option.map_some, Option.some.injEq] at hs
    subst hs
    obtain ⟨_, hia, _, hp⟩ := scanFirstFrom_some hsc
    obtain ⟨p, hp'⟩ := Option.ne_none_iff_exists'.mp hp
    exact ⟨i, rfl, rfl, mergeList_legal w hia hp', stepH_wf w hia hp', stepH_trunk w hia hp' t⟩

theorem loopRunFrom_inv {roots : List Nat} (ic : Heap → Nat → Bool) (n : Nat) :
    ∀ {h : Heap}, WF h → Trunk h roots → WF (loopRunFrom roots ic n h) ∧ Trunk (loopRunFrom roots ic n h) roots := by
  induction n with
  | zero => intro h w t; exact ⟨w, t⟩
  | succ n ih =>
    intro h w t
    rw [loopRunFrom]
    cases hs : loopStepFrom h roots (ic h) with
    | none => exact ⟨w, t⟩
    | some h' =>
      obtain ⟨_, _, _, _, w', t'⟩ := loopStep_inv w t hs
      exact ih w' t'

/-- B2, MAIN: the loop on the heap, abstracted, is `pruneLoop` on the abstraction (every fuel) -/
theorem loopRunFrom_refines {roots : List Nat} (icT : Tree → Tree → Bool) (n : Nat) :
    ∀ {h : Heap}, WF h → Trunk h roots →
      absF (loopRunFrom roots (icOf icT) n h) (loopRunFrom roots (icOf icT) n h).size roots =
        pruneLoop icT n (absF h h.size roots) := by
  induction n with
  | zero => intro h _ _; rfl
  | succ n ih =>
    intro h w t
    rw [loopRunFrom, pruneLoop, loopStep_refines w t icT]
    cases hs : loopStepFrom h roots (icOf icT h) with
    | none => rfl
    | some h' =>
      obtain ⟨_, _, _, _, w', t'⟩ := loopStep_inv w t hs
      exact ih w' t'

theorem legal_append {h : Heap} {a b : List Nat} (ha : Legal h a)
    (hb : Legal (a.foldl Heap.mergeWithParent h) b) : Legal h (a ++ b) := by
  induction ha with
  | nil h => exact hb
  | cons hm hp _ ih => exact .cons hm hp (ih hb)

/-- B3 for the whole run: the list of merges the loop performs is legal, and the loop is the fold of
    `mergeWithParent` over it -/
theorem loopMergesFrom_legal {roots : List Nat} (ic : Heap → Nat → Bool) (n : Nat) :
    ∀ {h : Heap}, WF h → Trunk h roots →
      Legal h (loopMergesFrom roots ic n h) ∧
      loopRunFrom roots ic n h = (loopMergesFrom roots ic n h).foldl Heap.mergeWithParent h := by
  induction n with
  | zero => intro h _ _; exact ⟨.nil _, rfl⟩
  | succ n ih =>
    intro h w t
    rw [loopRunFrom, loopMergesFrom]
    cases hs : loopStepFrom h roots (ic h) with
    | none =>
      have : scanFirstFrom h roots (ic h) = none := by
        unfold loopStepFrom at hs
        cases hsc : scanFirstFrom h roots (ic h) with
        | none => rfl
        | some i => rw [hsc] at hs; cases hs
      rw [this]
      exact ⟨.nil _, rfl⟩
    | some h' =>
      obtain ⟨i, hsc, rfl, hl, w', t'⟩ := loopStep_inv w t hs
      rw [hsc]
      obtain ⟨l2, e2⟩ := ih w' t'
      dsimp only
      exact ⟨legal_append hl l2, by rw [List.foldl_append]; exact e2⟩

/-! ### the trunk read off the heap -/

theorem rootsOf_foldl {h : Heap} {ms : List Nat} (w : WF h) (hl : Legal h ms) :
    rootsOf (ms.foldl Heap.mergeWithParent h) = rootsOf h := by
  induction hl with
  | nil h => rfl
  | @cons h m ms hm hp _ ih =>
    simp only [List.foldl_cons]
    obtain ⟨p, hp'⟩ := Option.ne_none_iff_exists'.mp hp
    obtain ⟨mo, hgm, hmp⟩ := parent_split hp'
    rw [ih (mergeWithParent_wf _ _ w hm hp), rootsOf_merge w hm hgm hmp]

theorem rootsOf_loopRun {h : Heap} (w : WF h) (ic : Heap → Nat → Bool) (n : Nat) :
    rootsOf (loopRun n h ic) = rootsOf h := by
  obtain ⟨hl, e⟩ := loopMergesFrom_legal ic n w (trunk_rootsOf w)
  unfold loopRun
  rw [e, rootsOf_foldl w hl]

/-- B1 for `scanFirst` / `loopStep` -/
theorem loopStep_refines' {h : Heap} (w : WF h) (icT : Tree → Tree → Bool) :
    pruneForest icT [] (absF h h.size (rootsOf h)) =
      (loopStep h (icOf icT h)).map fun h' => absF h' h'.size (rootsOf h') := by
  rw [loopStep_refines w (trunk_rootsOf w) icT]
  unfold loopStep
  cases hs : loopStepFrom h (rootsOf h) (icOf icT h) with
  | none => rfl
  | some h' =>
    obtain ⟨i, _, rfl, hl, _, _⟩ := loopStep_inv w (trunk_rootsOf w) hs
    simp only [Option.map_some]
    rw [rootsOf_foldl w hl]

/-- B2, MAIN, for `loopRun` -/
theorem loopRun_refines {h : Heap} (w : WF h) (icT : Tree → Tree → Bool) (n : Nat) :
    absF (loopRun n h (icOf icT)) (loopRun n h (icOf icT)).size (rootsOf (loopRun n h (icOf icT))) =
      pruneLoop icT n (absF h h.size (rootsOf h)) := by
  rw [rootsOf_loopRun w]
  exact loopRunFrom_refines icT n w (trunk_rootsOf w)

/-- B3 for `loopRun` -/
theorem loopRun_legal {h : Heap} (w : WF h) (ic : Heap → Nat → Bool) (n : Nat) :
    Legal h (loopMerges n h ic) ∧ loopRun n h ic = (loopMerges n h ic).foldl Heap.mergeWithParent h ∧
      WF (loopRun n h ic) :=
  have h1 := loopMergesFrom_legal ic n w (trunk_rootsOf w)
  ⟨h1.1, h1.2, (loopRunFrom_inv ic n w (trunk_rootsOf w)).1⟩

/-- the whole of `Dendrogram.prune` up to `_make_trunk` on the heap (`Heap.prune` with the merges the loop
    finds: loop, cache reset) is `pruneLoop` on the abstraction; the caches are sound afterwards -/
theorem heap_prune_refines {h : Heap} (w : WF h) (icT : Tree → Tree → Bool) (n : Nat) :
    Legal h (loopMerges n h (icOf icT)) ∧
    absF (h.prune (loopMerges n h (icOf icT))) (h.prune (loopMerges n h (icOf icT))).size
        (rootsOf (h.prune (loopMerges n h (icOf icT)))) =
      pruneLoop icT n (absF h h.size (rootsOf h)) ∧
    WF (h.prune (loopMerges n h (icOf icT))) ∧ Sound (h.prune (loopMerges n h (icOf icT))) := by
  obtain ⟨hl, e, _⟩ := loopRun_legal w (icOf icT) n
  refine ⟨hl, ?_, prune_sound h _ w hl⟩
  unfold Heap.prune
  rw [absF_finishPrune, ← e]
  exact loopRun_refines w icT n

/-! ### the fixpoint: `h.size` rounds suffice -/

theorem sizeL_eq_length (f : List Tree) : sizeL f = (preL f).length := by
  have list : ∀ l : List Tree, (∀ t ∈ l, Tree.size t = (pre t).length) → sizeL l = (preL l).length := by
    intro l
    induction l with
    | nil => intro _; rfl
    | cons t ts ih =>
      intro hh
      simp only [sizeL, preL, List.length_append]
      rw [hh t (by simp), ih (fun u hu => hh u (by simp [hu]))]
  have tree : ∀ n (t : Tree), Tree.size t ≤ n → Tree.size t = (pre t).length := by
    intro n
    induction n with
    | zero => intro t hs; have := PruneP.size_pos t; omega
    | succ n ih =>
      intro t hs
      cases t with | node i o ks =>
      simp only [Tree.size, pre, List.length_cons] at hs ⊢
      rw [list ks (fun k hk => ih k (by have := PruneP.sizeL_mem_le hk; omega))]
      omega
  exact list f (fun t _ => tree _ t (Nat.le_refl _))

theorem sizeL_absF_lt {h : Heap} (w : WF h) {roots : List Nat} (t : Trunk h roots) :
    sizeL (absF h h.size roots) < h.size := by
  rw [sizeL_eq_length, ← List.length_map (f := Tree.id), ← idsBelow_eq_preL]
  have := idsBelow_length w t h.size
  have := alive_length_lt_size w
  omega

/-- after `h.size` rounds the generator returns: nothing is left to prune, on both levels -/
theorem loopRun_fixpoint {h : Heap} (w : WF h) (icT : Tree → Tree → Bool) {n : Nat} (hn : h.size ≤ n + 1) :
    scanFirst (loopRun n h (icOf icT)) (icOf icT (loopRun n h (icOf icT))) = none ∧
    pruneForest icT [] (pruneLoop icT n (absF h h.size (rootsOf h))) = none := by
  have hfix : pruneForest icT [] (pruneLoop icT n (absF h h.size (rootsOf h))) = none :=
    pruneLoop_fixpoint_of_le icT n _ (by have := sizeL_absF_lt w (trunk_rootsOf w); omega)
  refine ⟨?_, hfix⟩
  obtain ⟨_, _, w'⟩ := loopRun_legal w (icOf icT) n
  rw [← loopRun_refines w icT n, loopStep_refines' w' icT] at hfix
  unfold loopStep loopStepFrom at hfix
  unfold scanFirst
  cases hs : scanFirstFrom (loopRun n h (icOf icT)) (rootsOf (loopRun n h (icOf icT)))
      (icOf icT (loopRun n h (icOf icT))) with
  | none => rfl
  | some i => rw [hs] at hfix; cases hfix

/-- with `ADModel.Prune.prune` : the heap loop run to its fixpoint, abstracted, then `makeTrunkP` -/
theorem prune_eq_loopRun {h : Heap} (w : WF h) (icT : Tree → Tree → Bool) (io : Tree → Bool) :
    _root_.prune icT io (absF h h.size (rootsOf h)) =
      makeTrunkP io
        (absF (loopRun (sizeL (absF h h.size (rootsOf h))) h (icOf icT))
          (loopRun (sizeL (absF h h.size (rootsOf h))) h (icOf icT)).size
          (rootsOf (loopRun (sizeL (absF h h.size (rootsOf h))) h (icOf icT)))) := by
  rw [loopRun_refines w icT]; rfl

/-! ## non-vacuity: concrete heaps -/

/-- six objects: `0 → [1, 2]`, `1 → [3, 4, 7]`; the leaves `3` and `7` own one pixel, `2` and `4` own two -/
def h2 : Heap :=
  { objs := [ { id := 0, kids := [1, 2], own := [10] },
              { id := 1, parent := some 0, kids := [3, 4, 7], own := [11] },
              { id := 2, parent := some 0, own := [12, 22] },
              { id := 3, parent := some 1, own := [13] },
              { id := 4, parent := some 1, own := [14, 24] },
              { id := 7, parent := some 1, own := [17] } ],
    alive := [0, 1, 2, 3, 4, 7] }

def rk2 : Nat → Nat
  | 0 => 0 | 1 => 1 | 2 => 1 | _ => 2

theorem h2_wf : WF h2 := by
  have k : ∀ i ∈ h2.alive, (h2.get i).isSome = true := by decide
  refine ⟨by decide, fun i hi => Option.isSome_iff_exists.1 (k i hi), by decide, by decide, by decide, ⟨rk2, ?_⟩⟩
  unfold RankOK; decide

/-- `min_npix = 2` on a leaf (a leaf's pixels are its own pixels) -/
def npix2 : Tree → Tree → Bool := fun _ k => decide (2 ≤ k.own.length)

/-- `all_structures` on `h2` -/
example : prefixIds h2 h2.size (rootsOf h2) = [0, 1, 3, 4, 7, 2] := by decide

/-- round 1: leaf `3` fails, its parent `1` has three children: only `3` is merged;
    round 2: leaf `7` fails, its parent `1` now has two children: both `4` and `7` are merged;
    round 3: nothing is found -/
example : scanFirst h2 (icOf npix2 h2) = some 3 ∧ mergeList h2 3 = [3] := by decide
example : scanFirst (stepH h2 3) (icOf npix2 (stepH h2 3)) = some 7 ∧ mergeList (stepH h2 3) 7 = [4, 7] := by
  decide
example : scanFirst (stepH (stepH h2 3) 7) (icOf npix2 (stepH (stepH h2 3) 7)) = none := by decide
example : loopMerges 6 h2 (icOf npix2) = [3, 4, 7] := by decide
example : (loopRun 6 h2 (icOf npix2)).alive = [0, 1, 2] := by decide

/-- both sides of `loopRun_refines` on `h2`, computed -/
example : absF (loopRun 6 h2 (icOf npix2)) (loopRun 6 h2 (icOf npix2)).size (rootsOf (loopRun 6 h2 (icOf npix2))) =
    [.node 0 [10] [.node 1 [11, 13, 14, 24, 17] [], .node 2 [12, 22] []]] := by rfl
example : pruneLoop npix2 6 (absF h2 h2.size (rootsOf h2)) =
    [.node 0 [10] [.node 1 [11, 13, 14, 24, 17] [], .node 2 [12, 22] []]] := by rfl
/-- one round is not enough, two are -/
example : pruneLoop npix2 1 (absF h2 h2.size (rootsOf h2)) =
    [.node 0 [10] [.node 1 [11, 13] [.node 4 [14, 24] [], .node 7 [17] []], .node 2 [12, 22] []]] := by rfl
example : absF (loopRun 1 h2 (icOf npix2)) (loopRun 1 h2 (icOf npix2)).size (rootsOf (loopRun 1 h2 (icOf npix2))) =
    [.node 0 [10] [.node 1 [11, 13] [.node 4 [14, 24] [], .node 7 [17] []], .node 2 [12, 22] []]] := by rfl

/-- the theorems instantiated on `h2` -/
example : absF (loopRun 6 h2 (icOf npix2)) (loopRun 6 h2 (icOf npix2)).size (rootsOf (loopRun 6 h2 (icOf npix2))) =
    pruneLoop npix2 6 (absF h2 h2.size (rootsOf h2)) := loopRun_refines h2_wf npix2 6
example : Legal h2 (loopMerges 6 h2 (icOf npix2)) := (loopRun_legal h2_wf (icOf npix2) 6).1

/-- `P35.h1` (`0 → [1, 2]`, `1 → [3, 4]`, `3 → [5]`, one pixel each): three rounds, `5`, then `3, 4`, then `1, 2` -/
example : prefixIds h1 h1.size (rootsOf h1) = [0, 1, 3, 5, 4, 2] := by decide
example : loopMerges 7 h1 (icOf npix2) = [5, 3, 4, 1, 2] := by decide
example : loopMerges 2 h1 (icOf npix2) = [5, 3, 4] := by decide
example : absF (loopRun 2 h1 (icOf npix2)) (loopRun 2 h1 (icOf npix2)).size (rootsOf (loopRun 2 h1 (icOf npix2))) =
    [.node 0 [10] [.node 1 [11, 13, 15, 14] [], .node 2 [12] []]] := by rfl
example : pruneLoop npix2 2 (absF h1 h1.size (rootsOf h1)) =
    [.node 0 [10] [.node 1 [11, 13, 15, 14] [], .node 2 [12] []]] := by rfl

/-! ### the criterion must be read on the *current* heap

`loopRun` takes `ic : Heap → Nat → Bool` and applies it to the heap of the round.  With the criterion
frozen on the initial heap (`fun _ => icOf icT h`) the refinement is FALSE: on `h3` the first round merges
the leaves `5` and `8` into `3`, which becomes a leaf of three pixels and passes `min_npix = 2`; the frozen
criterion still sees the one-pixel branch `3` of the initial heap, fails it and merges it into `1`. -/

/-- eight objects: `0 → [1, 2]`, `1 → [3, 4, 6]`, `3 → [5, 8]` -/
def h3 : Heap :=
  { objs := [ { id := 0, kids := [1, 2], own := [10] },
              { id := 1, parent := some 0, kids := [3, 4, 6], own := [11] },
              { id := 2, parent := some 0, own := [12, 22] },
              { id := 3, parent := some 1, kids := [5, 8], own := [13] },
              { id := 4, parent := some 1, own := [14, 24] },
              { id := 6, parent := some 1, own := [16, 26] },
              { id := 5, parent := some 3, own := [15] },
              { id := 8, parent := some 3, own := [18] } ],
    alive := [0, 1, 2, 3, 4, 6, 5, 8] }

def rk3 : Nat → Nat
  | 0 => 0 | 1 => 1 | 2 => 1 | 3 => 2 | 4 => 2 | 6 => 2 | _ => 3

theorem h3_wf : WF h3 := by
  have k : ∀ i ∈ h3.alive, (h3.get i).isSome = true := by decide
  refine ⟨by decide, fun i hi => Option.isSome_iff_exists.1 (k i hi), by decide, by decide, by decide, ⟨rk3, ?_⟩⟩
  unfold RankOK; decide

example : loopMerges 9 h3 (icOf npix2) = [5, 8] := by decide
example : loopMerges 9 h3 (fun _ => icOf npix2 h3) = [5, 8, 3] := by decide
/-- COUNTEREXAMPLE to the refinement with a criterion that is not re-evaluated -/
example :
    (preL (absF (loopRun 9 h3 (fun _ => icOf npix2 h3)) (loopRun 9 h3 (fun _ => icOf npix2 h3)).size
        (rootsOf (loopRun 9 h3 (fun _ => icOf npix2 h3))))).map Tree.id ≠
      (preL (pruneLoop npix2 9 (absF h3 h3.size (rootsOf h3)))).map Tree.id := by decide
/-- … and the theorem with the live criterion on the same heap -/
example : (preL (absF (loopRun 9 h3 (icOf npix2)) (loopRun 9 h3 (icOf npix2)).size
      (rootsOf (loopRun 9 h3 (icOf npix2))))).map Tree.id = [0, 1, 3, 4, 6, 2] ∧
    (preL (pruneLoop npix2 9 (absF h3 h3.size (rootsOf h3)))).map Tree.id = [0, 1, 3, 4, 6, 2] := by decide

end P41
