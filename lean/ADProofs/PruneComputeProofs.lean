import ADProofs.Forest
import ADProofs.Contour
import ADProofs.PruneProofs
import ADProofs.SimProofs
/-!
# ADProofs.PruneComputeProofs — pruning afterwards equals computing with the stricter `min_npix`
(property C08, the part that holds for the code as it is)

Setting: `min_delta = 0`, thresholds `n0 ≤ n1`, an order of distinct pixels sorted by
non-increasing value (ties allowed), any adjacency.

* `Sm`, `SmL`, `Sm.refl/symm/trans`  : `P10.Sim (fun p => p)` is an equivalence
* `finishG bad i o cs`               : node `i` after absorbing its `bad` children and dissolving a
  single remaining child; `joinAdj_finishG` (the receiving structure of a step is such a node),
  `finishG_sim`, `finishG_perm`, `finishG_absorb`
* `collapse n`                       : declarative specification of pruning with `min_npix = n`
  (bottom-up `finishG` with "failing leaf" as badness); `collapse_pixels`, `collapse_sim`,
  `collapse_fails_leaf`, `collapse_finishG` (collapsing a finished node = finishing the collapsed
  children with the combined test)
* `insig_npix`, `insig_rel`          : with `min_delta = 0` on a sorted run only `min_npix` decides;
  the strict test on a collapsed root is "loose test or region fails"
* `run_collapse`                     : (b) strict run ≃ collapse of the loose run
* `ic_eq`, `io_eq`, `posthoc_eq_mergetime` : the post-hoc delta tests always hold; post-hoc test =
  merge-time test on frozen leaves
* `pruneIn_collapse`, `pruneLoop_collapse`, `collapse_fix_aux`, `pruneLoop_eq_collapse` :
  (a) a pruning step does not change the collapse (confluence), a fixpoint is its own collapse
* `prune_eq_compute_npix`            : MAIN (the full target)
* `delta_counterexample`             : why `min_delta` is excluded (by `decide`)

Core Lean only.
-/
open Tree

namespace P18

open P10 (Sim SimL PR F2 ownL)

/-! ## similarity with the identity renaming -/

/-- similarity up to identifiers, own-pixel order and child order -/
abbrev Sm (t t' : Tree) : Prop := Sim (fun p => p) t t'
abbrev SmL (l l' : List Tree) : Prop := SimL (fun p => p) l l'

theorem map_id_fun (l : List Nat) : l.map (fun p => p) = l := by simp

theorem Sm.own' {t t' : Tree} (h : Sm t t') : t'.own.Perm t.own := by
  have := P10.Sim.own h; rwa [map_id_fun] at this

theorem Sm.pixels' {t t' : Tree} (h : Sm t t') : t'.pixels.Perm t.pixels := by
  have := P10.Sim.pixels h; rwa [map_id_fun] at this

theorem SmL.ownL' {l l' : List Tree} (h : SmL l l') : (ownL l').Perm (ownL l) := by
  have := P10.SimL.ownL h; rwa [map_id_fun] at this

theorem SmL.pixelsL' {l l' : List Tree} (h : SmL l l') : (pixelsL l').Perm (pixelsL l) := by
  have := P10.SimL.pixelsL h; rwa [map_id_fun] at this

theorem Sm.of' {t t' : Tree} (h1 : t'.own.Perm t.own) (h2 : SmL t.kids t'.kids) : Sm t t' :=
  P10.Sim.of (by rwa [map_id_fun]) h2

theorem f2_refl {α : Type} {R : α → α → Prop} (l : List α) (h : ∀ x ∈ l, R x x) : F2 R l l := by
  induction l with
  | nil => exact .nil
  | cons a l ih => exact .cons (h a (by simp)) (ih (fun x hx => h x (List.mem_cons_of_mem _ hx)))

theorem sm_refl_aux : (∀ t : Tree, Sm t t) ∧ (∀ l : List Tree, SmL l l) := by
  apply Tree.forest_induction
  · intro i o ks ih; exact Sm.of' (List.Perm.refl _) ih
  · exact .nil
  · intro t ts h1 h2; exact .cons h1 h2 (List.Perm.refl _)

theorem Sm.refl (t : Tree) : Sm t t := sm_refl_aux.1 t
theorem SmL.refl (l : List Tree) : SmL l l := sm_refl_aux.2 l

theorem SmL.of_perm {l l' : List Tree} (h : l.Perm l') : SmL l l' :=
  (SmL.refl l).perm_right h

theorem f2_flip {α β : Type} {R : α → β → Prop} {S : β → α → Prop} {l : List α} {m : List β}
    (h : F2 R l m) (hrs : ∀ x ∈ l, ∀ y, R x y → S y x) : F2 S m l := by
  induction h with
  | nil => exact .nil
  | cons hxy _ ih =>
    exact .cons (hrs _ (by simp) _ hxy) (ih (fun x hx y hy => hrs x (List.mem_cons_of_mem _ hx) y hy))

theorem pr_flip {α β : Type} {R : α → β → Prop} {S : β → α → Prop} {l : List α} {l' : List β}
    (h : PR R l l') (hrs : ∀ x ∈ l, ∀ y, R x y → S y x) : PR S l' l := by
  obtain ⟨m, f, pm⟩ := h
  have f' : F2 S m l := f2_flip f hrs
  exact (show PR S m l from ⟨l, f', List.Perm.refl _⟩).perm_left pm

theorem sm_symm_aux :
    (∀ t t' : Tree, Sm t t' → Sm t' t) ∧ (∀ l l' : List Tree, SmL l l' → SmL l' l) := by
  apply Tree.forest_induction
  · intro i o ks ih t' h
    cases t' with | node i' o' ks' =>
    exact Sm.of' (Sm.own' h).symm (ih _ (P10.Sim.kids h))
  · intro l' h; cases h; exact .nil
  · intro t ts iht ihts l' h
    cases h with
    | @cons _ t' _ ts' _ h1 h2 h3 =>
      have : SmL (t' :: ts') (t :: ts) := .cons (iht _ h1) (ihts _ h2) (List.Perm.refl _)
      exact this.perm_left h3.symm

theorem Sm.symm {t t' : Tree} (h : Sm t t') : Sm t' t := sm_symm_aux.1 t t' h
theorem SmL.symm {l l' : List Tree} (h : SmL l l') : SmL l' l := sm_symm_aux.2 l l' h

theorem f2_trans {α : Type} {R : α → α → Prop} {l m k : List α} (h1 : F2 R l m) (h2 : F2 R m k)
    (htr : ∀ x ∈ l, ∀ y z, R x y → R y z → R x z) : F2 R l k := by
  induction h1 generalizing k with
  | nil => cases h2; exact .nil
  | cons hxy _ ih =>
    cases h2 with
    | cons hyz hrest =>
      exact .cons (htr _ (by simp) _ _ hxy hyz)
        (ih hrest (fun x hx y z => htr x (List.mem_cons_of_mem _ hx) y z))

theorem sm_trans_aux :
    (∀ t t' t'' : Tree, Sm t t' → Sm t' t'' → Sm t t'') ∧
    (∀ l l' l'' : List Tree, SmL l l' → SmL l' l'' → SmL l l'') := by
  apply Tree.forest_induction
  · intro i o ks ih t' t'' h1 h2
    exact Sm.of' ((Sm.own' h2).trans (Sm.own' h1)) (ih _ _ (P10.Sim.kids h1) (P10.Sim.kids h2))
  · intro l' l'' h1 h2; cases h1; cases h2; exact .nil
  · intro t ts iht ihts l' l'' h1 h2
    -- go through the `PR` form
    obtain ⟨m1, f1, p1⟩ := P10.simL_iff.mp h1
    obtain ⟨m2, f2, p2⟩ := P10.simL_iff.mp h2
    obtain ⟨m3, f3, p3⟩ := P10.perm_forall₂ p1.symm f2
    -- f1 : F2 Sm (t::ts) m1, f3 : F2 Sm m1 m3, m2 ~ m3
    cases f1 with
    | @cons _ b _ m1' hb f1' =>
      cases f3 with
      | @cons _ c _ m3' hc f3' =>
        have hts : SmL ts m3' :=
          ihts m1' m3' (P10.simL_iff.mpr ⟨m1', f1', List.Perm.refl _⟩)
            (P10.simL_iff.mpr ⟨m3', f3', List.Perm.refl _⟩)
        exact .cons (iht _ _ hb hc) hts (p2.symm.trans p3)

theorem Sm.trans {t t' t'' : Tree} (h1 : Sm t t') (h2 : Sm t' t'') : Sm t t'' :=
  sm_trans_aux.1 t t' t'' h1 h2
theorem SmL.trans {l l' l'' : List Tree} (h1 : SmL l l') (h2 : SmL l' l'') : SmL l l'' :=
  sm_trans_aux.2 l l' l'' h1 h2

theorem Sm.isLeaf' {t t' : Tree} (h : Sm t t') : t.isLeaf = t'.isLeaf := P10.Sim.isLeaf h

theorem Sm.kids_nil {t t' : Tree} (h : Sm t t') : t.kids = [] ↔ t'.kids = [] :=
  (P10.Sim.kids h).nil_iff

/-! ## finishing a node: absorb the bad children, dissolve a single remaining child -/

/-- own pixels gained by a node whose children `cs` are finished with badness test `bad` -/
def XG (bad : Tree → Bool) (cs : List Tree) : List Nat :=
  ownL (cs.filter bad) ++
    (if (cs.filter (fun c => !bad c)).length ≤ 1 then ownL (cs.filter (fun c => !bad c)) else [])

/-- children left -/
def YG (bad : Tree → Bool) (cs : List Tree) : List Tree :=
  if (cs.filter (fun c => !bad c)).length ≤ 1 then (cs.filter (fun c => !bad c)).flatMap Tree.kids
  else cs.filter (fun c => !bad c)

/-- the node `i` with own pixels `o` and children `cs` after the bad children have been absorbed
and, if at most one child is left, that child dissolved too (its children are taken over) -/
def finishG (bad : Tree → Bool) (i : Nat) (o : List Nat) (cs : List Tree) : Tree :=
  node i (o ++ XG bad cs) (YG bad cs)

theorem ownL_append (a b : List Tree) : ownL (a ++ b) = ownL a ++ ownL b := by
  simp [ownL]

theorem ownL_nil : ownL [] = [] := rfl

theorem ownL_cons (t : Tree) (ts : List Tree) : ownL (t :: ts) = t.own ++ ownL ts := by
  simp [ownL]

theorem flatMap_kids_le_one_sim {K K' : List Tree} (hk : SmL K K') (hc : K.length ≤ 1) :
    SmL (K.flatMap Tree.kids) (K'.flatMap Tree.kids) := by
  match K, hc, hk with
  | [], _, hk => rw [hk.nil_left]; exact .nil
  | [t], _, hk =>
    obtain ⟨t', rfl, ht⟩ := hk.single_left
    simpa using P10.Sim.kids ht

theorem finishG_sim {bad bad' : Tree → Bool} {i i' : Nat} {o o' : List Nat} {cs cs' : List Tree}
    (ho : o'.Perm o) (hcs : SmL cs cs')
    (hb : ∀ c ∈ cs, ∀ c', Sm c c' → bad c = bad' c') :
    Sm (finishG bad i o cs) (finishG bad' i' o' cs') := by
  have hm : SmL (cs.filter bad) (cs'.filter bad') := hcs.filter hb
  have hk : SmL (cs.filter (fun c => !bad c)) (cs'.filter (fun c => !bad' c)) :=
    hcs.filter (fun c hc c' h => by rw [hb c hc c' h])
  have hlen := hk.length_eq
  unfold finishG XG YG
  rw [← hlen]
  by_cases hc : (cs.filter (fun c => !bad c)).length ≤ 1
  · simp only [hc, if_true]
    apply Sm.of'
    · simp only [PruneP.own_node]
      exact ho.append ((SmL.ownL' hm).append (SmL.ownL' hk))
    · simp only [PruneP.kids_node]
      exact flatMap_kids_le_one_sim hk hc
  · simp only [hc, if_false]
    apply Sm.of'
    · simp only [PruneP.own_node]
      exact ho.append ((SmL.ownL' hm).append (List.Perm.refl _))
    · simp only [PruneP.kids_node]
      exact hk

theorem finishG_congr {b b' : Tree → Bool} (i : Nat) (o : List Nat) {cs : List Tree}
    (h : ∀ c ∈ cs, b c = b' c) : finishG b i o cs = finishG b' i o cs := by
  have h1 : cs.filter b = cs.filter b' := List.filter_congr h
  have h2 : cs.filter (fun c => !b c) = cs.filter (fun c => !b' c) :=
    List.filter_congr (fun c hc => by rw [h c hc])
  simp only [finishG, XG, YG, h1, h2]

theorem finishG_perm (b : Tree → Bool) (i : Nat) (o : List Nat) {cs cs' : List Tree}
    (h : cs.Perm cs') : Sm (finishG b i o cs) (finishG b i o cs') := by
  have hm : (cs.filter b).Perm (cs'.filter b) := h.filter _
  have hk : (cs.filter (fun c => !b c)).Perm (cs'.filter (fun c => !b c)) := h.filter _
  have hlen := hk.length_eq
  unfold finishG XG YG
  rw [← hlen]
  by_cases hc : (cs.filter (fun c => !b c)).length ≤ 1
  · simp only [hc, if_true]
    apply Sm.of'
    · simp only [PruneP.own_node]
      exact (List.Perm.refl _).append ((P10.ownL_perm hm.symm).append (P10.ownL_perm hk.symm))
    · simp only [PruneP.kids_node]
      exact flatMap_kids_le_one_sim (SmL.of_perm hk) hc
  · simp only [hc, if_false]
    apply Sm.of'
    · simp only [PruneP.own_node]
      exact (List.Perm.refl _).append ((P10.ownL_perm hm.symm).append (List.Perm.refl _))
    · simp only [PruneP.kids_node]
      exact SmL.of_perm hk

/-- bad children at the front can be absorbed first -/
theorem finishG_absorb (b : Tree → Bool) (i : Nat) (o : List Nat) (B K : List Tree)
    (hB : ∀ c ∈ B, b c = true) : finishG b i (o ++ ownL B) K = finishG b i o (B ++ K) := by
  have h1 : (B ++ K).filter b = B ++ K.filter b := by
    rw [List.filter_append, List.filter_eq_self.mpr hB]
  have h2 : (B ++ K).filter (fun c => !b c) = K.filter (fun c => !b c) := by
    rw [List.filter_append]
    have : B.filter (fun c => !b c) = [] := by
      apply List.filter_eq_nil_iff.mpr; intro c hc; simp [hB c hc]
    rw [this]; rfl
  simp only [finishG, XG, YG, h1, h2, ownL_append, List.append_assoc]

theorem finishG_nil (b : Tree → Bool) (i : Nat) (o : List Nat) : finishG b i o [] = node i o [] := by
  simp [finishG, XG, YG, ownL]

/-- a single child is always dissolved -/
theorem finishG_single (b : Tree → Bool) (i : Nat) (o : List Nat) (c : Tree)
    (hb : b c = true → c.kids = []) : finishG b i o [c] = node i (o ++ c.own) c.kids := by
  cases hc : b c with
  | true => simp [finishG, XG, YG, ownL, hc, hb hc]
  | false => simp [finishG, XG, YG, ownL, hc]

theorem pixelsL_leaves {l : List Tree} (h : ∀ c ∈ l, c.kids = []) : pixelsL l = ownL l := by
  induction l with
  | nil => rfl
  | cons c cs ih =>
    rw [ownL_cons, ← ih (fun x hx => h x (List.mem_cons_of_mem _ hx))]
    simp [pixelsL, pixels_eq c, h c (by simp)]

theorem pixelsL_le_one {K : List Tree} (hc : K.length ≤ 1) :
    ownL K ++ pixelsL (K.flatMap Tree.kids) = pixelsL K := by
  match K, hc with
  | [], _ => rfl
  | [t], _ => simp [ownL, pixelsL, pixels_eq t]

theorem finishG_pixels (b : Tree → Bool) (i : Nat) (o : List Nat) (cs : List Tree)
    (hb : ∀ c ∈ cs, b c = true → c.kids = []) :
    (finishG b i o cs).pixels.Perm (o ++ pixelsL cs) := by
  have hp := pixelsL_perm (filter_partition_perm cs b)
  rw [pixelsL_append, pixelsL_leaves (l := cs.filter b)
    (fun c hc => hb c (List.mem_filter.mp hc).1 (List.mem_filter.mp hc).2)] at hp
  refine List.Perm.trans ?_ (List.Perm.append_left o hp.symm)
  unfold finishG XG YG
  by_cases hc : (cs.filter (fun c => !b c)).length ≤ 1
  · simp only [hc, if_true, pixels, List.append_assoc]
    rw [pixelsL_le_one hc]
  · simp only [hc, if_false, pixels, List.append_assoc, List.nil_append]
    exact List.Perm.refl _

theorem finishG_kids_nil_of_all_bad (b : Tree → Bool) (i : Nat) (o : List Nat) (cs : List Tree)
    (h : ∀ c ∈ cs, b c = true) : (finishG b i o cs).kids = [] := by
  have : cs.filter (fun c => !b c) = [] := by
    apply List.filter_eq_nil_iff.mpr; intro c hc; simp [h c hc]
  simp [finishG, YG, this]

/-! ## the declarative collapse -/

/-- the region has fewer than `n` pixels -/
def fails (n : Nat) (t : Tree) : Bool := decide (t.pixels.length < n)

/-- a leaf failing `min_npix = n` -/
def bn (n : Nat) (t : Tree) : Bool := t.isLeaf && fails n t

mutual
/-- bottom-up: collapse the children, absorb those that have become failing leaves, dissolve a
single remaining child -/
def collapse (n : Nat) : Tree → Tree
  | node i o ks => finishG (bn n) i o (collapseL n ks)
def collapseL (n : Nat) : List Tree → List Tree
  | [] => []
  | t :: ts => collapse n t :: collapseL n ts
end

theorem collapseL_eq_map (n : Nat) (l : List Tree) : collapseL n l = l.map (collapse n) := by
  induction l with
  | nil => rfl
  | cons t ts ih => simp [collapseL, ih]

theorem collapse_eq (n : Nat) (t : Tree) :
    collapse n t = finishG (bn n) t.id t.own (t.kids.map (collapse n)) := by
  cases t with | node i o ks => simp [collapse, collapseL_eq_map]

theorem collapse_node (n : Nat) (i : Nat) (o : List Nat) (ks : List Tree) :
    collapse n (node i o ks) = finishG (bn n) i o (ks.map (collapse n)) := by
  simp [collapse, collapseL_eq_map]

theorem bn_leaf {n : Nat} {c : Tree} (h : bn n c = true) : c.kids = [] := by
  simp only [bn, Bool.and_eq_true] at h
  exact (PruneP.isLeaf_iff c).mp h.1

theorem collapse_pixels_aux (n : Nat) :
    (∀ t : Tree, (collapse n t).pixels.Perm t.pixels) ∧
    (∀ l : List Tree, (pixelsL (l.map (collapse n))).Perm (pixelsL l)) := by
  apply Tree.forest_induction
  · intro i o ks ih
    rw [collapse_node]
    refine (finishG_pixels _ _ _ _ (fun c _ h => bn_leaf h)).trans ?_
    simp only [pixels]
    exact List.Perm.append_left o ih
  · simp [pixelsL]
  · intro t ts h1 h2
    simp only [List.map_cons, pixelsL]
    exact h1.append h2

theorem collapse_pixels (n : Nat) (t : Tree) : (collapse n t).pixels.Perm t.pixels :=
  (collapse_pixels_aux n).1 t

theorem fails_sim {n : Nat} {c c' : Tree} (h : Sm c c') : fails n c = fails n c' := by
  simp only [fails, (Sm.pixels' h).length_eq]

theorem bn_sim {n : Nat} {c c' : Tree} (h : Sm c c') : bn n c = bn n c' := by
  simp only [bn, fails_sim h, Sm.isLeaf' h]

theorem fails_collapse (n : Nat) (t : Tree) : fails n (collapse n t) = fails n t := by
  simp only [fails, (collapse_pixels n t).length_eq]

theorem length_pixels_kid_le {t k : Tree} (hk : k ∈ t.kids) : k.pixels.length ≤ t.pixels.length := by
  obtain ⟨a, b, e⟩ := List.append_of_mem hk
  rw [pixels_eq t, e, pixelsL_append]
  simp only [pixelsL, List.length_append]
  omega

theorem collapse_fails_leaf_aux (n : Nat) :
    (∀ t : Tree, fails n t = true → (collapse n t).kids = []) ∧
    (∀ l : List Tree, ∀ k ∈ l, fails n k = true → (collapse n k).kids = []) := by
  apply Tree.forest_induction
  · intro i o ks ih hf
    rw [collapse_node]
    apply finishG_kids_nil_of_all_bad
    intro c hc
    obtain ⟨k, hk, rfl⟩ := List.mem_map.mp hc
    have hfk : fails n k = true := by
      have := length_pixels_kid_le (t := node i o ks) (k := k) hk
      simp only [fails, decide_eq_true_eq] at hf ⊢
      omega
    simp only [bn, Bool.and_eq_true]
    exact ⟨(PruneP.isLeaf_iff _).mpr (ih k hk hfk), by rw [fails_collapse]; exact hfk⟩
  · intro k hk; cases hk
  · intro t ts h1 h2 k hk hf
    rcases List.mem_cons.mp hk with rfl | hk
    · exact h1 hf
    · exact h2 k hk hf

/-- a structure that fails collapses to a leaf -/
theorem collapse_fails_leaf {n : Nat} {t : Tree} (h : fails n t = true) : (collapse n t).kids = [] :=
  (collapse_fails_leaf_aux n).1 t h

/-- after collapsing, "failing leaf" just means "fails" -/
theorem bn_collapse (n : Nat) (t : Tree) : bn n (collapse n t) = fails n t := by
  cases hf : fails n t with
  | true =>
    simp only [bn, fails_collapse, hf, Bool.and_true]
    exact (PruneP.isLeaf_iff _).mpr (collapse_fails_leaf hf)
  | false => simp [bn, fails_collapse, hf]

theorem collapse_leaf (n : Nat) {t : Tree} (h : t.kids = []) : collapse n t = node t.id t.own [] := by
  rw [collapse_eq, h]; simp [finishG_nil]

theorem collapse_sim_aux (n : Nat) :
    (∀ t t' : Tree, Sm t t' → Sm (collapse n t) (collapse n t')) ∧
    (∀ l l' : List Tree, SmL l l' → SmL (l.map (collapse n)) (l'.map (collapse n))) := by
  apply Tree.forest_induction
  · intro i o ks ih t' h
    cases t' with | node i' o' ks' =>
    rw [collapse_node, collapse_node]
    exact finishG_sim (Sm.own' h) (ih _ (P10.Sim.kids h)) (fun c _ c' hcc => bn_sim hcc)
  · intro l' h; cases h; exact .nil
  · intro t ts iht ihts l' h
    cases h with
    | @cons _ t' _ ts' _ h1 h2 h3 =>
      have : SmL ((t :: ts).map (collapse n)) ((t' :: ts').map (collapse n)) :=
        .cons (iht _ h1) (ihts _ h2) (List.Perm.refl _)
      exact this.perm_right (h3.map _).symm

theorem collapse_sim {n : Nat} {t t' : Tree} (h : Sm t t') : Sm (collapse n t) (collapse n t') :=
  (collapse_sim_aux n).1 t t' h

theorem collapseL_sim {n : Nat} {l l' : List Tree} (h : SmL l l') :
    SmL (l.map (collapse n)) (l'.map (collapse n)) := (collapse_sim_aux n).2 l l' h

/-! ## collapsing a finished node -/

theorem ownL_map_collapse_leaves (n : Nat) {l : List Tree} (h : ∀ t ∈ l, t.kids = []) :
    ownL (l.map (collapse n)) = ownL l := by
  induction l with
  | nil => rfl
  | cons t ts ih =>
    rw [List.map_cons, ownL_cons, ownL_cons, ih (fun x hx => h x (List.mem_cons_of_mem _ hx)),
      collapse_leaf n (h t (by simp))]
    rfl

/-- **nested finishing.**  Collapsing a node finished with test `b0` (which only holds for
leaves) is finishing the collapsed children with a test `b1` that, on a collapsed child, says
"`b0` held or the child fails". -/
theorem collapse_finishG (n : Nat) (b0 b1 : Tree → Bool) (i : Nat) (o : List Nat) (A : List Tree)
    (hb0 : ∀ t ∈ A, b0 t = true → t.kids = [])
    (hb1 : ∀ t ∈ A, b1 (collapse n t) = (b0 t || fails n t)) :
    Sm (collapse n (finishG b0 i o A)) (finishG b1 i o (A.map (collapse n))) := by
  have hm0 : ∀ t ∈ A.filter b0, t ∈ A ∧ b0 t = true := fun t ht => List.mem_filter.mp ht
  have hk0 : ∀ t ∈ A.filter (fun c => !b0 c), t ∈ A ∧ b0 t = false := by
    intro t ht
    have := List.mem_filter.mp ht
    exact ⟨this.1, by simpa using this.2⟩
  have hperm : (A.map (collapse n)).Perm
      ((A.filter b0).map (collapse n) ++ (A.filter (fun c => !b0 c)).map (collapse n)) := by
    simpa using (filter_partition_perm A b0).map (collapse n)
  unfold finishG XG YG
  generalize A.filter b0 = m0 at *
  generalize A.filter (fun c => !b0 c) = k0 at *
  -- the right-hand side: absorb the `b0`-bad leaves first
  have hR : Sm (finishG b1 i (o ++ ownL m0) (k0.map (collapse n)))
      (finishG b1 i o (A.map (collapse n))) := by
    have hbad : ∀ c ∈ m0.map (collapse n), b1 c = true := by
      intro c hc
      obtain ⟨t, ht, rfl⟩ := List.mem_map.mp hc
      rw [hb1 t (hm0 t ht).1, (hm0 t ht).2]; rfl
    have hown : ownL (m0.map (collapse n)) = ownL m0 :=
      ownL_map_collapse_leaves n (fun t ht => hb0 t (hm0 t ht).1 (hm0 t ht).2)
    rw [← hown, finishG_absorb b1 i o _ _ hbad]
    exact (finishG_perm b1 i o hperm).symm
  refine Sm.trans ?_ hR
  rw [collapse_node]
  by_cases hc : k0.length ≤ 1
  · simp only [hc, if_true]
    match k0, hc, hk0 with
    | [], _, _ =>
      simp only [List.flatMap_nil, List.map_nil, finishG_nil, ownL_nil, List.append_nil]
      exact Sm.refl _
    | [k], _, hk0 =>
      have hkA := hk0 k (by simp)
      have hs : b1 (collapse n k) = true → (collapse n k).kids = [] := by
        intro h
        rw [hb1 k hkA.1, hkA.2, Bool.false_or] at h
        exact collapse_fails_leaf h
      simp only [List.map_cons, List.map_nil]
      rw [finishG_single b1 i _ _ hs, collapse_eq n k]
      simp only [List.flatMap_cons, List.flatMap_nil, List.append_nil, ownL_cons, ownL_nil]
      unfold finishG
      apply Sm.of'
      · simp only [PruneP.own_node, List.append_assoc]; exact List.Perm.refl _
      · simp only [PruneP.kids_node]; exact SmL.refl _
  · simp only [hc, if_false, List.append_nil]
    rw [finishG_congr (b := bn n) (b' := b1)]
    · exact Sm.refl _
    · intro c hcm
      obtain ⟨t, ht, rfl⟩ := List.mem_map.mp hcm
      rw [bn_collapse, hb1 t (hk0 t ht).1, (hk0 t ht).2, Bool.false_or]

/-! ## the receiving structure of one step is a finished node -/

theorem joinAdj_finishG (E : Env) (p : Nat) (A : List Tree) :
    Sm (joinAdj E p A) (finishG (insig E p) p [p] A) := by
  obtain ⟨s1, s2⟩ := P10.joinAdj_spec E p A
  have hpart := P10.ownL_partition A (insig E p)
  unfold finishG XG YG
  by_cases hc : (A.filter (fun t => !insig E p t)).length ≤ 1
  · obtain ⟨o1, k1⟩ := s1 hc
    simp only [hc, if_true]
    apply Sm.of'
    · simp only [PruneP.own_node, List.singleton_append]
      exact (hpart.symm.cons p).trans o1.symm
    · rw [k1]; exact SmL.refl _
  · obtain ⟨o2, k2⟩ := s2 (by omega)
    simp only [hc, if_false, List.append_nil]
    apply Sm.of'
    · simp only [PruneP.own_node, List.singleton_append]
      exact o2.symm
    · rw [k2]; exact SmL.refl _

/-! ## the significance test with `min_delta = 0` on a sorted run -/

theorem vmax_perm (val : Nat → Int) {t t' : Tree} (h : t'.own.Perm t.own) (hne : t.own ≠ []) :
    t'.vmax val = t.vmax val := by
  have hne' : t'.own ≠ [] := by
    intro e; rw [e] at h; exact hne (List.nil_perm.mp h)
  obtain ⟨a, ha, hv⟩ := ContourP.vmax_attained val t hne
  obtain ⟨a', ha', hv'⟩ := ContourP.vmax_attained val t' hne'
  have h1 := ContourP.le_vmax val t a' (h.subset ha')
  have h2 := ContourP.le_vmax val t' a (h.symm.subset ha)
  omega

theorem insig_npix (val : Nat → Int) (nbrs : Nat → List Nat) (n p : Nat) (t : Tree)
    (hne : t.own ≠ []) (hle : ∀ a ∈ t.own, val p ≤ val a) :
    insig (envOf val nbrs [Crit.minDelta 0, Crit.minNpix n]) p t =
      (t.isLeaf && (t.vmax val == val p || fails n t)) := by
  obtain ⟨a, ha, hv⟩ := ContourP.vmax_attained val t hne
  have h0 : decide (0 ≤ t.vmax val - val p) = true := by
    have := hle a ha
    simp only [decide_eq_true_eq]; omega
  simp only [insig, envOf, allMerge, List.all_cons, List.all_nil, Crit.atMerge, fails, h0,
    Bool.true_and, Bool.and_true]
  congr 2
  by_cases h : n ≤ t.pixels.length
  · simp [h]
  · simp [h]; omega

/-- **the strict test on the collapsed root** is "the loose test, or the region fails". -/
theorem insig_rel (val : Nat → Int) (nbrs : Nat → List Nat) (n0 n1 : Nat) (h01 : n0 ≤ n1)
    (p : Nat) (t0 t1 : Tree) (hne : t0.own ≠ []) (hle : ∀ a ∈ t0.pixels, val p ≤ val a)
    (hbr : t0.kids ≠ [] → ∃ x ∈ t0.pixels, val p < val x)
    (hs : Sm (collapse n1 t0) t1) :
    insig (envOf val nbrs [Crit.minDelta 0, Crit.minNpix n1]) p t1 =
      (insig (envOf val nbrs [Crit.minDelta 0, Crit.minNpix n0]) p t0 || fails n1 t0) := by
  have hpix : t1.pixels.Perm t0.pixels := (Sm.pixels' hs).trans (collapse_pixels n1 t0)
  have hne1 : t1.own ≠ [] := by
    intro e
    have h := Sm.own' hs
    rw [e, collapse_eq] at h
    have := List.nil_perm.mp h
    simp only [finishG, PruneP.own_node, List.append_eq_nil_iff] at this
    exact hne this.1
  have hle1 : ∀ a ∈ t1.own, val p ≤ val a :=
    fun a ha => hle a (hpix.subset (ContourP.own_pixels_sub t1 ha))
  have hf1 : fails n1 t1 = fails n1 t0 := by rw [← fails_sim hs, fails_collapse]
  rw [insig_npix val nbrs n1 p t1 hne1 hle1,
    insig_npix val nbrs n0 p t0 hne (fun a ha => hle a (ContourP.own_pixels_sub t0 ha)), hf1]
  by_cases hk : t0.kids = []
  · -- a leaf is not changed by collapsing
    have hc := collapse_leaf n1 hk
    rw [hc] at hs
    have hk1 : t1.kids = [] := (Sm.kids_nil hs).mp rfl
    have hv : t1.vmax val = t0.vmax val :=
      vmax_perm (t := t0) val (by simpa using Sm.own' hs) hne
    have hmono : fails n0 t0 = true → fails n1 t0 = true := by
      simp only [fails, decide_eq_true_eq]; omega
    rw [hv, (PruneP.isLeaf_iff t1).mpr hk1, (PruneP.isLeaf_iff t0).mpr hk]
    cases h1 : fails n0 t0 <;> cases h2 : fails n1 t0 <;> simp_all
  · have hl0 : t0.isLeaf = false := by
      cases h : t0.isLeaf with
      | false => rfl
      | true => exact absurd ((PruneP.isLeaf_iff t0).mp h) hk
    rw [hl0]
    cases hf : fails n1 t0 with
    | true =>
      have : t1.kids = [] := (Sm.kids_nil hs).mp (collapse_fails_leaf hf)
      simp [(PruneP.isLeaf_iff t1).mpr this]
    | false =>
      simp only [Bool.false_and, Bool.or_false]
      cases hl1 : t1.isLeaf with
      | false => rfl
      | true =>
        have hk1 : t1.kids = [] := (PruneP.isLeaf_iff t1).mp hl1
        obtain ⟨x, hx, hlt⟩ := hbr hk
        have hx1 : x ∈ t1.own := by
          have := hpix.symm.subset hx
          rw [pixels_eq, hk1] at this
          simpa [pixelsL] using this
        have := ContourP.le_vmax val t1 x hx1
        simp only [Bool.true_and, beq_eq_false_iff_ne, ne_eq]
        omega

/-! ## one step of the two runs -/

theorem f2_map {α β γ : Type} {S : β → γ → Prop} (f : α → β) {l : List α} {m : List γ} :
    F2 (fun a c => S (f a) c) l m ↔ F2 S (l.map f) m := by
  constructor
  · intro h
    induction h with
    | nil => exact .nil
    | cons h _ ih => exact .cons h ih
  · intro h
    induction l generalizing m with
    | nil => cases h; exact .nil
    | cons a l ih => cases h with | cons h1 h2 => exact .cons h1 (ih h2)

theorem pr_map {α β γ : Type} {S : β → γ → Prop} (f : α → β) {l : List α} {l' : List γ} :
    PR (fun a c => S (f a) c) l l' ↔ PR S (l.map f) l' := by
  constructor
  · rintro ⟨m, h, pm⟩; exact ⟨m, (f2_map f).mp h, pm⟩
  · rintro ⟨m, h, pm⟩; exact ⟨m, (f2_map f).mpr h, pm⟩

/-- the simulation relation on roots: the strict root is the collapsed loose root -/
abbrev RC (n : Nat) (t0 t1 : Tree) : Prop := Sm (collapse n t0) t1

theorem rc_iff {n : Nat} {l l' : List Tree} : PR (RC n) l l' ↔ SmL (l.map (collapse n)) l' := by
  show _ ↔ SimL (fun p => p) _ _
  rw [P10.simL_iff]; exact pr_map (S := Sm) (collapse n)

section Step
variable (val : Nat → Int) (nbrs : Nat → List Nat) (n0 n1 : Nat)

theorem joinAdj_rel {A0 A1 : List Tree} {p : Nat}
    (hA : PR (RC n1) A0 A1)
    (hins : ∀ t0 ∈ A0, ∀ t1, RC n1 t0 t1 →
      insig (envOf val nbrs [Crit.minDelta 0, Crit.minNpix n1]) p t1 =
        (insig (envOf val nbrs [Crit.minDelta 0, Crit.minNpix n0]) p t0 || fails n1 t0)) :
    RC n1 (joinAdj (envOf val nbrs [Crit.minDelta 0, Crit.minNpix n0]) p A0)
      (joinAdj (envOf val nbrs [Crit.minDelta 0, Crit.minNpix n1]) p A1) := by
  generalize hE0 : envOf val nbrs [Crit.minDelta 0, Crit.minNpix n0] = E0 at *
  generalize hE1 : envOf val nbrs [Crit.minDelta 0, Crit.minNpix n1] = E1 at *
  have h1 : Sm (collapse n1 (joinAdj E0 p A0)) (collapse n1 (finishG (insig E0 p) p [p] A0)) :=
    collapse_sim (joinAdj_finishG E0 p A0)
  have h2 : Sm (collapse n1 (finishG (insig E0 p) p [p] A0))
      (finishG (insig E1 p) p [p] (A0.map (collapse n1))) :=
    collapse_finishG n1 (insig E0 p) (insig E1 p) p [p] A0
      (fun t _ h => ((insig_iff E0 p t).mp h).1)
      (fun t ht => hins t ht _ (Sm.refl _))
  have h3 : Sm (finishG (insig E1 p) p [p] (A0.map (collapse n1))) (finishG (insig E1 p) p [p] A1) := by
    apply finishG_sim (List.Perm.refl _) (rc_iff.mp hA)
    intro c hc c' hcc
    obtain ⟨t0, ht0, rfl⟩ := List.mem_map.mp hc
    rw [hins t0 ht0 c' hcc, hins t0 ht0 _ (Sm.refl _)]
  exact ((h1.trans h2).trans h3).trans (joinAdj_finishG E1 p A1).symm

end Step

/-! ## facts about the loose run needed by the simulation -/

/-- relative to the processed prefix `pre`: roots hold processed pixels only, own at least one
pixel, and a branch holds a pixel strictly brighter than some processed pixel (hence strictly
brighter than every later pixel of a sorted order) -/
structure LInv (val : Nat → Int) (pre : List Nat) (roots : List Tree) : Prop where
  pix : ∀ x ∈ pixelsL roots, x ∈ pre
  ne : ∀ t ∈ roots, t.own ≠ []
  br : ∀ t ∈ roots, t.kids ≠ [] → ∃ x ∈ t.pixels, ∃ y ∈ pre, val y < val x

theorem LInv.nil (val : Nat → Int) : LInv val [] [] :=
  ⟨by simp [pixelsL], by simp, by simp⟩

theorem step_LInv (E : Env) (pre : List Nat) (roots : List Tree) (p : Nat)
    (h : LInv E.val pre roots) (hle : ∀ x ∈ pre, E.val p ≤ E.val x) :
    LInv E.val (pre ++ [p]) (step E roots p) := by
  refine ⟨?_, P10.step_own_ne_nil E roots p h.ne, ?_⟩
  · intro x hx
    rcases List.mem_cons.mp ((step_pixels E roots p).subset hx) with rfl | hx
    · simp
    · exact List.mem_append_left _ (h.pix x hx)
  · intro t ht hk
    have hold : ∀ u ∈ roots, u.kids ≠ [] → ∃ x ∈ u.pixels, ∃ y ∈ pre ++ [p], E.val y < E.val x := by
      intro u hu hku
      obtain ⟨x, hx, y, hy, hlt⟩ := h.br u hu hku
      exact ⟨x, hx, y, List.mem_append_left _ hy, hlt⟩
    rcases ContourP.step_root_cases E roots p t ht with ht | ⟨rfl, hn⟩
    · exact hold t ht hk
    · rcases hn with ⟨u, hu, htu, _, hku, _⟩ | ⟨_, hkids, _⟩
      · rw [hku] at hk
        obtain ⟨x, hx, y, hy, hlt⟩ := hold u hu hk
        refine ⟨x, ?_, y, hy, hlt⟩
        apply (joinAdj_pixels E p _).symm.subset
        exact List.mem_cons_of_mem _
          (mem_pixelsL.mpr ⟨u, ContourP.mem_adjOf.mpr ⟨hu, htu⟩, hx⟩)
      · obtain ⟨L, hL⟩ := List.exists_mem_of_ne_nil _ hk
        obtain ⟨hLr, _, hLi⟩ := hkids L hL
        have hsub : ∀ x ∈ L.pixels,
            x ∈ (joinAdj E p (sortById (roots.filter (touches E p)))).pixels := by
          intro x hx
          exact ContourP.kids_pixels_sub _ (mem_pixelsL.mpr ⟨L, hL, hx⟩)
        by_cases hLk : L.kids = []
        · have hv : L.vmax E.val ≠ E.val p := by
            intro e
            have := (insig_iff E p L).mpr ⟨hLk, Or.inl e⟩
            rw [hLi] at this; cases this
          obtain ⟨a, ha, hva⟩ := ContourP.vmax_attained E.val L (h.ne L hLr)
          have hapre : a ∈ pre :=
            h.pix a (mem_pixelsL.mpr ⟨L, hLr, ContourP.own_pixels_sub L ha⟩)
          have := hle a hapre
          refine ⟨a, hsub a (ContourP.own_pixels_sub L ha), p, by simp, ?_⟩
          omega
        · obtain ⟨x, hx, y, hy, hlt⟩ := hold L hLr hLk
          exact ⟨x, hsub x hx, y, hy, hlt⟩

/-! ## the run-level simulation -/

section Run
variable (val : Nat → Int) (nbrs : Nat → List Nat) (n0 n1 : Nat)

theorem touches_rel {p : Nat} {t0 t1 : Tree} (h : RC n1 t0 t1) :
    touches (envOf val nbrs [Crit.minDelta 0, Crit.minNpix n0]) p t0 =
      touches (envOf val nbrs [Crit.minDelta 0, Crit.minNpix n1]) p t1 := by
  have hpix : t1.pixels.Perm t0.pixels := (Sm.pixels' h).trans (collapse_pixels n1 t0)
  rw [Bool.eq_iff_iff, touches_iff, touches_iff]
  constructor
  · rintro ⟨q, hq, hn⟩; exact ⟨q, hpix.symm.subset hq, hn⟩
  · rintro ⟨q, hq, hn⟩; exact ⟨q, hpix.subset hq, hn⟩

theorem step_rel (h01 : n0 ≤ n1) {pre : List Nat} {roots0 roots1 : List Tree} {p : Nat}
    (hL : LInv val pre roots0) (hle : ∀ x ∈ pre, val p ≤ val x)
    (hR : PR (RC n1) roots0 roots1) :
    PR (RC n1) (step (envOf val nbrs [Crit.minDelta 0, Crit.minNpix n0]) roots0 p)
      (step (envOf val nbrs [Crit.minDelta 0, Crit.minNpix n1]) roots1 p) := by
  have ht : ∀ t0 ∈ roots0, ∀ t1, RC n1 t0 t1 →
      touches (envOf val nbrs [Crit.minDelta 0, Crit.minNpix n0]) p t0 =
        touches (envOf val nbrs [Crit.minDelta 0, Crit.minNpix n1]) p t1 :=
    fun t0 _ t1 h => touches_rel val nbrs n0 n1 h
  unfold step
  apply P10.PR.append
  · exact hR.filter (fun t0 h0 t1 h => by rw [ht t0 h0 t1 h])
  · apply P10.PR.single
    apply joinAdj_rel
    · exact ((hR.filter ht).perm_left (sortById_perm _).symm).perm_right (sortById_perm _).symm
    · intro t0 ht0 t1 h
      have hr : t0 ∈ roots0 := (List.mem_filter.mp (mem_sortById.mp ht0)).1
      have hpre : ∀ a ∈ t0.pixels, a ∈ pre := fun a ha => hL.pix a (mem_pixelsL.mpr ⟨t0, hr, ha⟩)
      apply insig_rel val nbrs n0 n1 h01 p t0 t1 (hL.ne t0 hr) (fun a ha => hle a (hpre a ha)) _ h
      intro hk
      obtain ⟨x, hx, y, hy, hlt⟩ := hL.br t0 hr hk
      have := hle y hy
      exact ⟨x, hx, by omega⟩

theorem foldl_rel (h01 : n0 ≤ n1) (ps : List Nat) :
    ∀ (pre : List Nat) (roots0 roots1 : List Tree), LInv val pre roots0 →
      PR (RC n1) roots0 roots1 → (pre ++ ps).Pairwise (fun a b => val b ≤ val a) →
      PR (RC n1) (ps.foldl (step (envOf val nbrs [Crit.minDelta 0, Crit.minNpix n0])) roots0)
        (ps.foldl (step (envOf val nbrs [Crit.minDelta 0, Crit.minNpix n1])) roots1) := by
  induction ps with
  | nil => intro _ _ _ _ hR _; exact hR
  | cons p ps ih =>
    intro pre roots0 roots1 hL hR hs
    simp only [List.foldl_cons]
    have hle : ∀ x ∈ pre, val p ≤ val x := by
      intro x hx
      exact (List.pairwise_append.mp hs).2.2 x hx p (by simp)
    apply ih (pre ++ [p])
    · exact step_LInv (envOf val nbrs [Crit.minDelta 0, Crit.minNpix n0]) pre roots0 p hL hle
    · exact step_rel val nbrs n0 n1 h01 hL hle hR
    · simpa [List.append_assoc] using hs

/-- **(b) the run-level simulation**: after the whole loop (and, with the same proof, after every
prefix) the strict run's roots are the collapsed roots of the loose run. -/
theorem run_collapse (h01 : n0 ≤ n1) (order : List Nat)
    (hsorted : order.Pairwise (fun a b => val b ≤ val a)) :
    SmL ((run (envOf val nbrs [Crit.minDelta 0, Crit.minNpix n0]) order).map (collapse n1))
      (run (envOf val nbrs [Crit.minDelta 0, Crit.minNpix n1]) order) := by
  apply rc_iff.mp
  unfold run
  exact foldl_rel val nbrs n0 n1 h01 order [] [] [] (LInv.nil val) P10.PR.nil (by simpa using hsorted)

end Run

/-! ## the post-hoc test with `min_delta = 0` -/

theorem foldl_min_le_init (xs : List Int) (x : Int) : xs.foldl min x ≤ x := by
  induction xs generalizing x with
  | nil => simp
  | cons y ys ih => simp only [List.foldl_cons]; exact Int.le_trans (ih _) (Int.min_le_left x y)

theorem foldl_min_le_mem (xs : List Int) (x : Int) : ∀ y ∈ xs, xs.foldl min x ≤ y := by
  induction xs generalizing x with
  | nil => intro y hy; simp at hy
  | cons z zs ih =>
    intro y hy
    simp only [List.foldl_cons]
    rcases List.mem_cons.mp hy with rfl | hy
    · exact Int.le_trans (foldl_min_le_init zs _) (Int.min_le_right x y)
    · exact ih _ y hy

theorem minL_le (d : Int) (l : List Int) : ∀ y ∈ l, minL d l ≤ y := by
  cases l with
  | nil => intro y hy; simp at hy
  | cons x xs =>
    intro y hy
    simp only [minL]
    rcases List.mem_cons.mp hy with rfl | hy
    · exact foldl_min_le_init xs _
    · exact foldl_min_le_mem xs x y hy

theorem vmin_le (val : Nat → Int) (t : Tree) : ∀ a ∈ t.own, t.vmin val ≤ val a := by
  intro a ha
  exact minL_le 0 _ _ (List.mem_map.mpr ⟨a, ha, rfl⟩)

theorem vmin_le_vmax (val : Nat → Int) (t : Tree) (hne : t.own ≠ []) : t.vmin val ≤ t.vmax val := by
  obtain ⟨a, ha⟩ := List.exists_mem_of_ne_nil _ hne
  exact Int.le_trans (vmin_le val t a ha) (ContourP.le_vmax val t a ha)

/-- the height of a leaf is at least the height of its parent -/
theorem height_kid_le (val : Nat → Int) {P k : Tree} (hk : k ∈ P.kids) (hl : k.kids = [])
    (hne : k.own ≠ []) : P.height val ≤ k.height val := by
  have hP : P.kids.isEmpty = false := by
    cases h : P.kids with
    | nil => rw [h] at hk; cases hk
    | cons _ _ => rfl
  have h1 : P.height val ≤ k.vmin val := by
    simp only [Tree.height, hP]
    exact minL_le 0 _ _ (List.mem_map.mpr ⟨k, hk, rfl⟩)
  have h2 : k.height val = k.vmax val := by simp [Tree.height, hl]
  rw [h2]
  exact Int.le_trans h1 (vmin_le_vmax val k hne)

/-- for a leaf with own pixels under a parent, the post-hoc test is the `min_npix` test -/
theorem ic_eq (val : Nat → Int) (n : Nat) {P k : Tree} (hk : k ∈ P.kids) (hl : k.kids = [])
    (hne : k.own ≠ []) :
    allChild val [Crit.minDelta 0, Crit.minNpix n] P k = !fails n k := by
  have h0 : decide (0 ≤ k.height val - P.height val) = true := by
    have := height_kid_le val hk hl hne
    simp only [decide_eq_true_eq]; omega
  simp only [allChild, List.all_cons, List.all_nil, Crit.child, h0, Bool.true_and, Bool.and_true, fails]
  by_cases h : n ≤ k.pixels.length
  · simp [h]
  · simp [h]; omega

theorem ic_true_pass (val : Nat → Int) (n : Nat) {P k : Tree}
    (h : allChild val [Crit.minDelta 0, Crit.minNpix n] P k = true) : fails n k = false := by
  simp only [allChild, List.all_cons, List.all_nil, Crit.child, Bool.and_true, Bool.and_eq_true,
    decide_eq_true_eq] at h
  simp only [fails, decide_eq_false_iff_not]
  omega

theorem io_eq (val : Nat → Int) (n : Nat) {t : Tree} (hne : t.own ≠ []) :
    allOrphan val [Crit.minDelta 0, Crit.minNpix n] t = !fails n t := by
  have h0 : decide (0 ≤ t.vmax val - t.vmin val) = true := by
    have := vmin_le_vmax val t hne
    simp only [decide_eq_true_eq]; omega
  simp only [allOrphan, List.all_cons, List.all_nil, Crit.orphan, h0, Bool.true_and, Bool.and_true, fails]
  by_cases h : n ≤ t.pixels.length
  · simp [h]
  · simp [h]; omega

/-! ## a successful scan step, remembering that the pruned leaf failed the test -/

theorem pruneKids_some' (ic : Tree → Tree → Bool) (P : Tree) (rest : List Tree) :
    ∀ (done : List Tree) (t' : Tree), pruneKids ic P done rest = some t' →
      (∃ k ∈ rest, k.kids = [] ∧ ic P k = false ∧ t' = pruneAt P k) ∨
      (∃ a k k' b, rest = a ++ k :: b ∧ pruneIn ic k = some k' ∧
          t' = node P.id P.own (done ++ a ++ k' :: b)) := by
  induction rest with
  | nil => intro done t' h; simp [pruneKids] at h
  | cons k rest ih =>
    intro done t' h
    rw [pruneKids] at h
    have next : pruneKids ic P (done ++ [k]) rest = some t' →
        (∃ k' ∈ k :: rest, k'.kids = [] ∧ ic P k' = false ∧ t' = pruneAt P k') ∨
        (∃ a k₀ k' b, k :: rest = a ++ k₀ :: b ∧ pruneIn ic k₀ = some k' ∧
            t' = node P.id P.own (done ++ a ++ k' :: b)) := by
      intro h
      rcases ih _ _ h with ⟨k₁, hk₁, hl, hf, e⟩ | ⟨a, k₀, k', b, rfl, hp, e⟩
      · exact Or.inl ⟨k₁, List.mem_cons_of_mem _ hk₁, hl, hf, e⟩
      · exact Or.inr ⟨k :: a, k₀, k', b, rfl, hp, by simpa using e⟩
    split at h
    · rename_i hleaf
      split at h
      · exact next h
      · rename_i hic
        left
        exact ⟨k, List.mem_cons_self, (PruneP.isLeaf_iff k).1 hleaf, by simpa using hic,
          (Option.some.inj h).symm⟩
    · split at h
      · rename_i k' hp
        right
        exact ⟨[], k, k', rest, rfl, hp, by simpa using (Option.some.inj h).symm⟩
      · exact next h

theorem pruneIn_ind' (ic : Tree → Tree → Bool) (M : Tree → Tree → Prop)
    (hat : ∀ P k, k ∈ P.kids → k.kids = [] → ic P k = false → M P (pruneAt P k))
    (hctx : ∀ i o a k k' b, pruneIn ic k = some k' → M k k' →
        M (node i o (a ++ k :: b)) (node i o (a ++ k' :: b)))
    (t t' : Tree) (h : pruneIn ic t = some t') : M t t' := by
  suffices H : ∀ n t t', size t ≤ n → pruneIn ic t = some t' → M t t' from H _ t t' (Nat.le_refl _) h
  intro n
  induction n with
  | zero => intro t t' hs; have := PruneP.size_pos t; omega
  | succ n ih =>
    intro t t' hs h
    cases t with | node i o ks =>
    rw [pruneIn] at h
    rcases pruneKids_some' ic _ ks [] t' h with ⟨k, hk, hl, hf, rfl⟩ | ⟨a, k, k', b, rfl, hp, rfl⟩
    · exact hat _ k hk hl hf
    · have hk : size k ≤ n := by
        have : size k ≤ sizeL (a ++ k :: b) := PruneP.sizeL_mem_le (by simp)
        simp only [size] at hs; omega
      simpa [PruneP.id_node, PruneP.own_node] using hctx i o a k k' b hp (ih k k' hk hp)

/-! ## (a) one pruning step does not change the collapse -/

theorem bn_collapse_idem (n : Nat) (t : Tree) :
    bn n (collapse n t) = (bn n t || fails n t) := by
  rw [bn_collapse]
  cases h : fails n t <;> simp [bn, h]

/-- merging a failing leaf into a parent with other than two children -/
theorem collapse_pruneAt_one (n : Nat) (i : Nat) (o : List Nat) (a b : List Tree) (k : Tree)
    (hl : k.kids = []) (hf : fails n k = true) :
    Sm (collapse n (node i (o ++ k.own) (a ++ b))) (collapse n (node i o (a ++ k :: b))) := by
  rw [collapse_node, collapse_node]
  have hb : ∀ c ∈ [collapse n k], bn n c = true := by
    intro c hc
    simp only [List.mem_singleton] at hc
    subst hc
    rw [bn_collapse]; exact hf
  have hown : ownL [collapse n k] = k.own := by
    rw [collapse_leaf n hl]; simp [ownL]
  have h1 := finishG_absorb (bn n) i o [collapse n k] ((a ++ b).map (collapse n)) hb
  rw [hown] at h1
  rw [h1]
  apply finishG_perm
  simp only [List.map_append, List.map_cons, List.singleton_append]
  exact List.perm_middle.symm

/-- merging both children of a two-child parent, one of which is a failing leaf -/
theorem collapse_pruneAt_two (n : Nat) (i : Nat) (o : List Nat) (x y k : Tree)
    (hk : k ∈ [x, y]) (hl : k.kids = []) (hf : fails n k = true) :
    Sm (collapse n (node i (o ++ x.own ++ y.own) (x.kids ++ y.kids)))
      (collapse n (node i o [x, y])) := by
  have hbk : bn n k = true := by
    simp only [bn, hf, Bool.and_true]; exact (PruneP.isLeaf_iff k).mpr hl
  have h1 : Sm (node i (o ++ x.own ++ y.own) (x.kids ++ y.kids)) (finishG (bn n) i o [x, y]) := by
    cases hx : bn n x <;> cases hy : bn n y
    · exfalso
      simp only [List.mem_cons, List.not_mem_nil, or_false] at hk
      rcases hk with rfl | rfl
      · rw [hbk] at hx; cases hx
      · rw [hbk] at hy; cases hy
    · have hyk := bn_leaf hy
      apply Sm.of'
      · simp only [finishG, XG, hx, hy, PruneP.own_node, ownL, List.filter_cons, List.filter_nil]
        simp
        rw [List.perm_iff_count]; intro z
        simp only [List.count_append]; omega
      · simp [finishG, YG, hx, hy, hyk]; exact SmL.refl _
    · have hxk := bn_leaf hx
      apply Sm.of'
      · simp only [finishG, XG, hx, hy, PruneP.own_node, ownL, List.filter_cons, List.filter_nil]
        simp
      · simp [finishG, YG, hx, hy, hxk]; exact SmL.refl _
    · have hxk := bn_leaf hx
      have hyk := bn_leaf hy
      apply Sm.of'
      · simp only [finishG, XG, hx, hy, PruneP.own_node, ownL, List.filter_cons, List.filter_nil]
        simp
      · simp [finishG, YG, hx, hy, hxk, hyk]; exact .nil
  have h2 := collapse_finishG n (bn n) (bn n) i o [x, y] (fun t _ h => bn_leaf h)
    (fun t _ => bn_collapse_idem n t)
  rw [collapse_node n i o [x, y]]
  exact (collapse_sim h1).trans h2

theorem pruneIn_collapse (val : Nat → Int) (n : Nat) (t t' : Tree)
    (h : pruneIn (allChild val [Crit.minDelta 0, Crit.minNpix n]) t = some t')
    (hids : IdsNodup [t]) (hpix : ∀ s ∈ pre t, s.pixels ≠ []) :
    Sm (collapse n t') (collapse n t) := by
  revert hids hpix
  refine pruneIn_ind' _ (fun t t' => IdsNodup [t] → (∀ s ∈ pre t, s.pixels ≠ []) →
    Sm (collapse n t') (collapse n t)) ?_ ?_ t t' h
  · intro P k hk hl hic hids hpix
    have hne : k.own ≠ [] := by
      have := hpix k (PruneP.kid_mem_pre hk)
      rw [pixels_eq, hl] at this
      simpa [pixelsL] using this
    have hf : fails n k = true := by
      have := ic_eq val n hk hl hne
      rw [hic] at this
      simpa using this.symm
    rcases pruneAt_cases P k hk hids with ⟨i, o, a, b, rfl, _, e⟩ | ⟨i, o, x, y, rfl, e⟩
    · rw [e, hl, List.append_nil]
      exact collapse_pruneAt_one n i o a b k hl hf
    · rw [e]
      exact collapse_pruneAt_two n i o x y k (by simpa using hk) hl hf
  · intro i o a k k' b _ ih hids hpix
    have hk := ih (idsNodup_kid hids) (fun s hs => hpix s (PruneP.mem_pre.2 (Or.inr
      (PruneP.mem_preL.2 ⟨k, by simp, hs⟩))))
    rw [collapse_node, collapse_node]
    apply finishG_sim (List.Perm.refl _) _ (fun c _ c' hcc => bn_sim hcc)
    simp only [List.map_append, List.map_cons]
    exact P10.SimL.append (SmL.refl _) (.cons hk (SmL.refl _) (List.Perm.refl _))

theorem pruneForest_collapse (val : Nat → Int) (n : Nat) (f f' : List Tree)
    (h : pruneForest (allChild val [Crit.minDelta 0, Crit.minNpix n]) [] f = some f')
    (hids : IdsNodup f) (hpix : ∀ s ∈ preL f, s.pixels ≠ []) :
    SmL (f'.map (collapse n)) (f.map (collapse n)) := by
  obtain ⟨a, t, t', b, rfl, rfl, hp⟩ := pruneForest_some _ f [] f' h
  have := pruneIn_collapse val n t t' hp (idsNodup_sub hids)
    (fun s hs => hpix s (PruneP.mem_preL.2 ⟨t, by simp, hs⟩))
  simp only [List.nil_append, List.map_append, List.map_cons]
  exact P10.SimL.append (SmL.refl _) (.cons this (SmL.refl _) (List.Perm.refl _))

theorem pruneLoop_collapse (val : Nat → Int) (n : Nat) (k : Nat) :
    ∀ f : List Tree, IdsNodup f → (∀ s ∈ preL f, s.pixels ≠ []) →
      SmL ((pruneLoop (allChild val [Crit.minDelta 0, Crit.minNpix n]) k f).map (collapse n))
        (f.map (collapse n)) := by
  induction k with
  | zero => intro f _ _; exact SmL.refl _
  | succ k ih =>
    intro f hids hpix
    rw [pruneLoop]
    cases hp : pruneForest (allChild val [Crit.minDelta 0, Crit.minNpix n]) [] f with
    | none => exact SmL.refl _
    | some f' =>
      have hpix' : ∀ s ∈ preL f', s.pixels ≠ [] := by
        intro s' hs' e
        obtain ⟨s, hs, _, pm⟩ := pruneForest_regions _ f f' hp hids s' hs'
        rw [e] at pm
        exact hpix s hs (List.nil_perm.mp pm)
      exact (ih f' (pruneForest_idsNodup _ f f' hp hids) hpix').trans
        (pruneForest_collapse val n f f' hp hids hpix)

/-! ## (a) a fixpoint of the scan with the arity discipline is its own collapse -/

/-- "no leaf with a parent fails" below `t` -/
def NoFail (n : Nat) (t : Tree) : Prop := ∀ P ∈ pre t, ∀ k ∈ P.kids, k.kids = [] → fails n k = false

theorem noFail_kid {n : Nat} {t k : Tree} (h : NoFail n t) (hk : k ∈ t.kids) : NoFail n k :=
  fun P hP => h P (PruneP.mem_pre.2 (Or.inr (PruneP.mem_preL.2 ⟨k, hk, hP⟩)))

theorem branch_pass_aux (n : Nat) :
    (∀ t : Tree, NoFail n t → t.kids ≠ [] → fails n t = false) ∧
    (∀ l : List Tree, ∀ k ∈ l, NoFail n k → k.kids ≠ [] → fails n k = false) := by
  apply Tree.forest_induction
  · intro i o ks ih hnf hk
    obtain ⟨k, hkm⟩ := List.exists_mem_of_ne_nil _ hk
    have hkf : fails n k = false := by
      by_cases hl : k.kids = []
      · exact hnf _ (PruneP.self_mem_pre _) k hkm hl
      · exact ih k hkm (noFail_kid hnf hkm) hl
    have := length_pixels_kid_le (t := node i o ks) (k := k) hkm
    simp only [fails, decide_eq_false_iff_not] at hkf ⊢
    omega
  · intro k hk; cases hk
  · intro t ts h1 h2 k hk
    rcases List.mem_cons.mp hk with rfl | hk
    · exact h1
    · exact h2 k hk

theorem collapse_fix_aux (n : Nat) :
    (∀ t : Tree, NoFail n t → (∀ P ∈ pre t, PArity P) → Sm t (collapse n t)) ∧
    (∀ l : List Tree, (∀ k ∈ l, NoFail n k) → (∀ P ∈ preL l, PArity P) →
      SmL l (l.map (collapse n))) := by
  apply Tree.forest_induction
  · intro i o ks ih hnf har
    have hks : SmL ks (ks.map (collapse n)) :=
      ih (fun k hk => noFail_kid hnf hk) (fun P hP => har P (PruneP.mem_pre.2 (Or.inr hP)))
    rw [collapse_node]
    have hgood : ∀ c ∈ ks.map (collapse n), bn n c = false := by
      intro c hc
      obtain ⟨k, hk, rfl⟩ := List.mem_map.mp hc
      rw [bn_collapse]
      by_cases hl : k.kids = []
      · exact hnf _ (PruneP.self_mem_pre _) k hk hl
      · exact (branch_pass_aux n).1 k (noFail_kid hnf hk) hl
    have h1 : (ks.map (collapse n)).filter (bn n) = [] := by
      apply List.filter_eq_nil_iff.mpr; intro c hc; simp [hgood c hc]
    have h2 : (ks.map (collapse n)).filter (fun c => !bn n c) = ks.map (collapse n) := by
      apply List.filter_eq_self.mpr; intro c hc; simp [hgood c hc]
    have hA := har _ (PruneP.self_mem_pre _)
    unfold PArity at hA
    simp only [PruneP.kids_node] at hA
    rcases hA with hA | hA
    · subst hA
      rw [List.map_nil, finishG_nil]; exact Sm.refl _
    · have hlen : ¬ (ks.map (collapse n)).length ≤ 1 := by simp; omega
      apply Sm.of'
      · have hlen' : ¬ ks.length ≤ 1 := by omega
        simp [finishG, XG, h1, h2, hlen', ownL]
      · simp only [finishG, YG, h2, hlen, if_false, PruneP.kids_node]; exact hks
  · intro _ _; exact .nil
  · intro t ts h1 h2 hnf har
    simp only [List.map_cons]
    refine .cons (h1 (hnf t (by simp)) (fun P hP => har P ?_))
      (h2 (fun k hk => hnf k (List.mem_cons_of_mem _ hk)) (fun P hP => har P ?_)) (List.Perm.refl _)
    · rw [PruneP.preL_cons]; exact List.mem_append_left _ hP
    · rw [PruneP.preL_cons]; exact List.mem_append_right _ hP

/-! ## the trunk step and the main theorem -/

/-- the `_make_trunk` filter with `min_delta = 0`, `min_npix = n` -/
abbrev keepT (val : Nat → Int) (n : Nat) (t : Tree) : Bool :=
  !(t.isLeaf && !allOrphan val [Crit.minDelta 0, Crit.minNpix n] t)

theorem keepT_eq (val : Nat → Int) (n : Nat) {t : Tree} (hpix : t.pixels ≠ []) :
    keepT val n t = !bn n t := by
  unfold keepT bn
  cases hl : t.isLeaf with
  | false => rfl
  | true =>
    have hk : t.kids = [] := (PruneP.isLeaf_iff t).mp hl
    have hne : t.own ≠ [] := by
      rw [pixels_eq, hk] at hpix; simpa [pixelsL] using hpix
    rw [io_eq val n hne]; simp

theorem keepT_sim (val : Nat → Int) (n : Nat) {t t' : Tree} (h : Sm t t') (hpix : t.pixels ≠ []) :
    keepT val n t = keepT val n t' := by
  have hpix' : t'.pixels ≠ [] := by
    intro e
    have := Sm.pixels' h
    rw [e] at this
    exact hpix (List.nil_perm.mp this)
  rw [keepT_eq val n hpix, keepT_eq val n hpix', bn_sim h]

theorem pruneLoop_pixels_ne (ic : Tree → Tree → Bool) (k : Nat) (f : List Tree) (hids : IdsNodup f)
    (hpix : ∀ s ∈ preL f, s.pixels ≠ []) : ∀ s ∈ preL (pruneLoop ic k f), s.pixels ≠ [] := by
  intro s' hs' e
  obtain ⟨s, hs, _, pm⟩ := pruneLoop_regions ic k f hids s' hs'
  rw [e] at pm
  exact hpix s hs (List.nil_perm.mp pm)

theorem own_ne_pixels_ne {t : Tree} (h : t.own ≠ []) : t.pixels ≠ [] := by
  rw [pixels_eq]; intro e; exact h (List.append_eq_nil_iff.mp e).1

section Main
variable (val : Nat → Int) (nbrs : Nat → List Nat) (order : List Nat) (n0 n1 : Nat)

/-- **(a)**: the pruning loop applied to the loose trunk computes its collapse -/
theorem pruneLoop_eq_collapse (hnd : order.Nodup) :
    let E0 := envOf val nbrs [Crit.minDelta 0, Crit.minNpix n0]
    let loose := makeTrunk E0 (run E0 order)
    SmL (pruneLoop (allChild val [Crit.minDelta 0, Crit.minNpix n1]) (sizeL loose) loose)
      (loose.map (collapse n1)) := by
  intro E0 loose
  have hsub : ∀ s ∈ preL loose, s ∈ preL (run E0 order) := makeTrunk_nodes_subset E0 _
  have hids : IdsNodup loose := by
    have h := run_ids_nodup E0 order hnd
    unfold IdsNodup
    have h1 : (preL loose).Sublist (preL (sortById (run E0 order))) :=
      preL_sublist List.filter_sublist
    have h2 := ((preL_perm (sortById_perm (run E0 order))).map Tree.id).nodup_iff.mpr h
    exact (h1.map Tree.id).nodup h2
  have hpix : ∀ s ∈ preL loose, s.pixels ≠ [] :=
    fun s hs => own_ne_pixels_ne (run_own_nonempty E0 order s (hsub s hs))
  have har : ∀ s ∈ preL loose, PArity s := fun s hs => compute_arity_pre E0 order s hs
  have hloop := pruneLoop_collapse val n1 (sizeL loose) loose hids hpix
  have hfix := pruneLoop_fixpoint (allChild val [Crit.minDelta 0, Crit.minNpix n1]) loose hids
  rw [pruneForest_none_iff] at hfix
  have harL := pruneLoop_arity (allChild val [Crit.minDelta 0, Crit.minNpix n1]) (sizeL loose)
    loose hids har
  refine SmL.trans ((collapse_fix_aux n1).2 _ ?_ harL) hloop
  intro t ht P hP k hk hl
  exact ic_true_pass val n1 (hfix P (PruneP.mem_preL.2 ⟨t, ht, hP⟩) k hk hl)

/-- **C08 for `min_npix` (with `min_delta = 0`).**  Computing with `min_npix = n0` and pruning
afterwards with `min_npix = n1 ≥ n0` gives the same hierarchy — same regions, same own pixels,
same parent relation; identifiers, child order and own-pixel order may differ — as computing
with `min_npix = n1` directly.  The order must list distinct pixels by non-increasing value
(ties in any order); nothing is assumed about the adjacency. -/
theorem prune_eq_compute_npix (hnd : order.Nodup)
    (hsorted : order.Pairwise (fun a b => val b ≤ val a)) (h01 : n0 ≤ n1) :
    P10.SimL (fun p => p)
      (prune (allChild val [Crit.minDelta 0, Crit.minNpix n1])
        (allOrphan val [Crit.minDelta 0, Crit.minNpix n1])
        (makeTrunk (envOf val nbrs [Crit.minDelta 0, Crit.minNpix n0])
          (run (envOf val nbrs [Crit.minDelta 0, Crit.minNpix n0]) order)))
      (makeTrunk (envOf val nbrs [Crit.minDelta 0, Crit.minNpix n1])
        (run (envOf val nbrs [Crit.minDelta 0, Crit.minNpix n1]) order)) := by
  have hA := pruneLoop_eq_collapse val nbrs order n0 n1 hnd
  have hB := run_collapse val nbrs n0 n1 h01 order hsorted
  simp only at hA
  generalize hE0 : envOf val nbrs [Crit.minDelta 0, Crit.minNpix n0] = E0 at *
  generalize hr0 : run E0 order = roots0 at *
  generalize hr1 : run (envOf val nbrs [Crit.minDelta 0, Crit.minNpix n1]) order = roots1 at *
  have hne0 : ∀ t ∈ roots0, t.own ≠ [] := by
    intro t ht
    rw [← hr0] at ht
    exact run_own_nonempty E0 order t (mem_preL_of_mem ht)
  -- pixels of everything in sight are non-empty
  have hpixC : ∀ c ∈ roots0.map (collapse n1), c.pixels ≠ [] := by
    intro c hc e
    obtain ⟨t, ht, rfl⟩ := List.mem_map.mp hc
    have := collapse_pixels n1 t
    rw [e] at this
    exact own_ne_pixels_ne (hne0 t ht) (List.nil_perm.mp this)
  have hpixLC : ∀ c ∈ (makeTrunk E0 roots0).map (collapse n1), c.pixels ≠ [] := by
    intro c hc
    obtain ⟨t, ht, rfl⟩ := List.mem_map.mp hc
    exact hpixC _ (List.mem_map_of_mem (ContourP.mem_makeTrunk.mp ht).1)
  unfold prune makeTrunkP
  generalize pruneLoop (allChild val [Crit.minDelta 0, Crit.minNpix n1]) (sizeL (makeTrunk E0 roots0))
    (makeTrunk E0 roots0) = L at *
  -- 1. drop the sort on the pruned side
  have s1 : SmL ((sortById L).filter (keepT val n1)) (L.filter (keepT val n1)) :=
    SmL.of_perm ((sortById_perm L).filter _)
  -- 2. pass to the collapse of the loose trunk
  have s2 : SmL (L.filter (keepT val n1)) (((makeTrunk E0 roots0).map (collapse n1)).filter (keepT val n1)) := by
    apply P10.SimL.filter hA
    intro x hx y hxy
    by_cases hxp : x.pixels = []
    · -- cannot happen, but both sides are then equal anyway
      have hyp : y.pixels = [] := by
        have := Sm.pixels' hxy
        rw [hxp] at this
        exact List.perm_nil.mp this
      unfold keepT
      rw [← Sm.isLeaf' hxy]
      cases hl : x.isLeaf with
      | false => rfl
      | true =>
        have hxo : x.own = [] := by rw [pixels_eq] at hxp; exact (List.append_eq_nil_iff.mp hxp).1
        have hyo : y.own = [] := by rw [pixels_eq] at hyp; exact (List.append_eq_nil_iff.mp hyp).1
        simp [allOrphan, Crit.orphan, Tree.vmax, Tree.vmin, hxo, hyo, hxp, hyp]
    · exact keepT_sim val n1 hxy hxp
  -- 3. the loose trunk step is subsumed by the strict one
  have s3 : SmL (((makeTrunk E0 roots0).map (collapse n1)).filter (keepT val n1))
      ((roots0.map (collapse n1)).filter (keepT val n1)) := by
    have hperm : ((makeTrunk E0 roots0).map (collapse n1)).Perm
        ((roots0.filter (fun t => !(t.isLeaf && !E0.indepOrphan t))).map (collapse n1)) := by
      unfold makeTrunk
      exact ((sortById_perm roots0).filter _).map _
    refine (SmL.of_perm (hperm.filter _)).trans ?_
    rw [List.filter_map, List.filter_map, List.filter_filter]
    have : roots0.filter (fun a => (keepT val n1 ∘ collapse n1) a && !(a.isLeaf && !E0.indepOrphan a))
        = roots0.filter (keepT val n1 ∘ collapse n1) := by
      apply List.filter_congr
      intro t ht
      have hk1 : keepT val n1 (collapse n1 t) = !fails n1 t := by
        rw [keepT_eq val n1 (hpixC _ (List.mem_map_of_mem ht)), bn_collapse]
      have hk0 : (!(t.isLeaf && !E0.indepOrphan t)) = !(t.isLeaf && fails n0 t) := by
        rw [← hE0]
        show (!(t.isLeaf && !allOrphan val [Crit.minDelta 0, Crit.minNpix n0] t)) = _
        rw [io_eq val n0 (hne0 t ht)]; simp
      simp only [Function.comp, hk1, hk0]
      have hmono : fails n0 t = true → fails n1 t = true := by
        simp only [fails, decide_eq_true_eq]; omega
      cases h1 : fails n0 t <;> cases h2 : fails n1 t <;> simp_all
    rw [this]
    exact SmL.refl _
  -- 4. pass to the strict run
  have s4 : SmL ((roots0.map (collapse n1)).filter (keepT val n1)) (roots1.filter (keepT val n1)) := by
    apply P10.SimL.filter hB
    intro x hx y hxy
    exact keepT_sim val n1 hxy (hpixC x hx)
  -- 5. put the sort back
  have s5 : SmL (roots1.filter (keepT val n1)) ((sortById roots1).filter (keepT val n1)) :=
    SmL.of_perm ((sortById_perm roots1).filter _).symm
  exact (((s1.trans s2).trans s3).trans s4).trans s5

end Main

/-! ## key facts in isolation: post-hoc test = merge-time test on frozen leaves -/

/-- On a sorted run, for every parent/child pair with the child a leaf, the post-hoc test of
`prune` (`min_delta = 0`, `min_npix = n`) is the test made at merge time at the creating pixel of
the parent, whatever criteria `E` the run itself used: both delta tests hold, and the pixel count
of the leaf is frozen. -/
theorem posthoc_eq_mergetime (E : Env) (order : List Nat) (hnd : order.Nodup)
    (hsorted : order.Pairwise (fun a b => E.val b ≤ E.val a)) (n : Nat) :
    ∀ P ∈ Tree.preL (run E order), ∀ L ∈ P.kids, L.kids = [] →
      allChild E.val [Crit.minDelta 0, Crit.minNpix n] P L =
        allMerge E.val [Crit.minDelta 0, Crit.minNpix n] L P.id (E.val P.id) := by
  intro P hP L hL hl
  have key := run_induction_prefix E
    (fun pre roots => (∀ x, x ∈ pixelsL roots ↔ x ∈ pre) ∧
      (pre.Nodup → pre.Pairwise (fun a b => E.val b ≤ E.val a) → ContourP.ParentInv E pre roots))
    ⟨by simp [pixelsL], by intro _ _ P hP; simp [preL] at hP⟩
    (by
      intro pre roots p ⟨hpix, hc⟩
      refine ⟨ContourP.step_mem_pixels E roots p pre hpix, ?_⟩
      intro hn hs
      have hs' := ContourP.sorted_snoc hs
      have hn' := ContourP.nodup_snoc hn
      exact ContourP.step_parent E roots p pre hpix hn'.2 hs'.2 (hc hn'.1 hs'.1))
    order
  obtain ⟨_, _, _, hle⟩ := key.2 hnd hsorted P hP L hL
  have hLn : L ∈ preL (run E order) := by
    obtain ⟨l1, l2, l3, e⟩ := pre_parent_before_child (run E order) P L hP hL
    rw [e]; simp
  have hne : L.own ≠ [] := run_own_nonempty E order L hLn
  rw [ic_eq E.val n hL hl hne]
  obtain ⟨a, ha, hv⟩ := ContourP.vmax_attained E.val L hne
  have h0 : decide (0 ≤ L.vmax E.val - E.val P.id) = true := by
    have := hle a (ContourP.own_pixels_sub L ha)
    simp only [decide_eq_true_eq]; omega
  simp only [allMerge, List.all_cons, List.all_nil, Crit.atMerge, h0, Bool.true_and, Bool.and_true, fails]
  by_cases h : n ≤ L.pixels.length
  · simp [h]
  · simp [h]; omega

/-! ## why `min_delta` is excluded: a concrete witness -/

/-- values `3 1 2` on a row of three pixels -/
def dval : Nat → Int := fun p => [3, 1, 2].getD p 0
/-- face adjacency on a row of three pixels -/
def dnbrs : Nat → List Nat := Grid.nbrs [3] []

/-- **NEGATIVE result for `min_delta`.**  Computing with `min_delta = 0` and pruning with
`min_delta = 1` leaves one structure; computing with `min_delta = 1` gives three (the post-hoc
test compares heights of leaf and parent, the merge-time test compares the peak with the joining
value). -/
theorem delta_counterexample :
    (Tree.preL (prune (allChild dval [Crit.minDelta 1, Crit.minNpix 0])
        (allOrphan dval [Crit.minDelta 1, Crit.minNpix 0])
        (makeTrunk (envOf dval dnbrs [Crit.minDelta 0, Crit.minNpix 0])
          (run (envOf dval dnbrs [Crit.minDelta 0, Crit.minNpix 0]) [0, 2, 1])))).length = 1 ∧
    (Tree.preL (makeTrunk (envOf dval dnbrs [Crit.minDelta 1, Crit.minNpix 0])
        (run (envOf dval dnbrs [Crit.minDelta 1, Crit.minNpix 0]) [0, 2, 1]))).length = 3 := by
  decide

end P18
