import ADModel
/-!
# ADProofs.HubProofs — viewer selections (property C19)

Theorems about `ADModel.Hub`: independence of the selection slots, callback notification,
click / lasso selections and what the viewers derive from them (highlighted structures, contour
mask, scatter rows, label text).
-/
open Tree

namespace P16

/-! ## 1. slots are independent -/

theorem find_setSel_same (sels : List (Nat × Sel)) (slot : Nat) (s : Sel) :
    (Hub.setSel sels slot s).find? (fun kv => kv.1 == slot) = some (slot, s) := by
  unfold Hub.setSel
  split
  · rename_i hany
    induction sels with
    | nil => simp at hany
    | cons kv rest ih =>
      by_cases hk : kv.1 = slot
      · simp [hk]
      · have hany' : rest.any (fun kv => kv.1 == slot) = true := by
          simpa [hk] using hany
        simp [hk]
        simpa using ih hany'
  · rename_i hany
    have hnone : sels.find? (fun kv => kv.1 == slot) = none := by
      rw [List.find?_eq_none]
      intro x hx hx'
      exact hany (List.any_eq_true.mpr ⟨x, hx, hx'⟩)
    simp [List.find?_append, hnone]

theorem find_map_other (sels : List (Nat × Sel)) (slot slot' : Nat) (hne : slot' ≠ slot)
    (s : Sel) :
    (sels.map (fun kv => if kv.1 == slot then (slot, s) else kv)).find?
        (fun kv => kv.1 == slot') = sels.find? (fun kv => kv.1 == slot') := by
  induction sels with
  | nil => rfl
  | cons kv rest ih =>
    rw [List.map_cons, List.find?_cons, List.find?_cons, ih]
    by_cases hk : kv.1 = slot
    · have h1 : ¬ slot = slot' := fun h => hne h.symm
      have hb : (slot == slot') = false := by simpa using h1
      simp [hk, hb]
    · simp [hk]

theorem find_setSel_other (sels : List (Nat × Sel)) (slot slot' : Nat) (hne : slot' ≠ slot)
    (s : Sel) :
    (Hub.setSel sels slot s).find? (fun kv => kv.1 == slot') =
      sels.find? (fun kv => kv.1 == slot') := by
  unfold Hub.setSel
  split
  · exact find_map_other sels slot slot' hne s
  · have h1 : ¬ slot = slot' := fun h => hne h.symm
    rw [List.find?_append]
    simp [h1]

theorem get_select_same (h : Hub) (slot : Nat) (ids : List (Option Nat)) (sub : Bool) :
    (h.select slot ids sub).get slot = some { ids := ids, subtree := sub } := by
  simp [Hub.get, Hub.select, find_setSel_same]

theorem get_select_other (h : Hub) (slot slot' : Nat) (hne : slot' ≠ slot)
    (ids : List (Option Nat)) (sub : Bool) :
    (h.select slot ids sub).get slot' = h.get slot' := by
  simp only [Hub.get, Hub.select]
  rw [find_setSel_other _ _ _ hne]

/-! ## 2. callbacks -/

theorem select_log (h : Hub) (slot : Nat) (ids : List (Option Nat)) (sub : Bool) :
    (h.select slot ids sub).log = h.log ++ (List.range h.ncallbacks).map (fun c => (c, slot)) :=
  rfl

theorem select_log_drop (h : Hub) (slot : Nat) (ids : List (Option Nat)) (sub : Bool) :
    (h.select slot ids sub).log.drop h.log.length =
      (List.range h.ncallbacks).map (fun c => (c, slot)) := by
  rw [select_log, List.drop_left]

theorem count_range_map (slot c n : Nat) :
    ((List.range n).map (fun c => (c, slot))).count (c, slot) = if c < n then 1 else 0 := by
  induction n with
  | zero => simp
  | succ n ih =>
    rw [List.range_succ, List.map_append, List.count_append, ih]
    by_cases h1 : c < n
    · have : ¬ n = c := by omega
      simp [h1, this]; omega
    · by_cases h2 : c = n
      · subst h2; simp
      · have h3 : ¬ c < n + 1 := by omega
        have h4 : ¬ n = c := fun h => h2 h.symm
        simp [h1, h3, h4]

theorem notify_once (h : Hub) (slot : Nat) (ids : List (Option Nat)) (sub : Bool) (c : Nat)
    (hc : c < h.ncallbacks) :
    ((h.select slot ids sub).log.drop h.log.length).count (c, slot) = 1 := by
  rw [select_log_drop, count_range_map]; simp [hc]

theorem notify_only_registered (h : Hub) (slot : Nat) (ids : List (Option Nat)) (sub : Bool) :
    ∀ e ∈ (h.select slot ids sub).log.drop h.log.length, e.1 < h.ncallbacks ∧ e.2 = slot := by
  intro e he
  rw [select_log_drop] at he
  rcases List.mem_map.mp he with ⟨c, hc, rfl⟩
  exact ⟨List.mem_range.mp hc, rfl⟩

theorem addCallback_keeps (h : Hub) :
    h.addCallback.sels = h.sels ∧ h.addCallback.log = h.log ∧
      h.addCallback.ncallbacks = h.ncallbacks + 1 :=
  ⟨rfl, rfl, rfl⟩

/-! ## 3. click -/

theorem click_selects (h : Hub) (slot : Nat) (lab : Option Nat) :
    (h.click slot lab).get slot = some { ids := [lab], subtree := true } :=
  get_select_same h slot [lab] true

theorem highlighted_none (f : List Tree) (sub : Bool) (rest : List (Option Nat)) :
    Hub.highlighted f { ids := none :: rest, subtree := sub } = [] ∧
    Hub.maskPixels f { ids := none :: rest, subtree := sub } = [] ∧
    Hub.labelText { ids := none :: rest, subtree := sub } = "No structure selected" :=
  ⟨rfl, rfl, rfl⟩

/-! ## 4. subtree selection -/

theorem find_id_nodup (l : List Tree) (t : Tree) (ht : t ∈ l) (hids : (l.map Tree.id).Nodup) :
    l.find? (fun x => x.id == t.id) = some t := by
  induction l with
  | nil => cases ht
  | cons x xs ih =>
    rw [List.map_cons, List.nodup_cons] at hids
    rcases List.mem_cons.mp ht with rfl | hmem
    · simp
    · have hne : ¬ x.id = t.id := by
        intro heq
        exact hids.1 (heq ▸ List.mem_map.mpr ⟨t, hmem, rfl⟩)
      have hb : (x.id == t.id) = false := by simpa using hne
      rw [List.find?_cons, hb]
      exact ih hmem hids.2

theorem insertNat_perm (x : Nat) (l : List Nat) : (insertNat x l).Perm (x :: l) := by
  induction l with
  | nil => exact List.Perm.refl _
  | cons y ys ih =>
    unfold insertNat
    split
    · exact List.Perm.refl _
    · exact ((List.Perm.cons y ih).trans (List.Perm.swap x y ys))

theorem sortNat_perm (l : List Nat) : (sortNat l).Perm l := by
  induction l with
  | nil => exact List.Perm.refl _
  | cons x xs ih =>
    unfold sortNat
    exact (insertNat_perm x _).trans (List.Perm.cons x ih)

theorem highlighted_subtree (f : List Tree) (t : Tree) (ht : t ∈ Tree.preL f)
    (hids : ((Tree.preL f).map Tree.id).Nodup) (rest : List (Option Nat)) :
    Hub.highlighted f { ids := some t.id :: rest, subtree := true } =
      (Tree.preL t.kids).map Tree.id ++ [t.id] := by
  simp [Hub.highlighted, Hub.withDescendants, nodes, find_id_nodup _ t ht hids]

theorem mask_subtree (f : List Tree) (t : Tree) (ht : t ∈ Tree.preL f)
    (hids : ((Tree.preL f).map Tree.id).Nodup) (rest : List (Option Nat)) :
    (Hub.maskPixels f { ids := some t.id :: rest, subtree := true }).Perm t.pixels := by
  simp only [Hub.maskPixels, nodes, find_id_nodup _ t ht hids]
  exact sortNat_perm _

/-! ## 5. lasso -/

theorem lasso_selects (h : Hub) (slot : Nat) (rowIds rows : List Nat) (hne : rows ≠ []) :
    (h.lasso slot rowIds rows).get slot =
      some { ids := rows.map (fun r => some (rowIds.getD r 0)), subtree := false } := by
  unfold Hub.lasso
  rw [get_select_same]
  cases rows with
  | nil => exact absurd rfl hne
  | cons r rs => simp

theorem lasso_empty_clears (h : Hub) (slot : Nat) (rowIds : List Nat) :
    (h.lasso slot rowIds []).get slot = some { ids := [none], subtree := false } := by
  unfold Hub.lasso
  rw [get_select_same]
  simp

theorem highlighted_list (f : List Tree) (i : Nat) (rest : List (Option Nat)) :
    Hub.highlighted f { ids := some i :: rest, subtree := false } =
      (some i :: rest).filterMap id := by
  simp [Hub.highlighted]

theorem filterMap_id_map_some (g : Nat → Nat) (rows : List Nat) :
    (rows.map (fun r => some (g r))).filterMap id = rows.map g := by
  induction rows with
  | nil => rfl
  | cons r rs ih => simp [ih]

theorem getD_lt (l : List Nat) (r : Nat) (h : r < l.length) : l.getD r 0 = l[r] := by
  simp [List.getD_eq_getElem?_getD, h]

theorem idxOf_getD_nodup (l : List Nat) (hnd : l.Nodup) (r : Nat) (hr : r < l.length) :
    l.idxOf (l.getD r 0) = r := by
  induction l generalizing r with
  | nil => simp at hr
  | cons x xs ih =>
    rw [List.nodup_cons] at hnd
    cases r with
    | zero => simp
    | succ r =>
      have hr' : r < xs.length := by simpa using hr
      have hmem : xs.getD r 0 ∈ xs := by
        rw [getD_lt _ _ hr']; exact List.getElem_mem hr'
      have hne : ¬ x = xs.getD r 0 := fun h => hnd.1 (h ▸ hmem)
      have hb : (x == xs.getD r 0) = false := by simpa using hne
      rw [List.getD_cons_succ, List.idxOf_cons, hb, ih hnd.2 r hr']
      rfl

theorem scatter_filterMap (rowIds : List Nat) (hnd : rowIds.Nodup) (rows : List Nat)
    (hr : ∀ r ∈ rows, r < rowIds.length) :
    (rows.map (fun r => rowIds.getD r 0)).filterMap
      (fun i => if rowIds.contains i then some (rowIds.idxOf i) else none) = rows := by
  induction rows with
  | nil => rfl
  | cons r rs ih =>
    have hr0 : r < rowIds.length := hr r (List.mem_cons_self ..)
    have hmem : rowIds.getD r 0 ∈ rowIds := by
      rw [getD_lt _ _ hr0]; exact List.getElem_mem hr0
    have hc : rowIds.contains (rowIds.getD r 0) = true := by simpa using hmem
    rw [List.map_cons, List.filterMap_cons]
    simp only [hc, if_true, idxOf_getD_nodup rowIds hnd r hr0]
    rw [ih (fun r' h' => hr r' (List.mem_cons_of_mem _ h'))]

theorem scatterRows_roundtrip (f : List Tree) (rowIds : List Nat) (hnd : rowIds.Nodup)
    (rows : List Nat) (hr : ∀ r ∈ rows, r < rowIds.length) (hne : rows ≠ []) :
    Hub.scatterRows f rowIds
      { ids := rows.map (fun r => some (rowIds.getD r 0)), subtree := false } = rows := by
  have hh : Hub.highlighted f
      { ids := rows.map (fun r => some (rowIds.getD r 0)), subtree := false } =
      rows.map (fun r => rowIds.getD r 0) := by
    cases rows with
    | nil => exact absurd rfl hne
    | cons r rs =>
      rw [List.map_cons, highlighted_list, ← List.map_cons (f := fun r => some (rowIds.getD r 0)),
        filterMap_id_map_some (fun r => rowIds.getD r 0)]
  unfold Hub.scatterRows
  rw [hh]
  exact scatter_filterMap rowIds hnd rows hr

/-! ## 6. label text -/

theorem label_single (i : Nat) (sub : Bool) :
    Hub.labelText { ids := [some i], subtree := sub } = s!"Selected structure: {i}" := by
  simp [Hub.labelText]

end P16
