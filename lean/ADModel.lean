import ADModel.Basic
import ADModel.Grid
import ADModel.Compute
import ADModel.Criteria
import ADModel.Prune
import ADModel.Newick
import ADModel.Obs
import ADModel.PruneOrig
