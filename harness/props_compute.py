"""C01-C06: properties of a freshly computed dendrogram."""
import traceback

import gen
import impl
import preds
import session


def match_by_own(iobs, mobs):
    """map implementation ids to model ids through the own-pixel sets; None if the partitions differ"""
    mi = dict((frozenset(s['own']), sid) for sid, s in iobs['structs'].items())
    mm = dict((frozenset(s['own']), sid) for sid, s in mobs['structs'].items())
    if set(mi) != set(mm) or len(mi) != len(iobs['structs']) or len(mm) != len(mobs['structs']):
        return None
    return dict((mi[k], mm[k]) for k in mi)


def partition(obs):
    return sorted(tuple(sorted(s['own'])) for s in obs['structs'].values())


def hyp_failures(mobs):
    h = mobs.get('hyp', {})
    out = []
    if not h.get('sorted', 1):
        out.append('pixels were not processed in non-increasing order of value')
    if not h.get('cover', 1):
        out.append('processed pixels are not exactly the pixels above the threshold')
    if not h.get('nodup', 1):
        out.append('a pixel was processed twice')
    if not h.get('inrange', 1):
        out.append('processed pixel outside the array')
    return out


def nontrivial(mobs):
    """a case is non-trivial when the run contained a meeting of >= 2 structures: the result has a
    branch, or some leaf absorbed another (more own pixels than a single chain could explain is not
    observable, so: a branch, or >= 2 trunk structures, or a dropped pixel)"""
    st = mobs.get('structs', {})
    steps = mobs.get('steps', {})
    if steps:
        return (steps.get('nonekept', 0) + steps.get('onekept', 0) + steps.get('branch', 0)) > 0
    return any(s['kids'] for s in st.values()) or len(mobs.get('trunk', [])) >= 2 or \
        any(l == -1 for l in mobs.get('lmap', []))


def tags(case, mobs):
    st = mobs.get('structs', {})
    t = ['ndim=%d' % len(case['shape']), 'kind=' + case.get('kind', '?'), 'dtype=' + case.get('dtype', '?'),
         'adj=' + ('periodic' if case.get('periodic') else case.get('adj', 'grid')),
         'branches=%s' % min(3, sum(1 for s in st.values() if s['kids'])),
         'minv=' + ('default' if case['minv'] == 'min' else 'given'),
         'mind=' + ('0' if case['mind'] == 0 else '+'), 'minn=' + ('0' if case['minn'] == 0 else '+')]
    if case.get('crits'):
        t.append('usercrit=' + '+'.join(sorted(c[0] for c in case['crits'])))
    if any(x is None for x in case['k']):
        t.append('nan')
    if any(l == -1 and case['k'][p] is not None for p, l in enumerate(mobs.get('lmap', []))):
        t.append('unassigned-kept-or-below')
    # which rules of the construction the run exercised (measured by the model on the recorded order)
    for k, v in mobs.get('steps', {}).items():
        if v and k != 'newleaf' and k != 'joinone':
            t.append('rule:' + k)
    return t


class SkipResult(Exception):
    """carries the (empty) result of a case that was dropped"""
    def __init__(self, res):
        Exception.__init__(self, 'case dropped')
        self.res = res


def base_eval(item, pid):
    """run the session; common result skeleton"""
    case = item['case']
    res = {'corr': [], 'pred': [], 'hyp': [], 'nontrivial': False, 'key': repr((case['shape'], case['k'], case['minv'],
           case['mind'], case['minn'], case.get('crits'), case.get('periodic'), case.get('adj'), case.get('dtype'))),
           'tags': [], 'known': []}
    try:
        d, a, order, hooked, steps = session.run_session(case, item.get('ops', ()))
    except impl.SkipCase as e:
        raise SkipResult(dict(res, tags=['skipped: %s' % e]))
    st0 = steps[0]
    if case.get('minv', 'min') != 'min':
        from fractions import Fraction
        mv = d.params['min_value']
        rec = Fraction(mv.item() if hasattr(mv, 'item') else mv) * (2 ** case['fb'])
        if rec != Fraction(case['minv'][0], case['minv'][1]) and not any(op[0] == 'reload' for op in item.get('ops', ())):
            res['pred'].append('the recorded min_value %r is not the threshold that was given (%s in model units)'
                               % (mv, Fraction(case['minv'][0], case['minv'][1])))
    res['hooked'] = hooked
    res['hyp'] = hyp_failures(st0.mobs)
    res['nontrivial'] = nontrivial(st0.mobs)
    res['tags'] = tags(case, st0.mobs)
    if 'bad' in st0.mobs:
        res['corr'].append('model rejected the request: %s' % st0.mobs['bad'])
    for i, st in enumerate(steps):
        for p in st.wf:
            res['pred'].append('step %d %r: %s' % (i, st.op[0], p))
    return res, d, a, steps


def no_pruning(case):
    return case['mind'] == 0 and case['minn'] == 0 and not case.get('crits')


def gen_item(rng, idx, tier, pid):
    force = {}
    if pid == 'C01' and idx % 5 == 0:
        # emphasis on the default threshold across dtypes
        force['override'] = {'minv': 'min'}
    maxpix = 48 if tier == 'quick' else 80
    force['big'] = True        # int64 data beyond 2**53 (not representable in float64) is part of the stream
    force['allow_long'] = pid in ('C01', 'C03', 'C04', 'C05')     # axes longer than 16 bits count (plain compute checks only)
    case = gen.gen_compute_case(rng, maxpix=maxpix, force=force)
    if pid == 'C01' and idx % 5 == 0:
        boundary_default_case(rng, case)
    if pid in ('C01', 'C03') and idx % 10 == 7 and case['dtype'].startswith('float') and case['fb'] == 0:
        add_inf_pixels(rng, case)
    if pid == 'C05' and idx % 3 == 0:
        case['mind'] = 0
        case['minn'] = 0
        case['crits'] = []
    return {'case': case, 'ops': []}


def add_inf_pixels(rng, case):
    """turn one or two pixels into +inf (saturated pixels): they are above every threshold and the brightest
    pixels; each gets a finite above-threshold face neighbour so that no structure consists of infinities only
    (inf - inf is NaN in the code's arithmetic: outside the exact domain of the model)"""
    import numpy as np
    shape = case['shape']
    n = len(case['k'])
    vals = [x for x in case['k'] if x is not None]
    if len(vals) < 3 or case.get('periodic') or case.get('adj') != 'grid':
        return
    case['dtype'] = 'float64'
    case['crits'] = [c for c in case['crits'] if c[0] != 'sum']
    if case['minv'] != 'min':
        case['minv'] = [min(vals) - 1, 1]
    chosen = []
    for p in rng.sample(range(n), n):
        if case['k'][p] is None or len(chosen) >= 2:
            continue
        c = np.unravel_index(p, shape)
        ok = False
        for a in range(len(shape)):
            for s_ in (1, -1):
                cc = list(c)
                cc[a] += s_
                if 0 <= cc[a] < shape[a]:
                    q = int(np.ravel_multi_index(cc, shape))
                    if case['k'][q] is not None and q not in chosen:
                        ok = True
        if ok and all(abs(p - q) > 0 for q in chosen):
            chosen.append(p)
    # neighbours that serve as finite companions must not themselves become infinite: keep it simple, one pixel
    chosen = chosen[:1]
    for p in chosen:
        case['k'][p] = impl.HUGE
    case['inf'] = chosen
    case['kind'] = 'with-inf'


def boundary_default_case(rng, case):
    """values at the boundaries of the dtype, where `min - 1` is delicate"""
    dt = case['dtype']
    n = len(case['k'])
    if dt in gen.INT_RANGE and rng.random() < 0.7:
        lo, hi = gen.INT_RANGE[dt]
        ks = [lo + rng.randint(0, 3) if rng.random() < 0.6 else min(hi, lo + rng.randint(0, 60)) for _ in range(n)]
        case['k'] = ks
        case['kind'] = 'dtype-min'
        case['mind'] = min(case['mind'], 40)
        # sums of values at the edge of a 64-bit range overflow in any fixed-width arithmetic: not the subject here
        case['crits'] = [c for c in case['crits'] if c[0] != 'sum']
    elif dt.startswith('float') and rng.random() < 0.4 and case['fb'] == 0 and all(x is not None for x in case['k']):
        # large magnitudes where subtracting 1 is a no-op in the array's dtype
        big = rng.choice([2 ** 24, 2 ** 25, 2 ** 30, -2 ** 25, -2 ** 30]) if dt == 'float32' else rng.choice([2 ** 53, 2 ** 60, -2 ** 60])
        step = (2 ** 8) if dt == 'float32' else (2 ** 10)
        if dt == 'float32' and abs(big) >= 2 ** 30:
            step = 2 ** 12
        case['k'] = [big + step * rng.randint(0, 5) for _ in range(n)]
        case['kind'] = 'float-large'
        case['mind'] = 0
        case['crits'] = []


def eval_C01(item):
    res, d, a, steps = base_eval(item, 'C01')
    st = steps[0]
    if st.iobs is None:
        return res
    case = item['case']
    if partition(st.iobs) != partition(st.mobs):
        res['corr'].append('own-pixel partition: impl %r model %r' % (partition(st.iobs), partition(st.mobs)))
    if [l != -1 for l in st.iobs['lmap']] != [l != -1 for l in st.mobs['lmap']]:
        res['corr'].append('assigned mask differs')
    ctx = preds.Ctx(case, d)
    res['pred'] += preds.pred_C01(ctx, d, st.iobs, default_minv=(case['minv'] == 'min'))
    return res


def eval_C02(item):
    res, d, a, steps = base_eval(item, 'C02')
    ctx = preds.Ctx(item['case'], d)
    for i, st in enumerate(steps):
        if st.iobs is None:
            continue
        lab = '' if i == 0 else 'after %s (step %d): ' % (st.op[0], i)
        corr = session.diff_obs(st.iobs, st.mobs, ['par', 'lvl', 'anc', 'desc'], [])
        if not corr:
            for sid, s in st.iobs['structs'].items():
                if sorted(s['kids']) != sorted(st.mobs['structs'][sid]['kids']):
                    corr.append('structure %d: children impl=%r model=%r' % (sid, s['kids'], st.mobs['structs'][sid]['kids']))
            if sorted(st.iobs['trunk']) != sorted(st.mobs['trunk']):
                corr.append('trunk impl=%r model=%r' % (st.iobs['trunk'], st.mobs['trunk']))
        res['corr'] += [lab + x for x in corr]
        res['pred'] += [lab + x for x in preds.pred_C02(ctx, steps_d(steps, i, d), st.iobs, fresh=(i == 0))]
    if len(steps) > 1:
        res['tags'].append('ops=' + '+'.join(st.op[0] for st in steps[1:]))
    return res


def gen_item_C02(rng, idx, tier, pid):
    # C02 quantifies over dendrograms obtained by compute, by prune (after arbitrary queries) and by load
    import props_history as ph
    item = gen_item(rng, idx, tier, pid)
    if item['case']['kind'] in ('bigint', 'decimal'):
        return item            # prune operations carry thresholds derived from the values
    r = idx % 4
    if r == 0 and rng.random() < 0.5:
        # navigation after the dendrogram was used for something else (sub-tree plots, Newick strings of single structures)
        item['ops'] = [rng.choice([('plotsub', [rng.randrange(1000) for _ in range(rng.randint(1, 2))], rng.random() < 0.5),
                                   ('newickattr', rng.choice(['trunk', 'all']))])]
        if rng.random() < 0.4:
            item['ops'].append(ph.gen_prune_op(rng, item['case']))
            item['ops'].append(item['ops'][0])
    if r == 1:
        if rng.random() < 0.7:
            item['case']['mind'] = 0
            item['case']['minn'] = 0
            item['case']['crits'] = []
        item['ops'] = [ph.gen_prune_op(rng, item['case']) for _ in range(rng.choice([1, 1, 2]))]
    elif r == 2:
        item['ops'] = [('reload', rng.choice(['hdf5', 'fits']))]
    elif r == 3 and rng.random() < 0.5:
        item['ops'] = [ph.gen_prune_op(rng, item['case']), ('reload', rng.choice(['hdf5', 'fits']))]
    return item


def regions(obs):
    return sorted(tuple(s['pixsub']) for s in obs['structs'].values())


def eval_C03(item):
    res, d, a, steps = base_eval(item, 'C03')
    st = steps[0]
    if st.iobs is None:
        return res
    if regions(st.iobs) != regions(st.mobs):
        res['corr'].append('regions (with substructures): impl %r model %r' % (regions(st.iobs), regions(st.mobs)))
    ti = sorted(tuple(st.iobs['structs'][s]['pixsub']) for s in st.iobs['trunk'])
    tm = sorted(tuple(st.mobs['structs'][s]['pixsub']) for s in st.mobs['trunk'])
    if ti != tm:
        res['corr'].append('trunk regions: impl %r model %r' % (ti, tm))
    ctx = preds.Ctx(item['case'], d)
    res['pred'] += preds.pred_C03(ctx, d, st.iobs, no_pruning(item['case']))
    return res


def own_hier(obs):
    st = obs['structs']
    return sorted((tuple(sorted(s['own'])), None if s['par'] is None else tuple(sorted(st[s['par']]['own'])))
                  for s in st.values())


def eval_C04(item):
    res, d, a, steps = base_eval(item, 'C04')
    st = steps[0]
    if st.iobs is None:
        return res
    if own_hier(st.iobs) != own_hier(st.mobs):
        msg = 'hierarchy (own pixels, parent): impl %r model %r' % (own_hier(st.iobs), own_hier(st.mobs))
        res['corr'].append(msg)
        # the model *is* the documented construction run on the same recorded order, so for C04 a
        # disagreement is a failing input of the property itself
        res['pred'].append('differs from the documented construction on the recorded order: ' + msg)
    # the hypotheses are themselves clauses of C04
    res['pred'] += res['hyp']
    return res


def leaf_view(obs):
    return sorted((tuple(s['pixsub']), s['vmax'], s['vmin'], s['par'] is not None)
                  for s in obs['structs'].values() if not s['kids'])


def eval_C05(item):
    res, d, a, steps = base_eval(item, 'C05')
    st = steps[0]
    if st.iobs is None:
        return res
    if leaf_view(st.iobs) != leaf_view(st.mobs):
        res['corr'].append('leaves: impl %r model %r' % (leaf_view(st.iobs), leaf_view(st.mobs)))
    ctx = preds.Ctx(item['case'], d)
    res['pred'] += preds.pred_C05(ctx, d, st.iobs, no_pruning(item['case']))
    return res


def accessor_diff(iobs, mobs, res, label=''):
    m = match_by_own(iobs, mobs)
    if m is None:
        res['corr'].append(label + 'own-pixel partition differs: impl %r model %r' % (partition(iobs), partition(mobs)))
        return
    for iid, mid in m.items():
        si, sm = iobs['structs'][iid], mobs['structs'][mid]
        for k in ('tiown', 'tisub', 'npix', 'npixsub', 'vmin', 'vmax', 'h'):
            if si[k] != sm[k]:
                res['corr'].append(label + 'structure %d: %s impl=%r model=%r' % (iid, k, si[k], sm[k]))
        for k in ('peak', 'peaksub'):
            if si[k][1] != sm[k][1]:
                res['corr'].append(label + 'structure %d: %s value impl=%r model=%r' % (iid, k, si[k][1], sm[k][1]))


def eval_C06(item):
    if item.get('other_shape'):
        # another dendrogram of the same dimensionality and size, but another shape, lives in the same process
        import numpy as np
        import warnings
        from astrodendro import Dendrogram
        with warnings.catch_warnings():
            warnings.simplefilter('ignore')
            n_ = int(np.prod(item['other_shape']))
            other = Dendrogram.compute(((np.arange(n_, dtype=float) * 7) % 11).reshape(item['other_shape']))
            for s_ in other:
                s_.indices()
                s_.get_npix()
    res, d, a, steps = base_eval(item, 'C06')
    ctx = preds.Ctx(item['case'], d)
    for i, st in enumerate(steps):
        if st.iobs is None:
            continue
        lab = 'step %d %s: ' % (i, st.op[0])
        accessor_diff(st.iobs, st.mobs, res, lab)
        # the predicate looks at the live object: only where no later prune has changed it in place
        later = []
        for j in range(i + 1, len(steps)):
            if steps[j].op[0] == 'reload':
                break
            later.append(steps[j].op[0])
        if 'prune' not in later:
            res['pred'] += [lab + f for f in preds.pred_C06(ctx, steps_d(steps, i, d), st.iobs)]
    return res


def steps_d(steps, i, d_final):
    """the dendrogram object observed at step i (reload creates a new object; the old one is kept)"""
    # after a reload the pre-reload object is in extra['d_before'] of the reload step
    for j in range(i + 1, len(steps)):
        if steps[j].op[0] == 'reload':
            return steps[j].extra['d_before']
    return d_final


def gen_item_C06(rng, idx, tier, pid):
    item = gen_item(rng, idx, tier, pid)
    shp = list(item['case']['shape'])
    if len(set(shp)) > 1 and rng.random() < 0.3:
        other = list(shp)
        while other == shp:
            rng.shuffle(other)
        item['other_shape'] = other
    if idx % 3 == 0 and rng.random() < 0.5 and item['case']['kind'] not in ('bigint', 'decimal'):
        # accessors of a pruned dendrogram, after accessors were used (and cached) before the prune
        import props_history as ph
        op = ph.gen_prune_op(rng, item['case'], allow_crits=False)
        item['ops'] = [('warm', sorted(set(rng.choice(['npix', 'peak', 'level', 'desc']) for _ in range(2)))), op]
        if rng.random() < 0.3:
            item['ops'].append(('reload', rng.choice(['hdf5', 'fits'])))
    if idx % 3 == 1:
        item['ops'] = [('reload', rng.choice(['hdf5', 'fits']))]
    elif idx % 3 == 2 and len(item['case']['shape']) in (2, 3) and item['case']['kind'] not in ('bigint', 'decimal'):
        # accessors after other uses of the dendrogram (a catalog over a periodic axis unwraps index copies)
        c = item['case']
        if rng.random() < 0.6 and c['shape'][-1] >= 3:
            c['periodic'] = [len(c['shape']) - 1]
            c['adj'] = 'grid'
            c['per_as_list'] = False
        c['k'] = [None if x is None else abs(x) + 1 for x in c['k']]
        c['dtype'] = 'float64'
        if c['minv'] != 'min':
            c['minv'] = [max(c['minv'][0], 0), c['minv'][1]]
        c['crits'] = [x for x in c['crits'] if x[0] != 'seeds']
        item['ops'] = [('catalog',)]
    return item
