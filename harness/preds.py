"""Property predicates evaluated on the implementation's own output (the replay oracle).

They are written independently of the Lean model and of the implementation: adjacency, connected
components, regional maxima and criteria are recomputed here from the case alone."""
import itertools
from fractions import Fraction

import numpy as np


class Ctx(object):
    def __init__(self, case, d):
        self.case = case
        self.shape = tuple(case['shape'])
        self.n = int(np.prod(self.shape)) if self.shape else 1
        self.k = case['k']
        fb = case['fb']
        mv = d.params['min_value']
        self.minv = Fraction(mv.item() if hasattr(mv, 'item') else mv) * (2 ** fb)
        if case.get('minv', 'min') != 'min':
            # an explicit threshold is the one that was ASKED for, whatever the dendrogram recorded
            self.minv = Fraction(case['minv'][0], case['minv'][1])
        self.kept = [p for p in range(self.n) if self.k[p] is not None and self.k[p] > self.minv]
        self.keptset = set(self.kept)
        self.adj = [self._nbrs(p) for p in range(self.n)]

    def _nbrs(self, p):
        shape = self.shape
        c = list(np.unravel_index(p, shape))
        per = set(self.case.get('periodic') or [])
        out = []
        iso = set(self.case.get('isolated', [])) if self.case.get('adj') == 'holes' else set()
        if p in iso:
            return []
        if self.case.get('adj', 'grid') == 'diag':
            offs = [o for o in itertools.product((-1, 0, 1), repeat=len(shape)) if any(o)]
        else:
            offs = []
            for a in range(len(shape)):
                for s in (1, -1):
                    o = [0] * len(shape)
                    o[a] = s
                    offs.append(tuple(o))
        for o in offs:
            cc = [x + y for x, y in zip(c, o)]
            ok = True
            for a in range(len(shape)):
                if cc[a] < 0 or cc[a] >= shape[a]:
                    if a in per:
                        cc[a] %= shape[a]
                    else:
                        ok = False
            if ok and int(np.ravel_multi_index(cc, shape)) not in iso:
                out.append(int(np.ravel_multi_index(cc, shape)))
        return out

    def components(self, pixels):
        """connected components of a pixel set under the adjacency in use"""
        pixels = set(pixels)
        comps = []
        seen = set()
        for p in sorted(pixels):
            if p in seen:
                continue
            comp = {p}
            todo = [p]
            seen.add(p)
            while todo:
                x = todo.pop()
                for q in self.adj[x]:
                    if q in pixels and q not in seen:
                        seen.add(q)
                        comp.add(q)
                        todo.append(q)
                # adjacency is symmetric for the built-in families
            comps.append(frozenset(comp))
        return comps

    def connected(self, pixels):
        return len(self.components(pixels)) <= 1

    def outside_neighbours(self, region):
        region = set(region)
        out = set()
        for p in region:
            for q in self.adj[p]:
                if q not in region and q in self.keptset:
                    out.add(q)
        return out

    def crit_ok(self, pixels, value=None, mode='merge', parent_height=None, mind=None, minn=None):
        """the criteria of the case evaluated on a leaf given by its pixel set"""
        case = self.case
        vals = [self.k[p] for p in pixels]
        vmax, vmin = max(vals), min(vals)
        mind = case['mind'] if mind is None else mind
        minn = case['minn'] if minn is None else minn
        if mode == 'merge':
            if not (vmax - value >= mind):
                return False
        elif mode == 'orphan':
            if not (vmax - vmin >= mind):
                return False
        else:
            if not (vmax - parent_height >= mind):
                return False
        if not (len(pixels) >= minn):
            return False
        for c in case.get('crits', []):
            if c[0] in ('peak', 'peakacc') and not (vmax >= c[1]):
                return False
            if c[0] == 'sum' and not (sum(vals) >= c[1]):
                return False
            if c[0] == 'seeds' and not (set(pixels) & set(c[1])):
                return False
            if c[0] in ('npixacc', 'npixget') and not (len(pixels) >= c[1]):
                return False
            if c[0] == 'udelta':
                base = value if mode == 'merge' else vmin if mode == 'orphan' else parent_height
                if not (vmax - base >= c[1]):
                    return False
        return True

    def regional_maxima(self):
        """plateau-aware regional maxima of the kept data: connected sets of equal value with no
        brighter kept neighbour"""
        out = []
        byval = {}
        for p in self.kept:
            byval.setdefault(self.k[p], []).append(p)
        for v, ps in byval.items():
            for comp in self.components(ps):
                if all(self.k[q] <= v for p in comp for q in self.adj[p] if q in self.keptset):
                    out.append(comp)
        return out


def pred_C01(ctx, d, iobs, default_minv=False):
    """labelled iff above threshold (modulo dropped orphan leaves); exactly one owner; lookups agree"""
    fails = []
    lmap = iobs['lmap']
    structs = iobs['structs']
    owner = {}
    for sid, s in structs.items():
        for p in s['own']:
            if p in owner:
                fails.append('pixel %d is an own pixel of structures %d and %d' % (p, owner[p], sid))
            owner[p] = sid
    for p in range(ctx.n):
        lab = lmap[p]
        if lab != -1:
            if p not in ctx.keptset:
                fails.append('pixel %d (value %r) is labelled %d but is not above the threshold %s' % (p, ctx.k[p], lab, ctx.minv))
            if owner.get(p) != lab:
                fails.append('label map says %d at pixel %d but its owner by own-pixel lists is %r' % (lab, p, owner.get(p)))
        elif p in owner:
            fails.append('pixel %d is owned by structure %d but unlabelled' % (p, owner[p]))
    # lookups
    for p in range(ctx.n):
        coord = tuple(int(x) for x in np.unravel_index(p, ctx.shape))
        # coordinates as a tuple, or (every third pixel) as a list / numpy integers
        s = d.structure_at(coord if p % 3 else (list(coord) if p % 2 else tuple(np.int64(x) for x in coord)))
        got = -1 if s is None else int(s.idx)
        if got != lmap[p]:
            fails.append('structure_at(%d) gives %d but label map says %d' % (p, got, lmap[p]))
            break
    # unassigned kept pixels: whole components, each failing the orphan criteria
    unassigned = [p for p in ctx.kept if lmap[p] == -1]
    if unassigned:
        for comp in ctx.components(ctx.kept):
            un = [p for p in comp if lmap[p] == -1]
            if un and len(un) != len(comp):
                fails.append('component %r is only partly assigned (unassigned: %r)' % (sorted(comp), sorted(un)))
            elif un and ctx.crit_ok(sorted(comp), mode='orphan'):
                fails.append('component %r passes the criteria as a parentless leaf but is unassigned' % (sorted(comp),))
    for sid in iobs['trunk']:
        s = structs[sid]
        if not s['kids'] and not ctx.crit_ok(s['pixsub'], mode='orphan'):
            fails.append('parentless leaf %d fails the criteria but was kept' % sid)
    # for criteria that can only turn true as a structure grows (everything but min_sum on negative data) a
    # connected component that fails them as one leaf cannot contain any independent structure: it ends as a
    # single failing parentless leaf and is left unassigned as a whole (theorem C17_root_survives_iff)
    monotone = not any(c[0] == 'sum' for c in ctx.case.get('crits', [])) or all(ctx.k[p] >= 0 for p in ctx.kept)
    if monotone:
        for comp in ctx.components(ctx.kept):
            if not ctx.crit_ok(sorted(comp), mode='orphan'):
                lab = sorted(p for p in comp if lmap[p] != -1)
                if lab:
                    fails.append('isolated region %r fails the criteria as a leaf (so no part of it can pass) but its pixels %r are assigned'
                                 % (sorted(comp), lab))
    if default_minv:
        fin = [ctx.k[p] for p in range(ctx.n) if ctx.k[p] is not None]
        if fin and not (ctx.minv < min(fin)):
            fails.append('default min_value %s is not strictly below the minimum %s' % (ctx.minv, min(fin)))
    return fails


def pred_C02(ctx, d, iobs, fresh=True):
    """forest well-formedness and navigation consistency, recomputed from the links"""
    fails = []
    st = iobs['structs']
    par = dict((sid, s['par']) for sid, s in st.items())
    for sid, s in st.items():
        if s['kids'] and len(s['kids']) < 2:
            fails.append('branch %d has %d child' % (sid, len(s['kids'])))
        for c in s['kids']:
            if par.get(c) != sid:
                fails.append('child %d of %d has parent %r' % (c, sid, par.get(c)))
    if sorted(iobs['trunk']) != sorted(sid for sid in st if par[sid] is None):
        fails.append('trunk %r is not the set of parentless structures' % (iobs['trunk'],))
    it = iobs['iter']
    if sorted(it) != sorted(st):
        fails.append('iteration %r does not visit every structure exactly once' % (it,))
    else:
        pos = dict((sid, i) for i, sid in enumerate(it))
        for sid in st:
            if par[sid] is not None and pos[par[sid]] > pos[sid]:
                fails.append('iteration visits %d before its parent %d' % (sid, par[sid]))
    if fresh and sorted(st) != list(range(len(st))):
        fails.append('identifiers after compute are %r, expected 0..%d' % (sorted(st), len(st) - 1))
    if not iobs['lookup_ok'] or iobs['dict_ids'] != sorted(st):
        fails.append('lookup by identifier inconsistent: table %r' % (iobs['dict_ids'],))
    if iobs['len'] != len(st):
        fails.append('len() is %d, %d structures' % (iobs['len'], len(st)))
    if iobs['leaves'] != sorted(sid for sid, s in st.items() if not s['kids']):
        fails.append('leaves %r' % (iobs['leaves'],))
    for sid, s in st.items():
        lvl, a = 0, sid
        while par[a] is not None:
            a = par[a]
            lvl += 1
        if s['lvl'] != lvl:
            fails.append('structure %d: level %d, depth by links %d' % (sid, s['lvl'], lvl))
        if s['anc'] != a:
            fails.append('structure %d: ancestor %d, root by links %d' % (sid, s['anc'], a))
        desc = []
        todo = list(s['kids'])
        while todo:
            x = todo.pop()
            desc.append(x)
            todo.extend(st[x]['kids'])
        if s['desc'] != sorted(desc):
            fails.append('structure %d: descendants %r, by links %r' % (sid, s['desc'], sorted(desc)))
        if s['is_leaf'] != (not s['kids']) or s['is_branch'] != bool(s['kids']):
            fails.append('structure %d: is_leaf/is_branch inconsistent' % sid)
    return fails


def pred_C03(ctx, d, iobs, no_pruning):
    fails = []
    st = iobs['structs']
    for sid, s in st.items():
        reg = s['pixsub']
        if not ctx.connected(reg):
            fails.append('region of structure %d is not connected: %r' % (sid, reg))
        lo = min(ctx.k[p] for p in reg)
        for q in ctx.outside_neighbours(reg):
            if ctx.k[q] > lo:
                fails.append('pixel %d (value %d) adjacent to structure %d from outside is brighter than its faintest pixel %d'
                             % (q, ctx.k[q], sid, lo))
                break
    assigned = [p for p in ctx.kept if iobs['lmap'][p] != -1]
    comps = sorted(tuple(sorted(c)) for c in ctx.components(ctx.kept) if any(iobs['lmap'][p] != -1 for p in c))
    trunk_regs = sorted(tuple(st[sid]['pixsub']) for sid in iobs['trunk'])
    if comps != trunk_regs:
        fails.append('trunk regions %r differ from the surviving connected components %r' % (trunk_regs, comps))
    if no_pruning:
        for sid, s in st.items():
            if s['kids']:
                sub = [p for c in s['kids'] for p in st[c]['pixsub']]
                if max(ctx.k[p] for p in s['own']) > min(ctx.k[p] for p in sub):
                    fails.append('branch %d owns a pixel brighter than a pixel of its substructures' % sid)
    return fails


def pred_C05(ctx, d, iobs, no_pruning):
    fails = []
    st = iobs['structs']
    for sid, s in st.items():
        if s['kids']:
            continue
        px = s['pixsub']
        vmax = max(ctx.k[p] for p in px)
        if s['par'] is not None:
            out = ctx.outside_neighbours(px)
            if not out:
                fails.append('leaf %d has a parent but no above-threshold neighbour outside' % sid)
                continue
            m = max(ctx.k[q] for q in out)
            if not vmax > m:
                fails.append('leaf %d peaks at %d, not strictly above its brightest outside neighbour %d' % (sid, vmax, m))
            elif not ctx.crit_ok(px, value=m, mode='merge'):
                fails.append('leaf %d (peak %d, npix %d) fails the criteria at its meeting value %d' % (sid, vmax, len(px), m))
        else:
            if not ctx.crit_ok(px, mode='orphan'):
                fails.append('parentless leaf %d (range %d..%d, npix %d) fails the criteria'
                             % (sid, min(ctx.k[p] for p in px), vmax, len(px)))
    if no_pruning:
        rm = ctx.regional_maxima()
        leaves = [s for s in st.values() if not s['kids']]
        if len(rm) != len(leaves):
            fails.append('%d leaves but %d regional maxima' % (len(leaves), len(rm)))
        else:
            rmset = set(rm)
            used = set()
            for s in leaves:
                pk = s['peaksub'][0]
                hit = [c for c in rm if pk in c]
                if not hit:
                    fails.append('peak pixel %d of leaf %d is not in a regional maximum' % (pk, s['id']))
                elif hit[0] in used:
                    fails.append('two leaves share the regional maximum %r' % (sorted(hit[0]),))
                else:
                    used.add(hit[0])
    return fails


def pred_C06(ctx, d, iobs):
    """accessors against data and label map"""
    fails = []
    st = iobs['structs']
    lmap = iobs['lmap']
    bylabel = {}
    for p, lab in enumerate(lmap):
        if lab != -1:
            bylabel.setdefault(lab, []).append(p)
    # descendants by links
    def subtree_ids(sid):
        out = [sid]
        for c in st[sid]['kids']:
            out.extend(subtree_ids(c))
        return out
    for sid, s in st.items():
        own = sorted(bylabel.get(sid, []))
        sub = sorted(p for x in subtree_ids(sid) for p in bylabel.get(x, []))
        if s['tiown'] != own:
            fails.append('structure %d: indices(subtree=False) %r, label map says %r' % (sid, s['tiown'], own))
        if s['tisub'] != sub:
            fails.append('structure %d: indices(subtree=True) %r, label map says %r' % (sid, s['tisub'], sub))
        if [ctx.k[p] for p in s['indices_own_ordered']] != s['values_own']:
            fails.append('structure %d: values(subtree=False) not aligned with indices' % sid)
        if [ctx.k[p] for p in s['indices_sub_ordered']] != s['values_sub']:
            fails.append('structure %d: values(subtree=True) not aligned with indices' % sid)
        if s['npix'] != len(own) or s['npixsub'] != len(sub):
            fails.append('structure %d: get_npix %d/%d, label map %d/%d' % (sid, s['npix'], s['npixsub'], len(own), len(sub)))
        if own:
            if s['vmin'] != min(ctx.k[p] for p in own) or s['vmax'] != max(ctx.k[p] for p in own):
                fails.append('structure %d: vmin/vmax %d/%d differ from data %d/%d'
                             % (sid, s['vmin'], s['vmax'], min(ctx.k[p] for p in own), max(ctx.k[p] for p in own)))
            h = s['vmax'] if not s['kids'] else min(st[c]['vmin'] for c in s['kids'])
            if s['h'] != h:
                fails.append('structure %d: height %d, expected %d' % (sid, s['h'], h))
            for key, pixels in (('peak', own), ('peaksub', sub)):
                pos, val = s[key]
                if pos not in pixels or ctx.k[pos] != val or val != max(ctx.k[p] for p in pixels):
                    fails.append('structure %d: %s %r is not the maximum of its pixels' % (sid, key, s[key]))
        for subtree in (True, False):
            try:
                m = d[sid].get_mask(subtree=subtree)
                got = sorted(int(x) for x in np.flatnonzero(m.ravel()))
            except Exception as e:  # noqa
                fails.append('structure %d: get_mask(subtree=%s) raised %s' % (sid, subtree, type(e).__name__))
                continue
            if got != (sub if subtree else own):
                fails.append('structure %d: get_mask(subtree=%s) %r' % (sid, subtree, got))
        # the structure found at any of its own pixels is the structure itself
        for p in s['tiown']:
            coord = tuple(int(x) for x in np.unravel_index(p, ctx.shape))
            try:
                found = d.structure_at(coord)
            except Exception as e:  # noqa
                fails.append('structure_at(%r) raised %s' % (coord, type(e).__name__))
                continue
            if found is None or int(found.idx) != sid:
                fails.append('structure_at(%r) gives %r for a pixel of structure %d'
                             % (coord, None if found is None else int(found.idx), sid))
    return fails
