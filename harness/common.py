"""Shared plumbing for the astrodendro verification harness.

- locating /repo and importing the *current working tree* of astrodendro in-process
- the Lean model driver (line protocol) as a subprocess
- seeds, tiers, evidence and replay files, violation / known-finding reporting
"""
import hashlib
import json
import os
import random
import subprocess
import sys
import time

VERIF = os.path.dirname(os.path.dirname(os.path.abspath(__file__)))
REPO = os.environ.get('VERIF_REPO', '/repo')
LEAN = os.path.join(VERIF, 'lean')
DRIVER_BIN = os.path.join(LEAN, '.lake', 'build', 'bin', 'addriver')
# evidence describes /repo; a run pointed at another tree (a seeded change in a scratch worktree, VERIF_REPO) writes its
# evidence into the scratch area instead, so that evidence/ never holds the record of a run against modified code
EVID = os.path.join(VERIF, 'evidence') if os.path.realpath(REPO) == os.path.realpath('/repo') else os.path.join(VERIF, '.work', 'evidence-other-tree')
REPLAYS = os.path.join(VERIF, 'replays')
# scratch directory of THIS check process (workers are forked and inherit it); concurrent checks never share one
WORK = os.environ.get('VERIF_WORK') or os.path.join(VERIF, '.work', 'p%d' % os.getpid())

os.environ.setdefault('ASTRODENDRO_VERIF', '1')
for _v in ('OMP_NUM_THREADS', 'OPENBLAS_NUM_THREADS', 'MKL_NUM_THREADS'):
    os.environ.setdefault(_v, '1')
os.environ.setdefault('MPLBACKEND', 'Agg')
if REPO not in sys.path:
    sys.path.insert(0, REPO)


import warnings as _warnings
_warnings.showwarning = lambda *a, **k: None   # library warnings are not diagnostics of the check


def seed():
    try:
        return int(os.environ.get('VERIF_SEED', '0'))
    except ValueError:
        return 0


def sub_rng(*parts):
    """independent PRNG derived from the run seed and a path of labels (replays alone)"""
    h = hashlib.sha256(repr((seed(),) + tuple(parts)).encode()).digest()
    return random.Random(int.from_bytes(h[:8], 'big'))


class Driver(object):
    """one model driver process; `ask(line)` returns the answer block (without `end`)"""

    def __init__(self):
        if os.path.exists(DRIVER_BIN):
            cmd = [DRIVER_BIN]
        else:  # fallback: interpreter
            cmd = ['lake', 'env', 'lean', '--run', 'Driver.lean']
        self.p = subprocess.Popen(cmd, cwd=LEAN, stdin=subprocess.PIPE, stdout=subprocess.PIPE,
                                  universal_newlines=True, bufsize=1)

    def ask(self, line):
        assert '\n' not in line
        self.p.stdin.write(line + '\n')
        self.p.stdin.flush()
        out = []
        while True:
            l = self.p.stdout.readline()
            if l == '':
                raise RuntimeError('model driver died on: ' + line[:200])
            l = l.rstrip('\n')
            if l == 'end':
                return out
            out.append(l)

    def close(self):
        try:
            self.p.stdin.close()
            self.p.wait(timeout=5)
        except Exception:
            self.p.kill()


def _ints(s):
    return [] if s in ('-', '') else [int(x) for x in s.split(',')]


def parse_block(lines):
    """model observation block -> dict in the common observation schema"""
    obs = {'structs': {}, 'order_rows': []}
    for l in lines:
        if l.startswith('bad-op'):
            return {'bad': l}
        head, _, rest = l.partition(' ')
        if head == 'hyp':
            obs['hyp'] = dict((kv.split('=')[0], int(kv.split('=')[1])) for kv in rest.split())
        elif head == 'steps':
            obs['steps'] = dict((kv.split('=')[0], int(kv.split('=')[1])) for kv in rest.split())
        elif head == 's':
            d = dict(kv.split('=', 1) for kv in rest.split())
            sid = int(d['id'])
            pk = d['peak'].split(':')
            pks = d['peaksub'].split(':')
            obs['structs'][sid] = {
                'id': sid, 'par': None if d['par'] == '-' else int(d['par']), 'kids': _ints(d['kids']),
                'own': _ints(d['own']), 'vmin': int(d['vmin']), 'vmax': int(d['vmax']), 'h': int(d['h']),
                'lvl': int(d['lvl']), 'anc': int(d['anc']), 'desc': _ints(d['desc']),
                'npix': int(d['npix']), 'npixsub': int(d['npixsub']), 'pixsub': _ints(d['pixsub']),
                'peak': (int(pk[0]), int(pk[1])), 'peaksub': (int(pks[0]), int(pks[1])),
                'small': int(d['small']), 'tiown': _ints(d['tiown']), 'tisub': _ints(d['tisub'])}
            obs['order_rows'].append(sid)
        elif head == 'trunk':
            obs['trunk'] = _ints(rest)
        elif head == 'iter':
            obs['iter'] = _ints(rest)
        elif head == 'lmap':
            obs['lmap'] = _ints(rest)
        elif head == 'newick':
            obs['newick'] = rest
    return obs


# ---------------------------------------------------------------------------------------------
# reporting

class Report(object):
    """collects what one check run covered and found; writes evidence and replay files"""

    def __init__(self, pid, tier):
        self.pid = pid
        self.tier = tier
        self.t0 = time.time()
        self.evaluations = 0
        self.nontrivial_keys = set()
        self.traces = 0
        self.samples = []
        self.dist = {}
        self.violations = []      # (signature, replay dict)
        self.known_hits = {}
        self.exhaustive = False
        self.notes = []
        self.extra = {}

    def count(self, key, n=1):
        self.dist[key] = self.dist.get(key, 0) + n

    def known_findings(self):
        p = os.path.join(VERIF, 'known_findings.json')
        if not os.path.exists(p):
            return []
        return [f for f in json.load(open(p)).get('findings', []) if f.get('property') == self.pid]

    def violation(self, kind, replay, no_failing_input=False):
        """register a violation; returns path of the replay file"""
        os.makedirs(REPLAYS, exist_ok=True)
        body = dict(replay)
        body.update({'property': self.pid, 'tier': self.tier, 'seed': seed(), 'kind': kind,
                     'no_failing_input_found': bool(no_failing_input)})
        dig = hashlib.sha256(json.dumps(body, sort_keys=True, default=str).encode()).hexdigest()[:12]
        path = os.path.join(REPLAYS, '%s-%s.json' % (self.pid, dig))
        with open(path, 'w') as f:
            json.dump(body, f, indent=1, sort_keys=True, default=str)
        self.violations.append((kind, path, bool(no_failing_input)))
        return path

    def known(self, finding_id, what):
        self.known_hits.setdefault(finding_id, what)

    def finish(self, audit, rule, level_note_assumptions):
        wall = time.time() - self.t0
        cov = {
            'obligations': audit['obligations'], 'discharged': audit['discharged'],
            'checker_cmd': audit['checker_cmd'], 'trusted_base': audit['trusted_base'],
            'theorems': audit['theorems'],
            'evaluations': self.evaluations, 'distinct_nontrivial': len(self.nontrivial_keys),
            'rule': rule, 'samples': self.samples[:6], 'traces_validated_against_impl': self.traces,
            'input_distribution': dict(sorted(self.dist.items())), 'exhaustive': self.exhaustive,
            'known_findings_seen': sorted(self.known_hits),
        }
        cov.update(self.extra)
        ev = {'property_id': self.pid, 'tier': self.tier, 'seed': seed(), 'level': 'proof',
              'coverage': cov, 'assumptions': level_note_assumptions, 'wall_s': round(wall, 2),
              'violations': len(self.violations)}
        os.makedirs(EVID, exist_ok=True)
        with open(os.path.join(EVID, self.pid + '.json'), 'w') as f:
            json.dump(ev, f, indent=1, sort_keys=True, default=str)
        for fid, what in sorted(self.known_hits.items()):
            print('KNOWN-FINDING: property=%s %s' % (self.pid, what))
        seen = set()
        for kind, path, nf in self.violations:
            if path in seen:
                continue
            seen.add(path)
            print('VIOLATION property=%s replay=%s%s' % (self.pid, os.path.relpath(path, VERIF),
                                                        ' no-failing-input-found' if nf else ''))
        print('%s %s tier=%s seed=%d evaluations=%d nontrivial=%d theorems=%d/%d wall=%.1fs'
              % ('FAIL' if self.violations else 'OK', self.pid, self.tier, seed(), self.evaluations,
                 len(self.nontrivial_keys), audit['discharged'], audit['obligations'], wall))
        return 1 if self.violations else 0
