"""C10 (moments), C11 (PP/PPV statistics), C12 (catalogs), C13 (flux)."""
import itertools
import os
import math
import warnings
from fractions import Fraction

import numpy as np

import session
import gen
import impl

from astrodendro.analysis import ScalarStatistic, PPStatistic, PPVStatistic, pp_catalog, ppv_catalog
from astropy import units as u


def frac(s):
    a, _, b = s.partition('/')
    return Fraction(int(a), int(b) if b else 1)


def ask_kv(line):
    out = {}
    for l in session.driver().ask(line):
        k, _, v = l.partition(' ')
        out[k] = v
    return out


def close(x, y, scale=1.0, tol=1e-9):
    return abs(float(x) - float(y)) <= tol * max(1.0, abs(scale))


def pts_string(pos, wk, fb):
    """points for the driver: coordinates | weight (k / 2^fb, None = nan)"""
    ent = []
    for c, k in zip(pos, wk):
        w = 'nan' if k is None else '%d/%d' % (k, 2 ** fb)
        ent.append('|'.join(str(x) for x in c) + '|' + w)
    return ';'.join(ent)


def gen_points(rng, nd, maxn=14, span=6):
    cells = list(itertools.product(range(span), repeat=nd))
    n = rng.randint(1, min(maxn, len(cells)))
    kind = rng.choice(['random', 'random', 'line', 'blob', 'single'])
    if kind == 'single':
        pos = [rng.choice(cells)]
    elif kind == 'line':
        a = rng.randrange(nd)
        base = [rng.randrange(span) for _ in range(nd)]
        pos = []
        for i in range(min(n, span)):
            c = list(base)
            c[a] = i
            pos.append(tuple(c))
    else:
        pos = rng.sample(cells, n)
    fb = rng.choice([0, 1, 2])
    wk = [rng.randint(1, 40) for _ in pos]
    if kind == 'blob' and rng.random() < 0.5:
        wk = [7 for _ in pos]   # isotropic-ish / equal weights
    nan = rng.random() < 0.25 and len(pos) > 1
    if nan:
        for i in rng.sample(range(len(pos)), rng.randint(1, max(1, len(pos) // 3))):
            wk[i] = None
        if all(k is None for k in wk):
            wk[0] = 3
    return pos, wk, fb, kind


def make_stat(pos, wk, fb, idt=None):
    vals = np.array([np.nan if k is None else k / float(2 ** fb) for k in wk])
    nd = len(pos[0])
    idx = tuple(np.array([c[i] for c in pos]) for i in range(nd))
    if idt and (not idt.startswith('u') or all(x >= 0 for c in pos for x in c)):
        # positions in another integer / float type than np.where's int64 (e.g. coordinates read from a table)
        idx = tuple(a_.astype(idt) for a_ in idx)
    return ScalarStatistic(vals, idx)


# ---------------------------------------------------------------------------------------------
# C10

def gen_item_C10(rng, idx, tier):
    nd = rng.choice([1, 2, 2, 3, 3, 4])
    pos, wk, fb, kind = gen_points(rng, nd)
    dirv = [rng.randint(-3, 3) for _ in range(nd)]
    if not any(dirv):
        dirv[rng.randrange(nd)] = 1
    shift = [rng.randint(-5, 9) for _ in range(nd)]
    calls = ['mom0', 'mom1', 'mom2', 'along', 'paxes', 'count']
    rng.shuffle(calls)
    return {'nd': nd, 'pos': [list(c) for c in pos], 'wk': wk, 'fb': fb, 'kind': kind, 'dir': dirv, 'shift': shift,
            'scale': rng.choice([2, -1, -3, 0.5]), 'calls': calls, 'others': rng.randint(0, 2),
            'idt': rng.choice([None, None, None, 'uint8', 'uint16', 'uint64', 'int16', 'int32', 'float64', 'float32'])}


def stat_results(st, dirv):
    with warnings.catch_warnings():
        warnings.simplefilter('ignore')
        return {'mom0': float(st.mom0()), 'mom1': [float(x) for x in st.mom1()], 'mom2': np.array(st.mom2(), dtype=float),
                'along': float(st.mom2_along(tuple(dirv))), 'paxes': st.paxes(), 'count': int(st.count())}


def eval_C10(item):
    res = {'corr': [], 'pred': [], 'hyp': [], 'known': [], 'tags': ['nd=%d' % item['nd'], 'kind=' + item['kind']],
           'key': repr((item['pos'], item['wk'], item['fb'], item['dir']))}
    pos = [tuple(c) for c in item['pos']]
    nd = item['nd']
    wk, fb = item['wk'], item['fb']
    if any(k is None for k in wk):
        res['tags'].append('nan')
    st = make_stat(pos, wk, fb, item.get('idt'))
    if item.get('idt'):
        res['tags'].append('idx:' + item['idt'])
    # history: several live statistic objects, calls interleaved in the item's order
    import random
    others = [make_stat(*gen_points(random.Random(1000 * len(pos) + i), nd)[:3]) for i in range(item['others'])]
    got = {}
    with warnings.catch_warnings():
        warnings.simplefilter('ignore')
        for name in item['calls']:
            for o in others:
                getattr(o, 'mom2')() if name != 'count' else o.count()
            if name == 'along':
                got['along'] = float(st.mom2_along(tuple(item['dir'])))
                for o in others:
                    o.mom2_along(tuple(item['dir']))
            elif name == 'paxes':
                got['paxes'] = st.paxes()
            elif name == 'mom2':
                got['mom2'] = np.array(st.mom2(), dtype=float)
            elif name == 'mom1':
                got['mom1'] = [float(x) for x in st.mom1()]
            elif name == 'mom0':
                got['mom0'] = float(st.mom0())
            else:
                got['count'] = int(st.count())
    # other statistic objects (same dimensionality) created and evaluated AFTER this one has been evaluated must not
    # change what it reports: cached answers again, and an answer that is computed only now (another direction)
    dir2 = [x + 1 if i == 0 else x for i, x in enumerate(item['dir'])]
    if not any(dir2):
        dir2[0] = 2
    with warnings.catch_warnings():
        warnings.simplefilter('ignore')
        for i in range(2):
            o2 = make_stat(*gen_points(random.Random(77 * len(pos) + i), nd)[:3])
            o2.mom2()
            o2.paxes()
        again = {'mom2': np.array(st.mom2(), dtype=float), 'along': float(st.mom2_along(tuple(item['dir']))),
                 'along2': float(st.mom2_along(tuple(dir2))), 'mom1': [float(x) for x in st.mom1()]}
        ref2 = float(make_stat(pos, wk, fb).mom2_along(tuple(dir2)))
    if not np.array_equal(again['mom2'], got['mom2']) or again['along'] != got['along'] or again['mom1'] != got['mom1']:
        res['pred'].append('mom1 / mom2 / mom2_along of an object changed after OTHER statistic objects were evaluated')
    if again['along2'] != ref2:
        res['pred'].append('mom2_along%r = %r after other objects were evaluated, %r on a fresh object' % (tuple(dir2), again['along2'], ref2))
    fresh = stat_results(make_stat(pos, wk, fb), item['dir'])
    for k in ('mom0', 'along', 'count'):
        if got[k] != fresh[k]:
            res['pred'].append('%s depends on call history: %r vs fresh %r' % (k, got[k], fresh[k]))
    if got['mom1'] != fresh['mom1'] or not np.array_equal(got['mom2'], fresh['mom2']):
        res['pred'].append('mom1/mom2 depend on call history')
    # model
    m = ask_kv('moments nd=%d pts=%s dir=%s' % (nd, pts_string(pos, wk, fb), ','.join(str(x) for x in item['dir'])))
    if 'mom0' not in m:
        res['corr'].append('model: %r' % (m,))
        return res
    span = 10.0
    m0 = frac(m['mom0'])
    if not close(got['mom0'], m0, float(m0)):
        res['corr'].append('mom0 impl=%r model=%s' % (got['mom0'], m0))
    m1 = [frac(x) for x in m['mom1'].split(',')]
    for i in range(nd):
        if not close(got['mom1'][i], m1[i], span):
            res['corr'].append('mom1[%d] impl=%r model=%s' % (i, got['mom1'][i], m1[i]))
    m2 = [[frac(x) for x in row.split(',')] for row in m['mom2'].split(';')]
    for i in range(nd):
        for j in range(nd):
            if not close(got['mom2'][i, j], m2[i][j], span * span):
                res['corr'].append('mom2[%d,%d] impl=%r model=%s' % (i, j, got['mom2'][i, j], m2[i][j]))
    if m['along'] != '-' and not close(got['along'], frac(m['along']), span * span):
        res['corr'].append('mom2_along impl=%r model=%s' % (got['along'], m['along']))
    if got['count'] != int(m['count']):
        res['corr'].append('count impl=%r model=%s' % (got['count'], m['count']))
    # predicates (independent of the model): exact definitions with Fractions
    W = [Fraction(0) if k is None else Fraction(k, 2 ** fb) for k in wk]
    S = sum(W)
    mean = [sum(w * c[i] for w, c in zip(W, pos)) / S for i in range(nd)]
    cov = [[sum(w * (c[i] - mean[i]) * (c[j] - mean[j]) for w, c in zip(W, pos)) / S for j in range(nd)] for i in range(nd)]
    if not close(got['mom0'], S, float(S)):
        res['pred'].append('mom0 %r is not the sum of the values %s' % (got['mom0'], S))
    for i in range(nd):
        if not close(got['mom1'][i], mean[i], span):
            res['pred'].append('mom1[%d] %r is not the weighted mean %s' % (i, got['mom1'][i], mean[i]))
        for j in range(nd):
            if not close(got['mom2'][i, j], cov[i][j], span * span):
                res['pred'].append('mom2[%d,%d] %r is not the weighted covariance %s' % (i, j, got['mom2'][i, j], cov[i][j]))
    d = item['dir']
    qf = sum(Fraction(d[i]) * cov[i][j] * d[j] for i in range(nd) for j in range(nd)) / sum(x * x for x in d)
    if not close(got['along'], qf, span * span):
        res['pred'].append('mom2_along %r is not the quadratic form %s' % (got['along'], qf))
    with warnings.catch_warnings():
        warnings.simplefilter('ignore')
        st2 = make_stat(pos, wk, fb)
        sc = item['scale']
        a2 = float(st2.mom2_along(tuple(sc * x for x in d)))
        if not close(a2, got['along'], span * span):
            res['pred'].append('mom2_along depends on length/sign of the direction: %r vs %r' % (a2, got['along']))
        # translation
        sh = item['shift']
        st3 = make_stat([tuple(c[i] + sh[i] for i in range(nd)) for c in pos], wk, fb, item.get('idt'))
        t1 = [float(x) for x in st3.mom1()]
        t2 = np.array(st3.mom2(), dtype=float)
        for i in range(nd):
            if not close(t1[i], got['mom1'][i] + sh[i], span + 10):
                res['pred'].append('translation by %r moved mom1[%d] from %r to %r' % (sh, i, got['mom1'][i], t1[i]))
        if not np.allclose(t2, got['mom2'], rtol=0, atol=1e-9 * span * span):
            res['pred'].append('translation changed the second moments')
    # several directions at once ("all directions and projections"): each row is normalised on its own
    if nd >= 2:
        import random
        rr = random.Random(len(pos) * 131 + sum(d))
        rows = []
        while len(rows) < 2:
            v = [rr.randint(-3, 3) for _ in range(nd)]
            if any(v):
                rows.append(v)
        with warnings.catch_warnings():
            warnings.simplefilter('ignore')
            stm = make_stat(pos, wk, fb)
            G = np.atleast_2d(np.array(stm.mom2_along(tuple(tuple(r) for r in rows)), dtype=float))
        covf = np.array([[float(x) for x in row] for row in cov])
        R = np.array(rows, dtype=float)
        R = R / np.sqrt((R * R).sum(axis=1))[:, None]
        want = R.dot(covf).dot(R.T)
        if G.shape != want.shape or not np.allclose(G, want, rtol=0, atol=1e-9 * span * span):
            res['pred'].append('mom2_along(%r) = %r, quadratic forms of the normalised rows give %r' % (rows, G.tolist(), want.tolist()))
        # a matrix handed out belongs to the caller: change it in place (normalise, sort, ...), then ask for the same
        # directions at other lengths and as lists.  (Asking again with the *same* hashable argument returns the memoised
        # array itself in the code as it is; the property speaks about other arguments evaluated before.)
        with warnings.catch_warnings():
            warnings.simplefilter('ignore')
            for ask_ in (lambda: stm.mom2_along(tuple(tuple(r) for r in rows)),
                         lambda: stm.mom2_along(tuple(tuple(3 * x for x in r) for r in rows)),
                         lambda: stm.mom2_along([list(r) for r in rows])):
                try:
                    impl.use_up(ask_())
                except Exception:
                    pass
            G2 = np.atleast_2d(np.array(stm.mom2_along(tuple(tuple(2 * x for x in r) for r in rows)), dtype=float))
            G3 = np.atleast_2d(np.array(stm.mom2_along([list(r) for r in rows]), dtype=float))
        if G2.shape != want.shape or not np.allclose(G2, want, rtol=0, atol=1e-9 * span * span) or \
                G3.shape != want.shape or not np.allclose(G3, want, rtol=0, atol=1e-9 * span * span):
            res['pred'].append('mom2_along(%r) after the caller changed results for other arguments in place: %r / %r, expected %r' % (
                rows, G2.tolist(), G3.tolist(), want.tolist()))
        # projection onto a subspace: principal axes do not depend on the lengths of the projection rows
        for nr in (2, 3):
            if nd < 3 or nr > nd:
                continue
            ax1 = [[1 if j == i else 0 for j in range(nd)] for i in range(nr)]
            ax2 = [[(2 if i == 0 else 5) * x for x in r] for i, r in enumerate(ax1)]
            with warnings.catch_warnings():
                warnings.simplefilter('ignore')
                p1 = make_stat(pos, wk, fb).projected_paxes(tuple(tuple(r) for r in ax1))
                p2 = make_stat(pos, wk, fb).projected_paxes(tuple(tuple(r) for r in ax2))
            sub = covf[:nr, :nr]
            bad_ = False
            for P in (p1, p2):
                V = np.array([np.asarray(v, dtype=float) for v in P])
                lam = [float(v.dot(sub).dot(v)) for v in V] if V.shape == (nr, nr) else []
                if V.shape != (nr, nr) or not np.allclose(V.dot(V.T), np.eye(nr), atol=1e-8) or \
                        any(lam[i] < lam[i + 1] - 1e-9 * span * span for i in range(nr - 1)) or \
                        any(not np.allclose(sub.dot(v), l * v, atol=1e-8 * span * span) for v, l in zip(V, lam)):
                    res['pred'].append('projected_paxes onto %d axes are not the ordered orthonormal eigenvectors of the projected second moments' % nr)
                    bad_ = True
                    break
            if bad_:
                break
    # array-like (unhashable) direction arguments: accepted on a fresh object, and a buffer updated in place
    # between two calls on one object gives the result for its CURRENT contents
    d_alt = [d[i] + (1 if i == 0 else -1 if i == 1 else 0) for i in range(nd)]
    if not any(d_alt):
        d_alt[0] = 2
    qf_alt = sum(Fraction(d_alt[i]) * cov[i][j] * d_alt[j] for i in range(nd) for j in range(nd)) / sum(x * x for x in d_alt)
    for mk in (list, lambda v: np.array(v, dtype=float)):
        with warnings.catch_warnings():
            warnings.simplefilter('ignore')
            try:
                sl = make_stat(pos, wk, fb)
                buf = mk(d)
                r1 = float(sl.mom2_along(buf))
                for i in range(nd):
                    buf[i] = d_alt[i]
                r2 = float(sl.mom2_along(buf))
                r3 = float(sl.mom2_along(tuple(d)))
            except Exception as e:  # noqa
                res['pred'].append('mom2_along with an array-like direction on a fresh object raised %s: %s' % (type(e).__name__, str(e)[:80]))
                continue
        if not close(r1, qf, span * span) or not close(r3, qf, span * span):
            res['pred'].append('mom2_along(array-like %r) = %r, quadratic form %s' % (d, r1, qf))
        if not close(r2, qf_alt, span * span):
            res['pred'].append('mom2_along with a direction buffer updated in place to %r gives %r (result for the old contents %r), '
                               'quadratic form %s' % (d_alt, r2, d, qf_alt))
    # values handed over in a narrower float dtype (each exactly representable there): moments are still
    # accumulated in double precision -- the sums below are NOT representable in the narrow dtype
    if len(pos) >= 2:
        for dt, B in ((np.float32, 2 ** 24), (np.float16, 2048)):
            wn = [B] + [1] * (len(pos) - 1)
            idxn = tuple(np.array([c[i] for c in pos]) for i in range(nd))
            with warnings.catch_warnings():
                warnings.simplefilter('ignore')
                sn = ScalarStatistic(np.array(wn, dtype=dt), idxn)
                m0n = float(sn.mom0())
                m1n = [float(x) for x in sn.mom1()]
            Sn = Fraction(B + len(pos) - 1)
            meann = [sum(Fraction(w) * c[i] for w, c in zip(wn, pos)) / Sn for i in range(nd)]
            if m0n != float(Sn):
                res['pred'].append('mom0 of %s values %r is %r, their sum is %s' % (np.dtype(dt).name, wn[:4], m0n, Sn))
            elif any(not close(m1n[i], meann[i], span) for i in range(nd)):
                res['pred'].append('mom1 of %s values is %r, weighted mean %r' % (np.dtype(dt).name, m1n, [float(x) for x in meann]))
    # positions far from the origin (a small structure in a large mosaic): second moments are those of the
    # centred coordinates, to double precision
    if len(pos) >= 2:
        off = [(2 ** 20 + 3) if i == (len(pos) % nd) else (10 ** 6 if i % 2 else 2 ** 10) for i in range(nd)]
        posb = [tuple(c[i] + off[i] for i in range(nd)) for c in pos]
        with warnings.catch_warnings():
            warnings.simplefilter('ignore')
            sb_ = make_stat(posb, wk, fb)
            Mb = np.array(sb_.mom2(), dtype=float)
            ab_ = float(sb_.mom2_along(tuple(d)))
            m1b = [float(x) for x in sb_.mom1()]
        covf_ = np.array([[float(x) for x in row] for row in cov])
        if not np.allclose(Mb, covf_, rtol=0, atol=1e-6):
            res['pred'].append('second moments of positions offset by %r: %r, covariance %r' % (off, Mb.tolist(), covf_.tolist()))
        if not close(ab_, qf, span * span, 1e-8):
            res['pred'].append('mom2_along of positions offset by %r: %r, quadratic form %s' % (off, ab_, qf))
        if any(abs(m1b[i] - (float(mean[i]) + off[i])) > 1e-6 for i in range(nd)):
            res['pred'].append('mom1 of positions offset by %r: %r' % (off, m1b))
    # several live statistic objects built from ONE caller-owned values array: results must not depend on
    # what was evaluated on the others before, and the caller's array must stay untouched
    shared = np.array([np.nan if k is None else k / float(2 ** fb) for k in wk], dtype=float)
    keep = shared.copy()
    idxs = tuple(np.array([c[i] for c in pos]) for i in range(nd))
    idxs2 = tuple(np.array([c[i] + item['shift'][i] for c in pos]) for i in range(nd))
    with warnings.catch_warnings():
        warnings.simplefilter('ignore')
        sa, sb = ScalarStatistic(shared, idxs), ScalarStatistic(shared, idxs2)
        for name in item['calls'][:3]:
            if name in ('mom2', 'along', 'paxes'):
                sa.mom2_along(tuple(item['dir'])) if name == 'along' else sa.paxes() if name == 'paxes' else sa.mom2()
        b0, b1, b2 = float(sb.mom0()), [float(x) for x in sb.mom1()], np.array(sb.mom2(), dtype=float)
        a2 = np.array(sa.mom2(), dtype=float)
    if not np.array_equal(shared, keep, equal_nan=True):
        res['pred'].append('evaluating statistics modified the caller\'s values array')
    if not close(b0, got['mom0'], float(S)) or any(not close(b1[i], got['mom1'][i] + item['shift'][i], span + 10) for i in range(nd)) \
            or not np.allclose(b2, got['mom2'], rtol=0, atol=1e-9 * span * span) or not np.allclose(a2, got['mom2'], rtol=0, atol=1e-9 * span * span):
        res['pred'].append('moments of a statistic object depend on what was evaluated on another live object sharing its values: '
                           'mom0 %r (expected %r), mom1 %r' % (b0, got['mom0'], b1))
    # principal axes: real, orthonormal, ordered by decreasing variance, eigenvectors of mom2
    px = got['paxes']
    M = got['mom2']
    if len(px) != nd:
        res['pred'].append('paxes returned %d axes for %d dimensions' % (len(px), nd))
    else:
        V = []
        for v in px:
            v = np.asarray(v)
            if np.iscomplexobj(v):
                res['pred'].append('principal axis is complex: %r' % (v,))
                break
            V.append(v.astype(float))
        else:
            V = np.array(V)
            if not np.allclose(V.dot(V.T), np.eye(nd), atol=1e-8):
                res['pred'].append('principal axes are not orthonormal')
            lam = [float(v.dot(M).dot(v)) for v in V]
            if any(lam[i] < lam[i + 1] - 1e-9 * span * span for i in range(nd - 1)):
                res['pred'].append('principal axes are not ordered by decreasing variance: %r' % (lam,))
            for v, l in zip(V, lam):
                if not np.allclose(M.dot(v), l * v, atol=1e-8 * span * span):
                    res['pred'].append('principal axis %r is not an eigenvector of the second-moment matrix' % (v,))
                    break
    res['nontrivial'] = len(pos) >= 2
    return res


# ---------------------------------------------------------------------------------------------
# C13

C_SI = 299792458
KB_SI = Fraction(1380649, 10 ** 29)
PI_Q = Fraction(314159265358979323846264338327950288, 10 ** 35)
LN2_Q = Fraction(69314718055994530941723212145817657, 10 ** 35)
JY_SI = Fraction(1, 10 ** 26)

# unit spellings: (astropy unit, SI scale as Fraction (may involve PI_Q))
ANGLES = [(u.arcsec, PI_Q / 648000), (u.arcmin, PI_Q / 10800), (u.deg, PI_Q / 180), (u.rad, Fraction(1)), (u.mas, PI_Q / 648000000)]
LENGTHS = [(u.m, Fraction(1)), (u.cm, Fraction(1, 100)), (u.mm, Fraction(1, 1000)), (u.micron, Fraction(1, 10 ** 6)), (u.km, Fraction(1000))]
FAMILIES = {
    'fnu': [(u.Jy, JY_SI), (u.mJy, JY_SI / 1000), (u.MJy, JY_SI * 10 ** 6), (u.W / u.m ** 2 / u.Hz, Fraction(1)),
            (u.erg / u.s / u.cm ** 2 / u.Hz, Fraction(1, 1000))],
    'flambda': [(u.erg / u.cm ** 2 / u.s / u.micron, Fraction(1000)), (u.W / u.m ** 2 / u.m, Fraction(1)),
                (u.erg / u.cm ** 2 / u.s / u.AA, Fraction(10 ** 7)), (u.W / u.m ** 2 / u.nm, Fraction(10 ** 9))],
    'surf': [(u.MJy / u.sr, JY_SI * 10 ** 6), (u.Jy / u.sr, JY_SI), (u.Jy / u.arcsec ** 2, JY_SI / (PI_Q / 648000) ** 2),
             (u.mJy / u.arcsec ** 2, JY_SI / 1000 / (PI_Q / 648000) ** 2)],
    'perbeam': [(u.Jy / u.beam, JY_SI), (u.mJy / u.beam, JY_SI / 1000)],
    'temp': [(u.K, Fraction(1)), (u.mK, Fraction(1, 1000))],
}
OUTS = [(u.Jy, Fraction(1)), (u.mJy, Fraction(1, 1000)), (u.MJy, Fraction(10 ** 6)), (u.W / u.m ** 2 / u.Hz, 1 / JY_SI)]
DIMS = {'angle': u.arcsec, 'length': u.micron, 'freq': u.GHz, 'other': u.kg, 'temp': u.K, 'fnu': u.Jy}
NEEDS = {'fnu': [], 'flambda': ['w'], 'surf': ['s'], 'perbeam': ['s', 'a', 'b'], 'temp': ['s', 'a', 'b', 'w']}


def gen_item_C13(rng, idx, tier):
    fam = rng.choice(['fnu', 'flambda', 'surf', 'perbeam', 'temp'])
    n = rng.randint(1, 8)
    vals = [rng.randint(1, 400) / 8.0 for _ in range(n)]
    item = {'fam': fam, 'vals': vals, 'unit': rng.randrange(len(FAMILIES[fam])), 'unit2': rng.randrange(len(FAMILIES[fam])),
            'out': rng.randrange(len(OUTS)), 'lam': rng.randint(1, 2000) / 4.0, 'lam_u': rng.randrange(len(LENGTHS)),
            'lam_u2': rng.randrange(len(LENGTHS)),
            'pix': rng.randint(1, 80) / 4.0, 'pix_u': rng.randrange(len(ANGLES)), 'pix_u2': rng.randrange(len(ANGLES)),
            'bmaj': rng.randint(1, 80) / 4.0, 'bmin': rng.randint(1, 80) / 4.0, 'b_u': rng.randrange(len(ANGLES)),
            'b_u2': rng.randrange(len(ANGLES)),
            'a': rng.choice([2, 3, 0.5, 10]), 'split': rng.randint(0, n), 'mode': 'value'}
    if idx % 3 == 2:
        item['mode'] = 'error'
        # every way of omitting or mis-typing a required item, wrong input family, wrong output
        item['in'] = rng.choice(['fnu', 'flambda', 'surf', 'perbeam', 'temp', 'temp', 'perbeam', 'other'])
        item['meta'] = dict((k, rng.choice(['-', 'angle', 'length', 'freq', 'other', 'angle', 'length'] if k != 'w' else
                                           ['-', 'length', 'freq', 'angle', 'other', 'length'])) for k in 'wsab')
        # mostly-valid stream: start from a valid assignment and break at most two things
        if rng.random() < 0.7 and item['in'] != 'other':
            item['meta'] = {'w': rng.choice(['length', 'length', 'freq']) if item['in'] == 'temp' else 'length', 's': 'angle', 'a': 'angle', 'b': 'angle'}
            for _ in range(rng.choice([0, 1, 1, 2])):
                k = rng.choice('wsab')
                item['meta'][k] = rng.choice(['-', 'other', 'length' if k != 'w' else 'angle', 'freq'])
        item['outdim'] = rng.choice(['fnu', 'fnu', 'fnu', 'other', 'temp'])
    return item


def flux_call(fam, vals, unit, out, meta, as_column=False):
    from astrodendro.flux import compute_flux
    with warnings.catch_warnings():
        warnings.simplefilter('ignore')
        if as_column:
            # the values as a table column with a unit (what a catalog hands back), not a Quantity
            from astropy.table import Column
            return compute_flux(Column(np.array(vals), unit=unit), out, **meta)
        return compute_flux(np.array(vals) * unit, out, **meta)


ERRMAP = [('wavelength should be', 'wavelength-dim'), ('wavelength is needed', 'wavelength-missing'),
          ('spatial_scale should be', 'spatial-dim'), ('spatial_scale is needed', 'spatial-missing'),
          ('beam_major should be', 'bmaj-dim'), ('beam_major is needed', 'bmaj-missing'),
          ('beam_minor should be', 'bmin-dim'), ('beam_minor is needed', 'bmin-missing'),
          ('not yet supported', 'unsupported'), ('output_unit has to be', 'output-unit')]


def eval_C13(item):
    res = {'corr': [], 'pred': [], 'hyp': [], 'known': [], 'tags': ['mode=' + item['mode'], 'fam=' + item.get('fam', '?')],
           'key': repr(sorted(item.items())), 'nontrivial': True}
    if item['mode'] == 'error':
        inp = item['in']
        unit = DIMS['other'] if inp == 'other' else FAMILIES[inp][0][0]
        meta = {}
        names = {'w': 'wavelength', 's': 'spatial_scale', 'a': 'beam_major', 'b': 'beam_minor'}
        for k, dim in item['meta'].items():
            if dim != '-':
                meta[names[k]] = 2.5 * DIMS[dim]
        out = DIMS[item['outdim']]
        try:
            r = flux_call(inp, [1.0, 2.0], unit, out, meta)
            got = 'ok'
            if not np.isfinite(r.value):
                got = 'ok-nonfinite'
        except ValueError as e:
            got = next((name for pat, name in ERRMAP if pat in str(e)), 'ValueError:' + str(e)[:40])
        except Exception as e:
            got = type(e).__name__ + ':' + str(e)[:40]
        m = ask_kv('fluxerr in=%s w=%s s=%s a=%s b=%s out=%s' % (inp, item['meta']['w'], item['meta']['s'], item['meta']['a'],
                                                                   item['meta']['b'], item['outdim']))
        want = m.get('outcome')
        res['tags'].append('outcome=' + str(want))
        if got != want:
            res['corr'].append('error table: impl %r model %r' % (got, want))
        # predicate: a number only if everything required is present and well-typed and the output is a flux density
        need = NEEDS.get(inp)
        okmeta = need is not None and all(item['meta'][k] == ('angle' if k != 'w' else 'length') or
                                          (k == 'w' and inp == 'temp' and item['meta'][k] == 'freq') for k in need)
        should_ok = okmeta and item['outdim'] == 'fnu'
        if (got == 'ok') != should_ok:
            res['pred'].append('input %s, metadata %r, output %s: expected %s, got %r'
                               % (inp, item['meta'], item['outdim'], 'a number' if should_ok else 'an error', got))
        return res
    fam = item['fam']
    unit, uscale = FAMILIES[fam][item['unit']]
    out, oscale = OUTS[item['out']]
    lam_u, lam_s = LENGTHS[item['lam_u']]
    pix_u, pix_s = ANGLES[item['pix_u']]
    b_u, b_s = ANGLES[item['b_u']]
    b_u2, b_s2 = ANGLES[item.get('b_u2', item['b_u'])]
    meta = {'wavelength': item['lam'] * lam_u, 'spatial_scale': item['pix'] * pix_u,
            'beam_major': item['bmaj'] * b_u, 'beam_minor': item['bmin'] * b_u2}
    vals = item['vals']
    r = flux_call(fam, vals, unit, out, meta)
    if r.unit != out:
        res['pred'].append('result unit %s, requested %s' % (r.unit, out))
    got = float(r.value)
    F = Fraction
    lam = F(item['lam']) * lam_s
    pix = F(item['pix']) * pix_s
    bmaj, bmin = F(item['bmaj']) * b_s, F(item['bmin']) * b_s2
    line = ('flux fam=%s vals=%s scale=%s out=%s jy=%s c=%d kb=%s pi=%s ln2=%s lam=%s pix=%s bmaj=%s bmin=%s'
            % (fam, ','.join('%d/%d' % (F(v).numerator, F(v).denominator) for v in vals), '%d/%d' % (uscale.numerator, uscale.denominator),
               '%d/%d' % (oscale.numerator, oscale.denominator), '%d/%d' % (JY_SI.numerator, JY_SI.denominator), C_SI,
               '%d/%d' % (KB_SI.numerator, KB_SI.denominator), '%d/%d' % (PI_Q.numerator, PI_Q.denominator),
               '%d/%d' % (LN2_Q.numerator, LN2_Q.denominator), *('%d/%d' % (x.numerator, x.denominator) for x in (lam, pix, bmaj, bmin))))
    m = ask_kv(line)
    if 'total' not in m:
        res['corr'].append('model: %r' % (m,))
        return res
    want = frac(m['total'])
    tol = 1e-9
    if not close(got, want, float(want), tol):
        res['corr'].append('total flux impl=%r model=%r' % (got, float(want)))
    # textbook formula, independently (exact pi/(4 ln 2) for the per-beam family: tolerance 2e-5 there)
    S = sum(F(v) for v in vals) * uscale
    if fam == 'fnu':
        tb = S
    elif fam == 'flambda':
        tb = S * lam * lam / C_SI
    elif fam == 'surf':
        tb = S * pix * pix
    elif fam == 'perbeam':
        tb = S * pix * pix / (PI_Q / (4 * LN2_Q) * bmaj * bmin)
        tol = 2e-5
    else:
        nu = C_SI / lam
        tb = 2 * KB_SI * S * nu * nu / (C_SI * C_SI) * pix * pix
    tb = tb / JY_SI / oscale
    if not close(got, tb, float(tb), tol):
        res['pred'].append('total flux %r differs from the textbook conversion %r' % (got, float(tb)))
    # the flux property of the statistic classes feeds the sum of the values, data_unit and the metadata
    idx2 = (np.arange(len(vals)) // 3, np.arange(len(vals)) % 3)
    md = {'data_unit': unit, 'wavelength': meta['wavelength'], 'spatial_scale': meta['spatial_scale'],
          'beam_major': meta['beam_major'], 'beam_minor': meta['beam_minor']}
    tb_jy = float(tb * oscale)
    with warnings.catch_warnings():
        warnings.simplefilter('ignore')
        try:
            f2 = PPStatistic(ScalarStatistic(np.array(vals), idx2), md).flux
            if f2.unit != u.Jy or not close(float(f2.value), tb_jy, tb_jy, tol):
                res['pred'].append('PPStatistic.flux = %r, textbook conversion of the summed values %r Jy' % (f2, tb_jy))
            idx3 = (np.zeros(len(vals), dtype=int),) + idx2
            md3 = dict(md)
            md3['velocity_scale'] = 2.0 * u.km / u.s
            f3 = PPVStatistic(ScalarStatistic(np.array(vals), idx3), md3).flux
            if f3.unit != u.Jy or not close(float(f3.value), tb_jy, tb_jy, tol):
                res['pred'].append('PPVStatistic.flux = %r, textbook conversion of the summed values %r Jy' % (f3, tb_jy))
            # the data unit may be given as a Quantity (4 x the unit, values 4 x smaller): the same physical input
            md_q = dict(md)
            md_q['data_unit'] = 4 * unit
            fq = PPStatistic(ScalarStatistic(np.array(vals) / 4.0, idx2), md_q).flux
            if fq.unit != u.Jy or not close(float(fq.value), tb_jy, tb_jy, tol):
                res['pred'].append('PPStatistic.flux with data_unit given as the Quantity 4 %s and values / 4 = %r, expected %r Jy'
                                   % (unit, fq, tb_jy))
        except Exception as e:
            res['pred'].append('flux property raised %s: %s' % (type(e).__name__, str(e)[:80]))
        # a required item that is missing in the metadata must surface as an error from the property too
        need = NEEDS[fam]
        if need:
            k_ = {'w': 'wavelength', 's': 'spatial_scale', 'a': 'beam_major', 'b': 'beam_minor'}[need[item['split'] % len(need)]]
            md4 = dict(md)
            del md4[k_]
            try:
                PPStatistic(ScalarStatistic(np.array(vals), idx2), md4).flux
                res['pred'].append('flux property returned a number although %s is missing from the metadata' % k_)
            except ValueError:
                pass
            except Exception as e:
                res['pred'].append('flux property with %s missing raised %s' % (k_, type(e).__name__))
    # a float32 image in Jy: the flux of a structure is the sum of its pixel values in double precision
    with warnings.catch_warnings():
        warnings.simplefilter('ignore')
        nn_ = max(2, len(vals))
        w32 = np.array([2 ** 24] + [1] * (nn_ - 1), dtype=np.float32)
        idxw = (np.arange(nn_) // 3, np.arange(nn_) % 3)
        try:
            f32 = PPStatistic(ScalarStatistic(w32, idxw), {'data_unit': u.Jy}).flux
            if f32.unit != u.Jy or float(f32.value) != float(2 ** 24 + nn_ - 1):
                res['pred'].append('flux of float32 Jy pixels %r is %r, their sum is %d' % (w32[:4].tolist(), f32, 2 ** 24 + nn_ - 1))
        except Exception as e:  # noqa
            res['pred'].append('flux of float32 pixels raised %s' % type(e).__name__)
    # linear, additive, unit-independent
    a = item['a']
    ra = float(flux_call(fam, [a * v for v in vals], unit, out, meta).value)
    if not close(ra, a * got, a * got, 1e-9):
        res['pred'].append('not linear: flux(%s * x) = %r, %s * flux(x) = %r' % (a, ra, a, a * got))
    k = item['split']
    if 0 < k < len(vals):
        r1 = float(flux_call(fam, vals[:k], unit, out, meta).value)
        r2 = float(flux_call(fam, vals[k:], unit, out, meta).value)
        if not close(r1 + r2, got, got, 1e-9):
            res['pred'].append('not additive over a split of the pixels: %r + %r != %r' % (r1, r2, got))
    unit2, uscale2 = FAMILIES[fam][item['unit2']]
    lam_u2, lam_s2 = LENGTHS[item['lam_u2']]
    pix_u2, pix_s2 = ANGLES[item['pix_u2']]
    vals2 = [float(F(v) * uscale / uscale2) for v in vals]
    meta2 = dict(meta)
    meta2['wavelength'] = float(F(item['lam']) * lam_s / lam_s2) * lam_u2
    meta2['spatial_scale'] = float(F(item['pix']) * pix_s / pix_s2) * pix_u2
    r3 = float(flux_call(fam, vals2, unit2, out, meta2).value)
    if not close(r3, got, got, 1e-8):
        res['pred'].append('depends on the units equal inputs are expressed in: %r (%s) vs %r (%s)' % (r3, unit2, got, unit))
    # the same inputs as a table column carrying its unit (in both unit spellings)
    if len(vals):
        try:
            rc1 = float(flux_call(fam, vals, unit, out, meta, as_column=True).value)
            rc2 = float(flux_call(fam, vals2, unit2, out, meta2, as_column=True).value)
            if not close(rc1, got, got, 1e-8) or not close(rc2, got, got, 1e-8):
                res['pred'].append('values given as a table column with unit %s / %s: %r / %r, as a Quantity %r' % (unit, unit2, rc1, rc2, got))
        except Exception as e:
            res['pred'].append('values given as a table column with a unit raised %s: %s' % (type(e).__name__, str(e)[:100]))
    # the SAME numbers in OTHER units are other physical inputs: a later call in the same process gets the
    # textbook value for those (nothing of an earlier call with equal numbers is reused)
    def textbook(lam_, pix_, bmaj_, bmin_):
        if fam == 'fnu':
            t = S
        elif fam == 'flambda':
            t = S * lam_ * lam_ / C_SI
        elif fam == 'surf':
            t = S * pix_ * pix_
        elif fam == 'perbeam':
            t = S * pix_ * pix_ / (PI_Q / (4 * LN2_Q) * bmaj_ * bmin_)
        else:
            nu_ = C_SI / lam_
            t = 2 * KB_SI * S * nu_ * nu_ / (C_SI * C_SI) * pix_ * pix_
        return t / JY_SI / oscale
    for which in ('beam', 'pix', 'lam'):
        meta5 = dict(meta)
        lam5, pix5, bmaj5, bmin5 = lam, pix, bmaj, bmin
        if which == 'beam':
            nb_u, nb_s = ANGLES[(item['b_u'] + 1) % len(ANGLES)]
            meta5['beam_major'], meta5['beam_minor'] = item['bmaj'] * nb_u, item['bmin'] * nb_u
            bmaj5, bmin5 = F(item['bmaj']) * nb_s, F(item['bmin']) * nb_s
        elif which == 'pix':
            np_u, np_s = ANGLES[(item['pix_u'] + 1) % len(ANGLES)]
            meta5['spatial_scale'] = item['pix'] * np_u
            pix5 = F(item['pix']) * np_s
        else:
            nl_u, nl_s = LENGTHS[(item['lam_u'] + 1) % len(LENGTHS)]
            meta5['wavelength'] = item['lam'] * nl_u
            lam5 = F(item['lam']) * nl_s
        try:
            r5 = float(flux_call(fam, vals, unit, out, meta5).value)
        except Exception as e:  # noqa
            res['pred'].append('same numbers in other %s units raised %s' % (which, type(e).__name__))
            continue
        tb5 = textbook(lam5, pix5, bmaj5, bmin5)
        if not close(r5, tb5, float(tb5), tol):
            res['pred'].append('after a call with equal numbers, the %s given in another unit yields %r, textbook %r' % (which, r5, float(tb5)))
    return res


# ---------------------------------------------------------------------------------------------
# C11

def gen_item_C11(rng, idx, tier):
    dim = 3 if idx % 4 != 3 else 2
    pos, wk, fb, kind = gen_points(rng, dim, maxn=12, span=5)
    if len(pos) < 2:
        pos, wk, fb, kind = gen_points(rng, dim, maxn=12, span=5)
    wk = [k if k is not None else 5 for k in wk]
    return {'dim': dim, 'pos': [list(c) for c in pos], 'wk': wk, 'fb': fb, 'kind': kind, 'vaxis': rng.choice([0, 1, 2]),
            'dx': rng.choice([None, 0.5, 2.0, 7.0]), 'dv': rng.choice([None, 0.25, 3.0]), 'c': rng.choice([2.0, 0.5, 10.0]),
            'wcs': rng.random() < 0.3, 'meta_case': rng.choice(['ok', 'ok', 'ok', 'no_data_unit', 'bad_type', 'bad_wcs'])}


def _exact_moments(pos, wk, fb, nd):
    W = [Fraction(k, 2 ** fb) for k in wk]
    S = sum(W)
    mean = [sum(w * c[i] for w, c in zip(W, pos)) / S for i in range(nd)]
    cov = [[sum(w * (c[i] - mean[i]) * (c[j] - mean[j]) for w, c in zip(W, pos)) / S for j in range(nd)] for i in range(nd)]
    return S, mean, cov


def eval_C11(item):
    res = {'corr': [], 'pred': [], 'hyp': [], 'known': [], 'tags': ['dim=%d' % item['dim'], 'kind=' + item['kind'], 'meta=' + item['meta_case']],
           'key': repr(sorted(item.items())), 'nontrivial': len(item['pos']) >= 2}
    pos = [tuple(c) for c in item['pos']]
    wk, fb, dim = item['wk'], item['fb'], item['dim']
    st = make_stat(pos, wk, fb)
    md = {'data_unit': u.Jy}
    dx, dv = item['dx'], item['dv']
    if dx is not None:
        md['spatial_scale'] = dx * u.arcsec
    if dim == 3:
        vaxis = item['vaxis']
        md['vaxis'] = vaxis
        if dv is not None:
            md['velocity_scale'] = dv * u.km / u.s
        res['tags'].append('vaxis=%d' % vaxis)
    mc = item['meta_case']
    cls = PPVStatistic if dim == 3 else PPStatistic
    with warnings.catch_warnings():
        warnings.simplefilter('ignore')
        if mc != 'ok':
            md2 = dict(md)
            try:
                if mc == 'no_data_unit':
                    del md2['data_unit']
                    cls(st, md2).flux
                    res['pred'].append('flux without data_unit did not raise')
                elif mc == 'bad_type':
                    md2['spatial_scale'] = 3.0
                    cls(st, md2).major_sigma
                    res['pred'].append('spatial_scale given as a bare number was accepted')
                else:
                    md2['wcs'] = 'not a wcs'
                    cls(st, md2).x_cen
                    res['pred'].append('wcs given as a string was accepted')
            except KeyError:
                if mc != 'no_data_unit':
                    res['pred'].append('%s raised KeyError' % mc)
            except TypeError:
                if mc == 'no_data_unit':
                    res['pred'].append('missing data_unit raised TypeError')
        s = cls(st, md)
        try:
            q = {'major': s.major_sigma, 'minor': s.minor_sigma, 'radius': s.radius, 'area_ellipse': s.area_ellipse,
                 'area_exact': s.area_exact, 'pa': s.position_angle, 'x': s.x_cen, 'y': s.y_cen}
            if dim == 3:
                q['v'] = s.v_cen
                q['vrms'] = s.v_rms
        except Exception as e:
            res['pred'].append('statistic raised %s: %s' % (type(e).__name__, str(e)[:80]))
            return res
    DX = 1.0 if dx is None else dx
    DV = 1.0 if dv is None else dv
    sunit = u.pixel if dx is None else u.arcsec
    vunit = u.pixel if dv is None else u.km / u.s
    # units
    for k, un in (('major', sunit), ('minor', sunit), ('radius', sunit), ('area_ellipse', sunit ** 2), ('area_exact', sunit ** 2),
                  ('pa', u.degree), ('x', u.pixel), ('y', u.pixel)) + ((('v', u.pixel), ('vrms', vunit)) if dim == 3 else ()):
        if getattr(q[k], 'unit', None) != un:
            res['pred'].append('%s carries unit %r, expected %s' % (k, getattr(q[k], 'unit', None), un))
    val = dict((k, np.asarray(getattr(v, 'value', v))) for k, v in q.items())
    for k, v in val.items():
        if np.iscomplexobj(v) or not np.all(np.isfinite(v.astype(float))):
            res['pred'].append('%s is not a finite real number: %r' % (k, v))
            return res
    val = dict((k, float(v)) for k, v in val.items())
    # model
    line = ('ppv vaxis=%d pts=%s' % (item['vaxis'], pts_string(pos, wk, fb))) if dim == 3 else ('pp pts=%s' % pts_string(pos, wk, fb))
    m = ask_kv(line)
    if 'sigsum' not in m:
        res['corr'].append('model: %r' % (m,))
        return res
    sc = 25.0
    checks = [('major^2+minor^2', val['major'] ** 2 + val['minor'] ** 2, DX * DX * float(frac(m['sigsum'])), sc * DX * DX),
              ('(major*minor)^2', (val['major'] * val['minor']) ** 2, DX ** 4 * float(frac(m['sigprod'])), sc * sc * DX ** 4),
              ('x_cen', val['x'], float(frac(m['xcen'])), 5), ('y_cen', val['y'], float(frac(m['ycen'])), 5),
              ('area_exact', val['area_exact'], DX * DX * int(m['area']), 25 * DX * DX)]
    if dim == 3:
        checks += [('v_rms^2', val['vrms'] ** 2, DV * DV * float(frac(m['vrmssq'])), sc * DV * DV), ('v_cen', val['v'], float(frac(m['vcen'])), 5)]
    for name, got, want, scale in checks:
        if not close(got, want, scale, 1e-8):
            res['corr'].append('%s impl=%r model=%r' % (name, got, want))
    # predicates from exact moments (independent of the model)
    S, mean, cov = _exact_moments(pos, wk, fb, dim)
    if dim == 3:
        sky = [a for a in range(3) if a != item['vaxis']]
    else:
        sky = [0, 1]
    a_, b_, c_ = float(cov[sky[0]][sky[0]]), float(cov[sky[0]][sky[1]]), float(cov[sky[1]][sky[1]])
    tr, det = a_ + c_, a_ * c_ - b_ * b_
    disc = max(tr * tr / 4 - det, 0.0)
    l1, l2 = tr / 2 + math.sqrt(disc), max(tr / 2 - math.sqrt(disc), 0.0)
    exp = {'major': DX * math.sqrt(l1), 'minor': DX * math.sqrt(l2)}
    exp['radius'] = math.sqrt(exp['major'] * exp['minor'])
    exp['area_ellipse'] = math.pi * exp['major'] * exp['minor'] * (2.3548 * 0.5) ** 2
    n_sky = len(set((c[sky[0]], c[sky[1]]) for c in pos))
    exp['area_exact'] = n_sky * DX * DX
    exp['y'] = float(mean[sky[0]])
    exp['x'] = float(mean[sky[1]])
    if dim == 3:
        exp['v'] = float(mean[item['vaxis']])
        exp['vrms'] = DV * math.sqrt(float(cov[item['vaxis']][item['vaxis']]))
    # square roots amplify rounding near zero: compare minor^2, radius^4, area_ellipse^2 instead
    POW = {'minor': 2, 'radius': 4, 'area_ellipse': 2, 'major': 2, 'vrms': 2}
    for k, want in exp.items():
        pw = POW.get(k, 1)
        if not close(val[k] ** pw, want ** pw, (10 * DX * DX + 10) ** pw, 1e-8):
            res['pred'].append('%s = %r, definition gives %r' % (k, val[k], want))
    if not (val['major'] >= val['minor'] - 1e-9 and val['minor'] >= 0):
        res['pred'].append('sigmas not ordered / non-negative: major %r minor %r' % (val['major'], val['minor']))
    # position angle: direction of the major axis in the sky plane (angle of (a[0], a[1]) via arctan2(a0, a1))
    if l1 - l2 > 1e-6 * max(1.0, l1):
        ang = math.radians(val['pa'])
        vy, vx = math.sin(ang), math.cos(ang)      # a = (vy, vx) in (sky[0], sky[1]) order
        r0 = a_ * vy + b_ * vx - l1 * vy
        r1 = b_ * vy + c_ * vx - l1 * vx
        if abs(r0) + abs(r1) > 1e-6 * max(1.0, l1):
            res['pred'].append('position angle %r deg is not the direction of the major axis' % val['pa'])
    # the velocity axis is a convention: transposed data with vaxis = 0 gives the same numbers
    if dim == 3 and item['vaxis'] != 0:
        v = item['vaxis']
        perm = [v] + [a for a in range(3) if a != v]
        pos2 = [tuple(c[a] for a in perm) for c in pos]
        md0 = dict(md)
        md0['vaxis'] = 0
        with warnings.catch_warnings():
            warnings.simplefilter('ignore')
            s0 = PPVStatistic(make_stat(pos2, wk, fb), md0)
            for k, attr in (('major', 'major_sigma'), ('minor', 'minor_sigma'), ('vrms', 'v_rms'), ('x', 'x_cen'), ('y', 'y_cen'),
                            ('v', 'v_cen'), ('area_exact', 'area_exact'), ('radius', 'radius')):
                w = float(getattr(s0, attr).value)
                pw = POW.get(k, 1)
                if not close(val[k] ** pw, w ** pw, (10 * DX * DX + 10) ** pw, 1e-8):
                    res['pred'].append('%s differs between vaxis=%d and the transposed data with vaxis=0: %r vs %r' % (k, v, val[k], w))
    # a structure far from the origin of a large mosaic: sizes do not depend on where it sits
    if len(pos) >= 2:
        offs = [10 ** 6 + 3, 2 ** 20, 10 ** 6][:dim]
        posb = [tuple(c[i] + offs[i] for i in range(dim)) for c in pos]
        with warnings.catch_warnings():
            warnings.simplefilter('ignore')
            try:
                sb_ = cls(make_stat(posb, wk, fb), md)
                bmaj, bmin = float(sb_.major_sigma.value), float(sb_.minor_sigma.value)
                brad = float(sb_.radius.value)
                bv = float(sb_.v_rms.value) if dim == 3 else None
            except Exception as e:  # noqa
                res['pred'].append('statistics of positions offset by %r raised %s' % (offs, type(e).__name__))
                bmaj = None
        if bmaj is not None:
            if not close(bmaj ** 2, val['major'] ** 2, 1.0, 1e-5 * DX * DX) or not close(bmin ** 2, val['minor'] ** 2, 1.0, 1e-5 * DX * DX) or \
                    (dim == 3 and not close(bv ** 2, val['vrms'] ** 2, 1.0, 1e-5 * DV * DV)):
                res['pred'].append('sizes change when all positions are offset by %r: major %r -> %r, minor %r -> %r%s'
                                   % (offs, val['major'], bmaj, val['minor'], bmin, '' if dim == 2 else ', v_rms %r -> %r' % (val['vrms'], bv)))
    # pixel values of a float16 / float32 image (each exactly representable): statistics are those of the
    # same numbers in double precision (the weight sums are not representable in the narrow dtype)
    if len(pos) >= 2:
        for dt, B in ((np.float16, 2048), (np.float32, 2 ** 24)):
            wn = [B] + [1] * (len(pos) - 1)
            idxn = tuple(np.array([c[i] for c in pos]) for i in range(dim))
            Sn, meann, covn = _exact_moments(pos, wn, 0, dim)
            an, bn, cn = float(covn[sky[0]][sky[0]]), float(covn[sky[0]][sky[1]]), float(covn[sky[1]][sky[1]])
            with warnings.catch_warnings():
                warnings.simplefilter('ignore')
                try:
                    sn = cls(ScalarStatistic(np.array(wn, dtype=dt), idxn), md)
                    gmaj, gmin = float(sn.major_sigma.value), float(sn.minor_sigma.value)
                    gx, gy = float(sn.x_cen.value), float(sn.y_cen.value)
                except Exception as e:  # noqa
                    res['pred'].append('statistics of %s values raised %s' % (np.dtype(dt).name, type(e).__name__))
                    continue
            if not close(gmaj ** 2 + gmin ** 2, DX * DX * (an + cn), 25 * DX * DX, 1e-7) or \
                    not close(gx, float(meann[sky[1]]), 5, 1e-7) or not close(gy, float(meann[sky[0]]), 5, 1e-7):
                res['pred'].append('statistics of %s pixel values %r: major^2+minor^2 = %r (definition %r), centroid (%r, %r) (definition (%r, %r))'
                                   % (np.dtype(dt).name, wn[:4], gmaj ** 2 + gmin ** 2, DX * DX * (an + cn), gx, gy,
                                      float(meann[sky[1]]), float(meann[sky[0]])))
    # one statistic object whose metadata dictionary is updated in place (it is read at every evaluation):
    # after declaring another velocity axis every quantity is that of a fresh object with the new metadata
    if dim == 3:
        v_new = (item['vaxis'] + 1 + (len(pos) % 2)) % 3
        md_live = dict(md)
        with warnings.catch_warnings():
            warnings.simplefilter('ignore')
            try:
                s_live = PPVStatistic(make_stat(pos, wk, fb), md_live)
                for attr in ('major_sigma', 'position_angle', 'v_rms', 'x_cen'):
                    getattr(s_live, attr)
                md_live['vaxis'] = v_new
                s_new = PPVStatistic(make_stat(pos, wk, fb), dict(md_live))
                for k, attr in (('major', 'major_sigma'), ('minor', 'minor_sigma'), ('vrms', 'v_rms'), ('x', 'x_cen'), ('y', 'y_cen'),
                                ('v', 'v_cen'), ('area_exact', 'area_exact'), ('radius', 'radius'), ('area_ellipse', 'area_ellipse')):
                    g, w = float(getattr(s_live, attr).value), float(getattr(s_new, attr).value)
                    pw = POW.get(k, 1)
                    if not close(g ** pw, w ** pw, (10 * DX * DX + 10) ** pw, 1e-8):
                        res['pred'].append('%s after changing metadata[\'vaxis\'] from %d to %d on a live object is %r, a fresh object gives %r'
                                           % (k, item['vaxis'], v_new, g, w))
            except Exception as e:  # noqa
                res['pred'].append('live metadata change raised %s: %s' % (type(e).__name__, str(e)[:80]))
    # linear scaling
    if dx is not None:
        md3 = dict(md)
        md3['spatial_scale'] = item['c'] * dx * u.arcsec
        with warnings.catch_warnings():
            warnings.simplefilter('ignore')
            s3 = cls(st, md3)
            for k, attr, pw in (('major', 'major_sigma', 1), ('minor', 'minor_sigma', 1), ('radius', 'radius', 1), ('area_exact', 'area_exact', 2),
                                ('area_ellipse', 'area_ellipse', 2)):
                w = float(getattr(s3, attr).value)
                q4 = POW.get(k, 1)
                if not close(w ** q4, (val[k] * item['c'] ** pw) ** q4, (10 * DX * DX * item['c'] ** 2 + 10) ** q4, 1e-8):
                    res['pred'].append('%s does not scale linearly with spatial_scale' % k)
    # linear WCS: centroids through the transformation (scales, offsets, and a PC matrix that mixes the axes)
    if item['wcs']:
        from astropy.wcs import WCS
        w = WCS(naxis=dim)
        w.wcs.crpix = [1.0] * dim
        w.wcs.cdelt = [0.5, 2.0, 3.0][:dim]
        w.wcs.crval = [10.0, -4.0, 100.0][:dim]
        pc = np.eye(dim)
        variant = (len(pos) + sum(sum(c) for c in pos)) % 3
        if variant == 1:
            c30, s30 = math.cos(math.pi / 6), math.sin(math.pi / 6)
            pc[0, 0], pc[0, 1], pc[1, 0], pc[1, 1] = c30, -s30, s30, c30          # sky plane rotated by 30 degrees
        elif variant == 2:
            pc = np.eye(dim) + 0.25 * np.arange(dim * dim).reshape(dim, dim) / float(dim * dim)   # general linear
        w.wcs.pc = pc
        md4 = dict(md)
        md4['wcs'] = w
        with warnings.catch_warnings():
            warnings.simplefilter('ignore')
            s4 = cls(st, md4)
            try:
                # FITS axis f <-> numpy axis dim-1-f; pixel coordinates are 0-based, crpix = 1
                pf = [float(mean[dim - 1 - f]) for f in range(dim)]
                wf = [w.wcs.crval[f] + w.wcs.cdelt[f] * sum(pc[f, g] * pf[g] for g in range(dim)) for f in range(dim)]
                wn = [wf[dim - 1 - k] for k in range(dim)]       # world coordinates in numpy axis order
                want = {'x_cen': wn[sky[1]], 'y_cen': wn[sky[0]]}
                if dim == 3:
                    want['v_cen'] = wn[item['vaxis']]
                for k_, v_ in sorted(want.items()):
                    g_ = float(getattr(s4, k_))
                    if not close(g_, v_, 200, 1e-8):
                        res['pred'].append('%s through the linear WCS (variant %d): got %r, expected %r' % (k_, variant, g_, v_))
            except Exception as e:
                res['pred'].append('centroid through the WCS raised %s: %s' % (type(e).__name__, str(e)[:60]))
    return res


# ---------------------------------------------------------------------------------------------
# C12

def gen_item_C12(rng, idx, tier):
    import props_history as ph
    nd = 2 if idx % 3 != 2 else 3
    mode = 'periodic' if idx % 4 == 1 else 'plain'
    if mode == 'periodic':
        shape = [rng.randint(2, 4), rng.randint(6, 12)] if nd == 2 else [2, rng.randint(2, 3), rng.randint(6, 10)]
        case = gen.gen_compute_case(rng, force={'shape': shape, 'periodic': [nd - 1]})
        case['per_as_list'] = False
    else:
        case = gen.gen_compute_case(rng, maxpix=40, force={'ndim': nd, 'adj': 'grid'})
    case['dtype'] = 'float64'
    case['k'] = [None if x is None else abs(x) + 1 for x in case['k']]
    if case['minv'] != 'min':
        case['minv'] = [max(case['minv'][0], 0), case['minv'][1]]
    case['crits'] = []
    if idx % 8 == 5:
        # a long periodic axis (a survey strip): a structure straddling the edge, far more columns than a byte holds
        L = rng.choice([171, 200, 250, 255, 256, 300])
        r_ = rng.choice([1, 2, 3])
        if rng.random() < 0.12 * float(os.environ.get('VERIF_LONG_AXIS', '0.004')) / 0.004:
            # ... and more than 16 bits hold (signed or unsigned)
            L = rng.choice([32770, 33000, 40000, 65540, 70000])
            r_ = 1
        case = gen.gen_compute_case(rng, force={'shape': [r_, L], 'periodic': [1], 'layout': 'C'})
        case['per_as_list'] = False
        case['dtype'] = 'float64'
        case['fb'] = 0
        k = [0] * (r_ * L)
        w1, w2 = rng.randint(1, 6), rng.randint(1, 10)
        cols = list(range(L - w1, L)) + list(range(0, w2))
        mid = rng.randint(30, L - 40) if L < 1000 else min(L - 8, rng.choice([32760, 32768, L - 200, L // 2]))
        for c_ in cols + list(range(mid, mid + rng.randint(1, 5))):
            for row in range(r_):
                if rng.random() < 0.85:
                    k[row * L + c_] = rng.randint(1, 20)
        k[0] = max(k[0], 3)
        k[L - 1] = max(k[L - 1], 2)
        case.update({'k': k, 'minv': [0, 1], 'mind': 0, 'minn': 0, 'crits': [], 'kind': 'long-periodic', 'reuse': False})
        case.pop('inf', None)
        mode = 'periodic'
        nd = 2
    ops = [ph.gen_prune_op(rng, case, allow_crits=False)] if rng.random() < 0.4 else []
    if rng.random() < 0.3:
        # catalogs of dendrograms that were saved and loaded (and possibly pruned before or after)
        ops.insert(rng.randint(0, len(ops)), ('reload', rng.choice(['fits', 'hdf5'])))
    allf = ['major_sigma', 'minor_sigma', 'radius', 'area_ellipse', 'area_exact', 'position_angle', 'x_cen', 'y_cen', 'flux'] + \
        (['v_rms', 'v_cen'] if nd == 3 else [])
    fields = None if rng.random() < 0.4 else rng.sample(allf, rng.randint(1, len(allf)))
    return {'case': case, 'ops': ops, 'fields': fields, 'verbose': rng.random() < 0.3, 'mode': mode,
            'shift': rng.randint(1, max(1, case['shape'][-1] - 1)), 'sub': rng.random() < 0.25, 'dx': rng.choice([None, 2.0]),
            'wcsmd': rng.random() < 0.3}


def eval_C12(item):
    import io as _io
    import contextlib
    case = item['case']
    nd = len(case['shape'])
    res = {'corr': [], 'pred': [], 'hyp': [], 'known': [], 'tags': ['nd=%d' % nd, 'mode=' + item['mode'], 'fields=%s' % ('default' if item['fields'] is None else 'subset')],
           'key': repr((case['shape'], case['k'], case['minv'], case['mind'], case['minn'], item['ops'], item['fields'], item['mode']))}
    d, a, order, hooked, steps = session.run_session(case, item['ops'])
    for st in steps:
        res['pred'] += st.wf
    if res['pred'] or steps[-1].iobs is None:
        return res
    obs = steps[-1].iobs
    md = {'data_unit': u.Jy}
    if item['dx'] is not None:
        md['spatial_scale'] = item['dx'] * u.arcsec
    if item.get('wcsmd'):
        # a world coordinate system in the metadata (world = pixel, so that positions stay comparable): centroids go
        # through it, everything else must be as without it
        from astropy.wcs import WCS
        w_ = WCS(naxis=nd)
        w_.wcs.crpix = [1.0] * nd
        w_.wcs.cdelt = [1.0] * nd
        w_.wcs.crval = [0.0] * nd
        md['wcs'] = w_
    catf = pp_catalog if nd == 2 else ppv_catalog
    cls = PPStatistic if nd == 2 else PPVStatistic
    structures = d
    if item['sub'] and len(obs['structs']) > 1:
        structures = [s for s in d if s.idx % 2 == 0] or list(d)
    n_struct = len(obs['structs']) if structures is d else len(structures)
    res['nontrivial'] = n_struct >= 2
    if n_struct == 0:
        return res
    buf = _io.StringIO()
    try:
        with warnings.catch_warnings():
            warnings.simplefilter('ignore')
            with contextlib.redirect_stdout(buf):
                cat = catf(structures, md, fields=item['fields'], verbose=item['verbose'])
    except Exception as e:
        res['pred'].append('catalog (fields=%r) not computable: %s: %s' % (item['fields'], type(e).__name__, str(e)[:80]))
        return res
    ids = sorted(int(s.idx) for s in structures)
    if len(cat) != len(ids):
        res['pred'].append('catalog has %d rows for %d structures' % (len(cat), len(ids)))
        return res
    if [int(x) for x in cat['_idx']] != ids:
        res['pred'].append('identifier column %r is not the sorted identifiers %r' % ([int(x) for x in cat['_idx']], ids))
        return res
    fields = item['fields'] or [c for c in cat.colnames if c != '_idx']
    shape = tuple(case['shape'])
    for row, sid in enumerate(ids):
        s = d[sid]
        with warnings.catch_warnings():
            warnings.simplefilter('ignore')
            # the statistic computed for that structure alone; for a Dendrogram the catalog may unwrap
            # index arrays across the array edge: reproduce that with the model's heuristic
            idx = [np.array(x, dtype=float) for x in s.indices(subtree=True)]
            if structures is d:
                for ax in range(nd):
                    m = ask_kv('wrap n=%d xs=%s' % (shape[ax], ','.join(str(int(x)) for x in idx[ax])))
                    idx[ax] = np.array([float(frac(x)) for x in m['wrapped'].split(',')])
            stat = cls(ScalarStatistic(s.values(subtree=True), tuple(idx)), md)
            # the statistic classes also accept the structure itself: same numbers as for its pixels with substructures
            if item['mode'] == 'plain':
                try:
                    direct = cls(s, md)
                    for f in fields:
                        a_, b_ = getattr(direct, f), getattr(stat, f)
                        av, bv = float(getattr(a_, 'value', a_)), float(getattr(b_, 'value', b_))
                        if not close(av, bv, abs(bv) + 10, 1e-9):
                            res['pred'].append('%s(structure %d).%s = %r, statistic of its pixels (with substructures) %r'
                                               % (cls.__name__, sid, f, av, bv))
                            break
                except Exception as e:  # noqa
                    res['pred'].append('%s(structure %d) raised %s: %s' % (cls.__name__, sid, type(e).__name__, str(e)[:60]))
            if 'area_exact' in fields:
                # independently of the statistic classes: the number of distinct sky pixels of the structure
                sky_axes = [0, 1] if nd == 2 else [a_ for a_ in range(3) if a_ != 0]     # default vaxis = 0
                nsky = len(set(tuple(int(np.unravel_index(p_, shape)[a_]) for a_ in sky_axes) for p_ in obs['structs'][sid]['pixsub']))
                dx2 = (item['dx'] or 1.0) ** 2
                if not close(float(cat['area_exact'][row]), nsky * dx2, nsky * dx2, 1e-9):
                    res['pred'].append('row of structure %d: area_exact %r, but it covers %d distinct sky pixels (x %r)'
                                       % (sid, float(cat['area_exact'][row]), nsky, dx2))
            for f in fields:
                want = getattr(stat, f)
                got = cat[f][row]
                wv = float(getattr(want, 'value', want))
                if not close(float(got), wv, abs(wv) + 10, 1e-7):
                    res['pred'].append('row of structure %d, field %s: catalog %r, statistic of the structure alone %r' % (sid, f, float(got), wv))
                wu = getattr(want, 'unit', None)
                if cat[f].unit != wu and not (cat[f].unit is None and wu is None):
                    res['pred'].append('field %s: column unit %r, statistic unit %r' % (f, cat[f].unit, wu))
    # periodic data: shape statistics of narrow structures do not depend on where the edge is
    if item['mode'] == 'periodic' and structures is d and not item['ops']:
        ax = nd - 1
        n = shape[ax]
        k = item['shift']
        import copy as _copy
        c2 = _copy.deepcopy(case)
        arr = np.array([(-1 if x is None else x) for x in case['k']], dtype=object).reshape(shape)
        rolled = np.roll(arr, k, axis=ax)
        c2['k'] = [None if x == -1 else int(x) for x in rolled.ravel()]
        flat = np.arange(int(np.prod(shape))).reshape(shape)
        sigma = dict((int(o), j) for j, o in enumerate(np.roll(flat, k, axis=ax).ravel()))
        d2, a2, order2, _, steps2 = session.run_session(c2, [])
        o2 = steps2[0].iobs
        if o2 is not None:
            with warnings.catch_warnings():
                warnings.simplefilter('ignore')
                cat1 = catf(d, md, fields=['major_sigma', 'minor_sigma', 'radius', 'area_exact', 'x_cen'], verbose=False)
                cat2 = catf(d2, md, fields=['major_sigma', 'minor_sigma', 'radius', 'area_exact', 'x_cen'], verbose=False)
            reg2 = dict((tuple(sorted(s['pixsub'])), sid) for sid, s in o2['structs'].items())
            for sid, s in obs['structs'].items():
                cols = sorted(set(int(np.unravel_index(p, shape)[ax]) for p in s['pixsub']))
                # cyclic width: smallest arc containing all occupied columns
                gaps = [(cols[(i + 1) % len(cols)] - cols[i]) % n for i in range(len(cols))]
                width = n - max(gaps) if len(cols) > 1 else 0
                if not (2 * (width + 1) < n):
                    continue
                key = tuple(sorted(sigma[p] for p in s['pixsub']))
                if key not in reg2:
                    continue        # ties may reorganise structures; C17 covers the hierarchy itself
                r1 = list(cat1['_idx']).index(sid)
                r2 = list(cat2['_idx']).index(reg2[key])
                for f in ('major_sigma', 'minor_sigma', 'radius', 'area_exact'):
                    if not close(float(cat1[f][r1]), float(cat2[f][r2]), 10, 1e-7):
                        res['pred'].append('structure %d (width %d of %d): %s changes from %r to %r when the data are shifted by %d along the periodic axis'
                                           % (sid, width, n, f, float(cat1[f][r1]), float(cat2[f][r2]), k))
                dxc = (float(cat2['x_cen'][r2]) - float(cat1['x_cen'][r1]) - k) / n
                if abs(dxc - round(dxc)) > 1e-7:
                    res['pred'].append('structure %d: centroid moved from %r to %r under a shift by %d (axis length %d)'
                                       % (sid, float(cat1['x_cen'][r1]), float(cat2['x_cen'][r2]), k, n))
                res['tags'].append('narrow-periodic')
    return res
