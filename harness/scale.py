"""Scale scenarios: inputs whose *size* crosses a representation threshold (more structures than 15 / 16 bits count).

The Lean model is list-based and not meant for tens of thousands of structures, so these scenarios are evaluated on the
implementation alone, with predicates computed from the scenario itself (no correspondence with the model).  They support the
search for a failing input; the theorems quantify over all sizes already.  Each scenario is one item of its property's check
(a fixed index of the generator), costs a few seconds, and runs in the quick tier too.
"""
import warnings

import numpy as np

import common  # noqa: F401  (sets up sys.path / environment for the repository under test)


def gen_many_structures(rng):
    """a long 1-D profile with more than 2**15 one-pixel spikes (isolated leaves) and, at the far end, a small feature with
    three peaks: its structures get the largest identifiers"""
    nspikes = rng.choice([32800, 33100])
    return {'scale': 'many-structures', 'nspikes': nspikes, 'feature': [5, 9, 4, 8, 3, 7, 2], 'min_npix': 2}


def eval_many_structures_C07(item):
    from astrodendro import Dendrogram
    res = {'corr': [], 'pred': [], 'hyp': [], 'known': [], 'tags': ['scale=many-structures'], 'key': repr(sorted(item.items())),
           'nontrivial': True}
    ns = item['nspikes']
    feat = item['feature']
    L = 2 * ns + 2 + len(feat)
    a = np.zeros(L, dtype=float)
    a[0:2 * ns:2] = 1.0 + (np.arange(ns) % 7)
    f0 = 2 * ns + 1
    a[f0:f0 + len(feat)] = feat
    with warnings.catch_warnings():
        warnings.simplefilter('ignore')
        d = Dendrogram.compute(a, min_value=0.5)
    n0 = len(d)
    if n0 != ns + 5:
        res['pred'].append('compute: %d structures, expected %d spikes + 5 (three leaves, two branches) of the feature' % (n0, ns))
        return res
    before = {}
    for s in d.all_structures:
        px = tuple(sorted(int(i) for i in s.indices(subtree=True)[0]))
        if len(px) >= 2 or s.parent is not None:
            before[int(s.idx)] = (px, None if s.parent is None else int(s.parent.idx))
    with warnings.catch_warnings():
        warnings.simplefilter('ignore')
        d.prune(min_npix=item['min_npix'])
    lm = np.asarray(d.index_map)
    ids = sorted(int(s.idx) for s in d.all_structures)
    labels = sorted(int(x) for x in np.unique(lm) if x != -1)
    if labels != ids:
        res['pred'].append('after prune(min_npix=%d) of %d structures: labels in the label map %r, identifiers of the structures %r'
                           % (item['min_npix'], n0, labels[:6], ids[:6]))
    if np.any(lm[0:2 * ns] != -1):
        res['pred'].append('one-pixel isolated leaves failing min_npix are still labelled after prune')
    for s in d.all_structures:
        sid = int(s.idx)
        px = tuple(sorted(int(i) for i in s.indices(subtree=True)[0]))
        if sid not in before:
            res['pred'].append('structure %d appeared through pruning' % sid)
            continue
        if px != before[sid][0]:
            res['pred'].append('structure %d: region %r before pruning, %r after' % (sid, before[sid][0][:8], px[:8]))
        try:
            if d[sid] is not s:
                res['pred'].append('look-up of identifier %d returns another structure' % sid)
        except Exception as e:
            res['pred'].append('look-up of identifier %d raised %s' % (sid, type(e).__name__))
        own = [int(i) for i in s.indices(subtree=False)[0]]
        for p in own[:3]:
            at = d.structure_at((p,))
            if at is not s:
                res['pred'].append('structure_at(%d) is %r, the pixel is owned by structure %d' % (p, None if at is None else int(at.idx), sid))
                break
            if int(lm[p]) != sid:
                res['pred'].append('label map at %d is %d, the pixel is owned by structure %d' % (p, int(lm[p]), sid))
                break
    # the feature survives whole: every pixel of it above the threshold is assigned
    if np.any(lm[f0:f0 + len(feat)] == -1):
        res['pred'].append('pixels of the surviving feature are unassigned after prune')
    res['pred'] = res['pred'][:6]
    return res
