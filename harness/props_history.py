"""C07 (prune), C08 (prune = compute with stricter parameters), C14 (no stale derived state)."""
import copy
import os
import tempfile
import warnings

import numpy as np

import gen
import impl
import preds
import session
from common import parse_block, WORK
import props_compute as pc


def gen_prune_op(rng, case, allow_crits=True, acc=False):
    vals = sorted(set(x for x in case['k'] if x is not None))
    r = rng.random()
    if r < 0.25 or len(vals) < 2:
        mind = 0
    elif r < 0.8:
        a, b = rng.sample(vals, 2)
        mind = max(0, abs(a - b) + rng.choice([0, 0, 1, -1]))
    else:
        mind = rng.randint(1, 8)
    minn = rng.choice([0, 0, 1, 2, 3, 4, 5])
    crits = gen.gen_crits(rng, case['k'], len(case['k'])) if allow_crits and rng.random() < 0.3 else []
    # `acc`: also user criteria that read accessors of the structure (get_npix(), get_peak()) while the prune loop runs
    crits = [c for c in crits if c[0] in (('peak', 'sum', 'seeds', 'udelta', 'npixacc', 'peakacc') if acc else ('peak', 'sum', 'seeds', 'udelta'))]
    warmset = sorted(set(rng.choice(['level', 'desc', 'anc', 'npix', 'peak', 'newick', 'none', 'none'])
                         for _ in range(rng.randint(0, 3))))
    return ('prune', mind, minn, crits, warmset)


def gen_item_C07(rng, idx, tier):
    if idx == 11:
        # one scale scenario per run: more structures than 15 bits count (harness/scale.py; evaluated on the implementation alone)
        import scale
        return scale.gen_many_structures(rng)
    case = gen.gen_compute_case(rng, maxpix=48 if tier == 'quick' else 80, force={'bigint': True})
    # start from a rich tree more often than not
    if rng.random() < 0.6:
        case['mind'] = 0
        case['minn'] = 0
        case['crits'] = []
    # beyond 2**53 thresholds derived from values stay integers; user criteria carry float thresholds
    ops = [gen_prune_op(rng, case, allow_crits=case['kind'] != 'bigint') for _ in range(rng.choice([1, 1, 2, 2, 3, 4]))]
    # fault path: some prunes are first attempted with a user criterion that raises (see session.run_session)
    ops = [op + ('failfirst',) if rng.random() < 0.2 else op for op in ops]
    # pruning a dendrogram that was saved and loaded (its internal tables are filled in another order than compute's)
    if rng.random() < 0.25 and case['kind'] != 'bigint':
        ops.insert(rng.randint(0, len(ops) - 1), ('reload', rng.choice(['hdf5', 'fits'])))
    return {'case': case, 'ops': ops}


def post_hoc_ok(ctx, st, sid, eff_d, eff_n, crits):
    """the criteria prune applies (post-hoc forms) on leaf `sid` of observation `st`"""
    s = st[sid]
    case2 = dict(ctx.case)
    case2['crits'] = crits
    c2 = preds.Ctx.__new__(preds.Ctx)
    c2.__dict__.update(ctx.__dict__)
    c2.case = case2
    if s['par'] is None:
        return c2.crit_ok(s['pixsub'], mode='orphan', mind=eff_d, minn=eff_n)
    ph = min(st[c]['vmin'] for c in st[s['par']]['kids'])
    return c2.crit_ok(s['pixsub'], mode='child', parent_height=ph, mind=eff_d, minn=eff_n)


def pred_prune_step(ctx, before, after, step):
    """C07 clauses relating the dendrogram before and after one prune"""
    fails = []
    sb, sa = before['structs'], after['structs']
    eff_d, eff_n = step.extra['eff']
    crits = step.op[3]
    if not set(sa) <= set(sb):
        fails.append('pruning created identifiers %r' % (sorted(set(sa) - set(sb)),))
        return fails
    for sid, s in sa.items():
        if s['pixsub'] != sb[sid]['pixsub']:
            fails.append('surviving structure %d changed its region' % sid)
        # nearest surviving former ancestor
        a = sb[sid]['par']
        while a is not None and a not in sa:
            a = sb[a]['par']
        if s['par'] != a:
            fails.append('structure %d: parent %r, nearest surviving former ancestor %r' % (sid, s['par'], a))
    # own pixels of removed structures pass to the nearest surviving ancestor; dropped orphans vanish
    expect_own = dict((sid, set(sb[sid]['own'])) for sid in sa)
    dropped = set()
    for sid, s in sb.items():
        if sid in sa:
            continue
        a = s['par']
        while a is not None and a not in sa:
            a = sb[a]['par']
        if a is None:
            dropped |= set(s['own'])
        else:
            expect_own[a] |= set(s['own'])
    for sid in sa:
        if set(sa[sid]['own']) != expect_own[sid]:
            fails.append('structure %d: own pixels after pruning %r, expected %r' % (sid, sorted(sa[sid]['own']), sorted(expect_own[sid])))
    newly_un = set(p for p, (x, y) in enumerate(zip(before['lmap'], after['lmap'])) if x != -1 and y == -1)
    if newly_un != dropped:
        fails.append('pixels that became unassigned %r differ from the pixels of dropped structures %r' % (sorted(newly_un), sorted(dropped)))
    # dropped pixels: whole former trunk regions that (as a leaf) fail the criteria
    if dropped:
        for t in before['trunk']:
            reg = set(sb[t]['pixsub'])
            if reg & dropped:
                if not reg <= dropped:
                    fails.append('trunk region of %d only partly unassigned' % t)
                else:
                    c2 = dict(ctx.case)
                    c2['crits'] = crits
                    cx = preds.Ctx.__new__(preds.Ctx)
                    cx.__dict__.update(ctx.__dict__)
                    cx.case = c2
                    if cx.crit_ok(sorted(reg), mode='orphan', mind=eff_d, minn=eff_n):
                        fails.append('isolated region of %d passes the criteria as a leaf but became unassigned' % t)
    # every leaf satisfies the requested criteria (as prune applies them)
    for sid, s in sa.items():
        if not s['kids'] and not post_hoc_ok(ctx, sa, sid, eff_d, eff_n, crits):
            fails.append('leaf %d fails the requested criteria after pruning (min_delta=%d min_npix=%d)' % (sid, eff_d, eff_n))
    # pruning with criteria every leaf already meets changes nothing
    if all(post_hoc_ok(ctx, sb, sid, eff_d, eff_n, crits) for sid, s in sb.items() if not s['kids']):
        if sorted(sa) != sorted(sb) or any(sa[x]['par'] != sb[x]['par'] or sorted(sa[x]['own']) != sorted(sb[x]['own']) for x in sa):
            fails.append('every leaf already met the requested criteria (min_delta=%d, min_npix=%d) but pruning changed the dendrogram: '
                         'structures %r -> %r' % (eff_d, eff_n, sorted(sb), sorted(sa)))
    # recorded parameters never decrease
    pb, pa = step.extra['params_before'], step.extra['params_after']
    for k in ('min_delta', 'min_npix'):
        if pa[k] < pb[k]:
            fails.append('recorded %s decreased from %r to %r' % (k, pb[k], pa[k]))
    return fails


FOREST_KEYS = ['par', 'kids', 'lvl', 'anc', 'desc', 'npix', 'npixsub', 'pixsub']


def eval_C07(item):
    if item.get('scale') == 'many-structures':
        import scale
        return scale.eval_many_structures_C07(item)
    item = copy.deepcopy(item)
    ops = list(item.get('ops', ()))
    # idempotence: repeat the last prune
    if ops and ops[-1][0] == 'prune':
        last = ops[-1]
        ops.append(('prune', last[1], last[2], last[3], []))
    item2 = dict(item)
    item2['ops'] = ops
    res, d, a, steps = pc.base_eval(item2, 'C07')
    ctx = preds.Ctx(item['case'], d)
    n_removed = 0
    for i in range(1, len(steps)):
        st, prev = steps[i], steps[i - 1]
        lab = 'after prune #%d: ' % i
        if st.iobs is None or prev.iobs is None:
            continue
        res['corr'] += [lab + x for x in session.diff_obs(st.iobs, st.mobs, FOREST_KEYS, ['trunk', 'lmap'], own_as_set=True)]
        for sid in st.iobs['structs']:
            if sid in st.mobs['structs'] and sorted(st.iobs['structs'][sid]['own']) != sorted(st.mobs['structs'][sid]['own']):
                res['corr'].append(lab + 'structure %d own pixels impl=%r model=%r' % (sid, sorted(st.iobs['structs'][sid]['own']), sorted(st.mobs['structs'][sid]['own'])))
        res['pred'] += [lab + x for x in preds.pred_C02(ctx, d, st.iobs, fresh=False)]
        res['pred'] += [lab + x for x in preds.pred_C06(ctx, d, st.iobs)] if i == len(steps) - 1 else []
        if st.op[0] != 'prune':
            continue                     # a save / load in between: compared with the model above, nothing pruned
        res['pred'] += [lab + x for x in pred_prune_step(ctx, prev.iobs, st.iobs, st)]
        n_removed += len(prev.iobs['structs']) - len(st.iobs['structs'])
        # parameter bookkeeping against the model's pruneParam (0 inherits; the record is replaced unless the
        # effective request is smaller)
        fb = item['case']['fb']
        for key, req, conv in (('min_delta', st.op[1], lambda v: impl.to_k(v, fb)), ('min_npix', st.op[2], lambda v: impl.npix_param(v))):
            before_v = conv(st.extra['params_before'][key])
            ans = dict(l.split(' ', 1) for l in session.driver().ask('pruneparam %d %d' % (before_v, req)))
            if 'recorded' in ans and conv(st.extra['params_after'][key]) != int(ans['recorded']):
                res['corr'].append(lab + 'recorded %s after prune(%s=%d) with %d recorded before: impl %r, model %s'
                                   % (key, key, req, before_v, conv(st.extra['params_after'][key]), ans['recorded']))
    # the repeated prune must change nothing
    if len(steps) >= 3:
        x, y = steps[-2].iobs, steps[-1].iobs
        if x is not None and y is not None:
            if session.diff_obs(y, x, FOREST_KEYS + ['own'], ['trunk', 'lmap', 'newick']):
                res['pred'].append('pruning again with the same parameters changed the dendrogram: %r'
                                   % (session.diff_obs(y, x, FOREST_KEYS + ['own'], ['trunk', 'lmap', 'newick'])[:3],))
    res['nontrivial'] = n_removed > 0
    res['tags'].append('removed=%s' % min(n_removed, 5))
    res['tags'].append('prunes=%d' % (len(steps) - 2 if len(steps) >= 2 else 0))
    return res


# ---------------------------------------------------------------------------------------------
# C08

def gen_item_C08(rng, idx, tier):
    case = gen.gen_compute_case(rng, maxpix=40 if tier == 'quick' else 64, force={'bigint': True})
    case['crits'] = []
    vals = sorted(set(x for x in case['k'] if x is not None))
    mode = rng.choice(['npix', 'npix', 'delta', 'both'])
    d0 = rng.choice([0, 0, 0, 1, 2])
    n0 = rng.choice([0, 0, 0, 1, 2])
    d1, n1 = d0, n0
    if mode in ('npix', 'both'):
        n1 = n0 + rng.randint(1, 4)
    if mode in ('delta', 'both'):
        if len(vals) >= 2 and rng.random() < 0.7:
            a, b = rng.sample(vals, 2)
            d1 = max(d0 + 1, abs(a - b))
        else:
            d1 = d0 + rng.randint(1, 5)
    if mode == 'npix':
        d0 = d1 = 0 if rng.random() < 0.7 else d0
    case['mind'], case['minn'] = d0, n0
    # a third of the pairs reach the strict parameters in two prunes of the same dendrogram (first an intermediate min_npix)
    mid = rng.randint(n0, n1) if (n1 > n0 and rng.random() < 0.35) else None
    return {'case': case, 'strict': [d1, n1], 'mode': mode, 'mid': mid,
            'reload': rng.choice(['hdf5', 'fits']) if rng.random() < 0.25 else None}


def eval_C08(item):
    case = item['case']
    d1, n1 = item['strict']
    res = {'corr': [], 'pred': [], 'hyp': [], 'known': [], 'tags': ['mode=' + item['mode']],
           'key': repr((case['shape'], case['k'], case['minv'], case['mind'], case['minn'], d1, n1, case.get('periodic'), case.get('adj')))}
    drv = session.driver()
    # A: compute loosely, prune strictly
    # (a quarter of the cases: the dendrogram is saved and loaded back before it is pruned)
    itemA = {'case': case, 'ops': ([('reload', item['reload'])] if item.get('reload') else []) +
             ([('prune', 0, item['mid'], [], [])] if item.get('mid') is not None else []) + [('prune', d1, n1, [], [])]}
    if item.get('mid') is not None:
        res['tags'].append('two-prunes')
    dA, aA, orderA, hooked, stepsA = session.run_session(case, itemA['ops'])
    # B: compute strictly
    caseB = dict(case)
    caseB['mind'], caseB['minn'] = d1, n1
    dB, aB, orderB, _, stepsB = session.run_session(caseB, [])
    res['hyp'] = pc.hyp_failures(stepsA[0].mobs) + pc.hyp_failures(stepsB[0].mobs)
    for st in stepsA + stepsB:
        res['pred'] += st.wf
    if any(st.iobs is None for st in stepsA + stepsB):
        return res
    if orderA != orderB:
        res['pred'].append('the two runs processed the pixels in different orders')
    hA, hB = session.hier(stepsA[-1].iobs), session.hier(stepsB[0].iobs)
    mA, mB = session.hier(stepsA[-1].mobs), session.hier(stepsB[0].mobs)
    corrA = hA == mA
    corrB = hB == mB
    if not corrA:
        res['corr'].append('prune result: impl %r model %r' % (hA, mA))
    if not corrB:
        res['corr'].append('strict compute: impl %r model %r' % (hB, mB))
    res['nontrivial'] = len(stepsA[0].iobs['structs']) != len(stepsA[-1].iobs['structs'])
    res['tags'].append('agree' if hA == hB else 'differ')
    if hA != hB:
        # arbiter: the model's prune with the original-merge-level rule
        drv.ask(impl.compute_line(case, orderA, dA))
        c3 = dict(case)
        mo = parse_block(drv.ask('pruneorig crit=' + impl.crit_string(c3, mind=d1, minn=n1)))
        hO = session.hier(mo)
        what = ('prune(min_delta=%s, min_npix=%s) after compute(min_delta=%s, min_npix=%s) differs from direct compute'
                % (d1, n1, case['mind'], case['minn']))
        if corrA and corrB and hO == hB and d1 > 0:
            res['known'].append(('K1', 'post-hoc min_delta test (height - parent.height) is not the compute-time test '
                                       '(peak - value of the joining pixel): prune(min_delta>0) differs from compute with the same parameters'))
            res['tags'].append('K1')
        else:
            res['pred'].append(what + ': pruned %r, computed %r' % (hA, hB))
    return res


# ---------------------------------------------------------------------------------------------
# C14

def links_newick(obs, case):
    """Newick text rebuilt from the parent/child links and the data (independent of any cache)"""
    st = obs['structs']
    fb = case['fb']

    def h(sid):
        s = st[sid]
        v = s['vmax'] if not s['kids'] else min(st[c]['vmin'] for c in s['kids'])
        return '%.3f' % (v / float(2 ** fb))

    def rec(sid):
        s = st[sid]
        if s['kids']:
            return '(%s)%d:%s' % (','.join(rec(c) for c in s['kids']), sid, h(sid))
        return '%d:%s' % (sid, h(sid))
    return '(%s);' % ','.join(rec(t) for t in obs['trunk'])


def fresh_copy(d, obs, case):
    """a dendrogram freshly constructed from the same structures: data, label map and tree links"""
    from astrodendro.io.util import parse_dendrogram
    with warnings.catch_warnings():
        warnings.simplefilter('ignore')
        return parse_dendrogram(links_newick(obs, case), d.data, np.array(d.index_map, copy=True), dict(d.params))


S_CORE = ('_parent', '_children', '_indices', '_values', '_dendrogram', 'idx', '_vmin', '_vmax', '_smallest_index')
D_CORE = ('data', 'index_map', 'params', 'trunk', '_structures_dict', 'n_dim', 'wcs')


def _shallow(v):
    return v.copy() if isinstance(v, (dict, list, set)) else v


def snapshot_caches(d):
    """everything the dendrogram and its structures hold besides their defining state (data, label map, parameters, links,
    own pixels): derived state of any kind, whether this harness knows the attribute or not"""
    snap = [(d, dict((k, _shallow(v)) for k, v in d.__dict__.items() if k not in D_CORE))]
    for s in d._structures_dict.values():
        snap.append((s, dict((k, _shallow(v)) for k, v in s.__dict__.items() if k not in S_CORE)))
    return snap


def restore_caches(snap):
    for o, attrs in snap:
        core = D_CORE if not hasattr(o, '_indices') else S_CORE
        for k in [k for k in o.__dict__ if k not in core and k not in attrs]:
            del o.__dict__[k]
        for k, v in attrs.items():
            o.__dict__[k] = _shallow(v)


def plot_positions(d):
    p = d.plotter()
    return dict((int(s.idx), float(x)) for s, x in p._cached_positions.items())



# ---- the cache machine of ADModel/Cache.lean driven with the same history -----------------------------

def impl_cache_state(d):
    out = {}
    for sid, s in d._structures_dict.items():
        out[int(sid)] = {'par': None if s.parent is None else int(s.parent.idx), 'kids': [int(c.idx) for c in s.children],
                         'lvl': s._level, 'anc': None if not s._ancestor else int(s._ancestor.idx),
                         'desc': s._descendants is not None, 'nw': getattr(s, '_newick', None) is not None}
    return out


def parse_cache_state(lines):
    st, ans = {}, None
    for l in lines:
        if l.startswith('ans '):
            ans = l[4:]
        elif l.startswith('c '):
            f = dict(x.split('=', 1) for x in l[2:].split())
            st[int(f['id'])] = {'par': None if f['par'] == '-' else int(f['par']), 'kids': [] if f['kids'] == '-' else [int(x) for x in f['kids'].split(',')],
                                'lvl': None if f['lvl'] == '-' else int(f['lvl']), 'anc': None if f['anc'] == '-' else int(f['anc']),
                                'desc': f['desc'] == '1', 'nw': f['nw'] == '1'}
        elif l.startswith('bad-op'):
            return None, l
    return st, ans


def cache_diff(d, lines, label):
    st, ans = parse_cache_state(lines)
    if st is None:
        return ['%scache model rejected the request: %s' % (label, ans)], None
    out = []
    mine = impl_cache_state(d)
    for sid, c in mine.items():
        if sid not in st:
            out.append('%sstructure %d missing in the cache model' % (label, sid))
            continue
        for k in ('par', 'kids', 'lvl', 'desc', 'nw'):
            if c[k] != st[sid][k]:
                out.append('%scache state of structure %d: %s impl=%r model=%r' % (label, sid, k, c[k], st[sid][k]))
        # `_ancestor` is also filled by compute itself; what the proofs need (P17.Sound) is that a cached
        # ancestor is a proper ancestor by the live links -- check that invariant on the real objects
        if c['anc'] is not None:
            a, chain = c['par'], []
            while a is not None and a in mine:
                chain.append(a)
                a = mine[a]['par']
            if c['anc'] not in chain:
                out.append('%scached _ancestor of structure %d is %r, not one of its ancestors %r' % (label, sid, c['anc'], chain))
    return out[:6], ans


# ---- the pixel-count / peak cache machine of ADModel/CachePix.lean -------------------------------------

def impl_pcache_state(d, case):
    shape = tuple(case['shape'])
    fb = case['fb']

    def pk(x):
        return None if x is None else (impl.flat(x[0], shape), impl.to_k(x[1], fb))
    out = {}
    for sid, s in d._structures_dict.items():
        out[int(sid)] = {'par': None if s.parent is None else int(s.parent.idx), 'kids': [int(c.idx) for c in s.children],
                         'nown': len(s._indices), 'npix': None if s._npix_total is None else int(s._npix_total),
                         'peak': pk(s._peak), 'peaksub': pk(s._peak_subtree)}
    return out


def _pk(txt):
    if txt == '-':
        return None
    a, b = txt.split(':')
    return (int(a), int(b))


def parse_pcache(lines):
    st, ans, spec = {}, None, {}
    for l in lines:
        if l.startswith('ans '):
            ans = l[4:]
        elif l.startswith('c '):
            f = dict(x.split('=', 1) for x in l[2:].split())
            st[int(f['id'])] = {'par': None if f['par'] == '-' else int(f['par']), 'kids': [] if f['kids'] == '-' else [int(x) for x in f['kids'].split(',')],
                                'nown': int(f['nown']), 'npix': None if f['npix'] == '-' else int(f['npix']), 'peak': _pk(f['peak']), 'peaksub': _pk(f['peaksub'])}
        elif l.startswith('s '):
            f = dict(x.split('=', 1) for x in l[2:].split())
            spec[int(f['id'])] = {'npix': int(f['npix']), 'peak': _pk(f['peak']), 'peaksub': _pk(f['peaksub'])}
        elif l.startswith('bad-op'):
            return None, l, None
    return st, ans, spec


def pcache_diff(d, case, drv, lines, label, fill_state=True):
    """links and own counts always; fill state of the three caches when no user criterion touched them;
    and always: whatever the implementation has cached equals what the links and own lists say (model spec)"""
    st, ans, _ = parse_pcache(lines)
    if st is None:
        return ['%spixel-cache model rejected the request: %s' % (label, ans)], None
    out = []
    mine = impl_pcache_state(d, case)
    _, _, spec = parse_pcache(drv.ask('pcache spec'))
    for sid, c in mine.items():
        if sid not in st:
            out.append('%sstructure %d missing in the pixel-cache model' % (label, sid))
            continue
        for k in ('par', 'kids', 'nown'):
            if c[k] != st[sid][k]:
                out.append('%spixel-cache model, structure %d: %s impl=%r model=%r' % (label, sid, k, c[k], st[sid][k]))
        for k in ('npix', 'peak', 'peaksub'):
            if fill_state and c[k] != st[sid][k]:
                out.append('%scache state of structure %d: _%s impl=%r model=%r' % (label, sid, k, c[k], st[sid][k]))
            if c[k] is not None and sid in spec and c[k] != spec[sid][k]:
                out.append('%sstructure %d has %s cached as %r; its links and pixels give %r' % (label, sid, k, c[k], spec[sid][k]))
    return out[:6], ans


def mirror_pix_queries(d, case, drv, kinds, res, label, fill_state):
    shape = tuple(case['shape'])
    for s in list(d):
        if 'npix' in kinds:
            got = str(int(s.get_npix()))
            diffs, ans = pcache_diff(d, case, drv, drv.ask('pcache q npix %d' % s.idx), label, fill_state)
            if ans is not None and ans != got:
                diffs.append('%sget_npix of structure %d: impl %s, cache model %s' % (label, s.idx, got, ans))
            res['corr'] += diffs
            if diffs:
                return
        if 'peak' in kinds:
            for sub in (True, False):
                pk = s.get_peak(subtree=sub)
                got = '%d:%d' % (impl.flat(pk[0], shape), impl.to_k(pk[1], case['fb']))
                diffs, ans = pcache_diff(d, case, drv, drv.ask('pcache q peak %d %d' % (s.idx, 1 if sub else 0)), label, fill_state)
                if ans is not None and ans != got:
                    diffs.append('%sget_peak(subtree=%s) of structure %d: impl %s, cache model %s' % (label, sub, s.idx, got, ans))
                res['corr'] += diffs
                if diffs:
                    return


def mirror_queries(d, drv, kinds, res, label):
    """the queries of session.warm, one at a time, on implementation and cache model"""
    for s in list(d):
        for kind, attr in (('level', 'level'), ('desc', 'descendants'), ('anc', 'ancestor')):
            if kind in kinds:
                v = getattr(s, attr)
                got = str(int(v)) if kind == 'level' else (','.join(str(x) for x in sorted(int(y.idx) for y in v)) or '-') if kind == 'desc' else str(int(v.idx))
                diffs, ans = cache_diff(d, drv.ask('cache q %s %d' % (kind, s.idx)), label)
                if ans is not None and ans != got:
                    diffs.append('%s%s of structure %d: impl %s, cache model %s' % (label, kind, s.idx, got, ans))
                res['corr'] += diffs
                if diffs:
                    return
    if 'newick' in kinds:
        d.to_newick()
        for s in reversed(list(d.all_structures)):
            drv.ask('cache q newick %d' % s.idx)
        diffs, _ = cache_diff(d, drv.ask('cache q newick %d' % d.trunk[0].idx) if d.trunk else ['end'], label)
        res['corr'] += diffs


def gen_item_C14(rng, idx, tier):
    case = gen.gen_compute_case(rng, maxpix=40 if tier == 'quick' else 64)
    if rng.random() < 0.7:
        case['mind'] = 0
        case['minn'] = 0
        case['crits'] = []
    ops = []
    for _ in range(rng.randint(2, 6 if tier == 'quick' else 10)):
        r = rng.random()
        if r < 0.35:
            ops.append(('warm', sorted(set(rng.choice(['level', 'desc', 'anc', 'npix', 'peak', 'newick']) for _ in range(rng.randint(1, 3))))))
        elif r < 0.7:
            ops.append(gen_prune_op(rng, case, allow_crits=rng.random() < 0.3 and case['kind'] not in ('bigint', 'decimal', 'fullrange'), acc=True))
        elif r < 0.8:
            ops.append(('reload', rng.choice(['hdf5', 'fits'])))
        elif r < 0.87:
            ops.append(('warm', ['newick']))
        elif r < 0.91:
            ops.append(('newickattr', rng.choice(['trunk', 'all'])))
        elif r < 0.95:
            ops.append(('plotsub', [rng.randrange(1000) for _ in range(rng.randint(1, 2))], rng.random() < 0.5))
        else:
            ops.append(('plotter',))
    if rng.random() < 0.15 and case['kind'] not in ('bigint', 'decimal', 'fullrange'):
        # pixel counts read (and cached) on every structure, then a prune whose user criterion reads the count of the
        # structure it is asked about -- also of branches that turn into leaves while the loop runs
        ops = [('warm', ['npix'])] + ops[:2] + [('prune', 0, 0, [[rng.choice(['npixacc', 'npixget', 'npixget']), rng.randint(2, 9)]], [])] + ops[2:]
    if not any(o[0] == 'prune' for o in ops):
        ops.append(gen_prune_op(rng, case, allow_crits=False))
    if rng.random() < 0.5:
        ops.append(('reload', rng.choice(['hdf5', 'fits'])))
    return {'case': case, 'ops': ops}


C14_KEYS = ['par', 'kids', 'lvl', 'anc', 'desc', 'npix', 'npixsub', 'pixsub', 'tiown', 'tisub', 'vmin', 'vmax', 'h']


def eval_C14(item):
    case = item['case']
    res = {'corr': [], 'pred': [], 'hyp': [], 'known': [], 'tags': [],
           'key': repr((case['shape'], case['k'], case['minv'], case['mind'], case['minn'], item['ops']))}
    drv = session.driver()
    d, a = impl.compute_impl(case)
    order, hooked = impl.recorded_order(d, a, case)
    mobs = parse_block(drv.ask(impl.compute_line(case, order, d)))
    res['hyp'] = pc.hyp_failures(mobs)
    n_prunes = 0
    changed = False
    import astrodendro.dendrogram as _dmod
    heap_ok = 'bad' not in mobs
    # user criteria that read accessors fill the pixel caches of the leaves they examine: fill states are
    # then not comparable (soundness of whatever is cached still is)
    def _acc(cr):
        return any(c[0] in ('npixacc', 'peakacc', 'npixget') for c in cr)
    fill_state = not _acc(case.get('crits', [])) and not any(o[0] == 'prune' and _acc(o[3]) for o in item['ops'])
    if heap_ok:
        res['corr'] += cache_diff(d, drv.ask('cache init %s' % (','.join(str(k) for k in d._structures_dict.keys()) or '-')), 'after compute: ')[0]
        res['corr'] += pcache_diff(d, case, drv, drv.ask('pcache init'), 'after compute: ', fill_state)[0]
    for i, op in enumerate([('compute',)] + list(item['ops'])):
        lab = 'step %d %s: ' % (i, op[0])
        if op[0] == 'warm':
            if heap_ok:
                mirror_queries(d, drv, op[1], res, lab)
                mirror_pix_queries(d, case, drv, op[1], res, lab, fill_state)
            else:
                session.warm(d, op[1])
        elif op[0] == 'plotter':
            plot_positions(d)
            if heap_ok:
                for t in d.trunk:
                    drv.ask('cache q desc %d' % t.idx)
                if d.trunk:
                    res['corr'] += cache_diff(d, drv.ask('cache q desc %d' % d.trunk[0].idx), lab)[0]
                # the default sort key is get_peak(subtree=True) of every trunk structure and of every child
                for s_ in list(d):
                    drv.ask('pcache q peak %d 1' % s_.idx)
                if d.trunk:
                    res['corr'] += pcache_diff(d, case, drv, drv.ask('pcache q peak %d 1' % d.trunk[0].idx), lab, fill_state)[0]
        elif op[0] == 'plotsub':
            session.use_dendrogram(d, op)
            sts_ = list(d)
            if heap_ok and sts_:
                for t in d.trunk:
                    drv.ask('cache q desc %d' % t.idx)
                for s_ in list(d):
                    drv.ask('pcache q peak %d 1' % s_.idx)
                for k_ in op[1]:
                    drv.ask('cache q desc %d' % sts_[k_ % len(sts_)].idx)
                res['corr'] += cache_diff(d, drv.ask('cache q desc %d' % sts_[op[1][0] % len(sts_)].idx), lab)[0]
                res['corr'] += pcache_diff(d, case, drv, drv.ask('pcache q peak %d 1' % sts_[0].idx), lab, fill_state)[0]
        elif op[0] == 'newickattr':
            session.use_dendrogram(d, op)
            which_ = list(d.trunk) if op[1] == 'trunk' else list(d)
            if heap_ok and which_:
                for s_ in which_:
                    drv.ask('cache q newick %d' % s_.idx)
                res['corr'] += cache_diff(d, drv.ask('cache q newick %d' % which_[0].idx), lab)[0]
        elif op[0] == 'prune':
            before_n = len(d)
            merged = []
            orig_merge = _dmod._merge_with_parent

            def _rec(m, index_map, merged=merged, orig_merge=orig_merge):
                merged.append(int(m.idx))
                return orig_merge(m, index_map)
            if heap_ok and op[4]:
                mirror_queries(d, drv, op[4], res, lab + 'warm-up: ')
                mirror_pix_queries(d, case, drv, op[4], res, lab + 'warm-up: ', fill_state)
                op = (op[0], op[1], op[2], op[3], [])
            _dmod._merge_with_parent = _rec
            try:
                steps = _apply_prune(d, case, op, drv)
            finally:
                _dmod._merge_with_parent = orig_merge
            mobs = steps
            n_prunes += 1
            changed = changed or len(d) != before_n
            if heap_ok:
                res['corr'] += cache_diff(d, drv.ask('cache prune %s %s' % (','.join(str(x) for x in merged) or '-',
                                                                             ','.join(str(k) for k in d._structures_dict.keys()) or '-')), lab)[0]
                res['corr'] += pcache_diff(d, case, drv, drv.ask('pcache prune %s' % (','.join(str(x) for x in merged) or '-')), lab, fill_state)[0]
        elif op[0] == 'reload':
            fmt = op[1]
            if fmt == 'fits' and case['fb'] >= 30:
                fmt = 'hdf5'    # FITS header cards cannot hold such parameters exactly (K7, reported by C09)
            os.makedirs(WORK, exist_ok=True)
            fd, path = tempfile.mkstemp(suffix='.' + fmt, dir=WORK)
            os.close(fd)
            try:
                with warnings.catch_warnings():
                    warnings.simplefilter('ignore')
                    d.save_to(path)
                    from astrodendro import Dendrogram
                    d = Dendrogram.load_from(path)
            finally:
                if os.path.exists(path):
                    os.remove(path)
            mobs = parse_block(drv.ask('reload'))
            if heap_ok:
                res['corr'] += cache_diff(d, drv.ask('cache init %s' % (','.join(str(k) for k in d._structures_dict.keys()) or '-')), lab)[0]
                res['corr'] += pcache_diff(d, case, drv, drv.ask('pcache init'), lab, fill_state)[0]
        wf = impl.forest_wellformed(d)
        if wf:
            res['pred'] += [lab + x for x in wf]
            break
        # observing fills caches in the implementation: snapshot / restore them so that the mirrored
        # cache machine sees only the operations of the history
        snap = snapshot_caches(d)
        iobs = impl.observe(d, case)

        def restore():
            restore_caches(snap)
        restore()
        # model = a function of the current forest, i.e. the fresh copy by construction
        res['corr'] += [lab + x for x in session.diff_obs(iobs, mobs, C14_KEYS, ['trunk', 'iter', 'lmap', 'newick'])]
        # values() against the data at indices(), after value arrays handed out earlier were changed in place by the caller
        # (impl.observe does that): what a fresh dendrogram reports is the data
        for sid_, s_ in iobs['structs'].items():
            if [case['k'][p_] for p_ in s_['indices_own_ordered']] != s_['values_own'] or \
                    [case['k'][p_] for p_ in s_['indices_sub_ordered']] != s_['values_sub']:
                res['pred'].append(lab + 'values() of structure %d are not the data at its indices()' % sid_)
                break
        # independent oracle: a dendrogram rebuilt from links, label map and data
        try:
            f = fresh_copy(d, iobs, case)
            fobs = impl.observe(f, case)
            dd = session.diff_obs(iobs, fobs, C14_KEYS, ['trunk', 'iter', 'lmap', 'newick', 'leaves', 'len'])
            pk = [sid for sid in iobs['structs'] if iobs['structs'][sid]['peak'][1] != fobs['structs'][sid]['peak'][1]
                  or iobs['structs'][sid]['peaksub'][1] != fobs['structs'][sid]['peaksub'][1]] if not dd else []
            if pk:
                dd.append('peak values differ for structures %r' % pk)
            if not dd and plot_positions(d) != plot_positions(f):
                dd.append('plot layout differs from that of a fresh copy')
            res['pred'] += [lab + 'differs from a freshly constructed dendrogram: ' + x for x in dd]
        except Exception as e:
            res['pred'].append(lab + 'fresh copy could not be built: %s: %s' % (type(e).__name__, e))
        restore()
        if res['pred']:
            break
    res['nontrivial'] = changed
    res['tags'] += ['prunes=%d' % n_prunes, 'ops=%d' % len(item['ops']), 'changed=%s' % changed]
    return res


def _apply_prune(d, case, op, drv):
    from fractions import Fraction
    _, mind, minn, crits, warmset = op
    session.warm(d, warmset)
    unit = float(2 ** case['fb'])
    kw = {}
    md = Fraction(mind, 2 ** case['fb'])
    kw['min_delta'] = int(md) if md.denominator == 1 else float(md)
    kw['min_npix'] = minn
    impl.style_params(case, kw)
    c2 = dict(case)
    c2['crits'] = crits
    fs = impl.user_criteria(c2, unit)
    if fs:
        kw['is_independent'] = fs if len(fs) > 1 else fs[0]
    before = dict(d.params)
    with warnings.catch_warnings():
        warnings.simplefilter('ignore')
        d.prune(**kw)
    eff_d = mind if mind != 0 else impl.to_k(before['min_delta'], case['fb'])
    eff_n = minn if minn != 0 else impl.npix_param(before['min_npix'])
    return parse_block(drv.ask('prune crit=' + impl.crit_string(c2, mind=eff_d, minn=eff_n)))
