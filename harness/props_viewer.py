"""C19: viewer selections (head-less Agg viewer driven with synthetic events)."""
import os
import warnings

import numpy as np
import matplotlib
matplotlib.use('Agg')

import gen
import impl
import session
import props_history as ph


class FakeToolbar(object):
    mode = ''


class FakeCanvas(object):
    toolbar = FakeToolbar()

    def draw(self):
        pass

    def draw_idle(self):
        pass


class Ev(object):
    def __init__(self, **kw):
        self.canvas = FakeCanvas()
        self.__dict__.update(kw)


def gen_deep_C19(rng):
    """a staircase image: every step of row 0 is one level deeper in the tree (a branch with the rest of the stairs and a small
    leaf in row 1 as children), more than 8 bits count levels deep; every structure selected at once in one slot"""
    depth = rng.choice([258, 270, 300])
    w = 2 * depth + 1
    k = [0] * (2 * w)
    for c in range(w):
        k[c] = 4 * (c + 2)                 # row 0: rising stairs
        if c % 2 == 1:
            k[w + c] = 4 * (c + 2) + 2     # row 1: a spike above every other stair -> a leaf that merges one level down
    case = {'shape': [2, w], 'fb': 0, 'k': k, 'dtype': 'float64', 'minv': [0, 1], 'mind': 0, 'minn': 0, 'crits': [], 'kind': 'deep',
            'periodic': [], 'adj': 'grid', 'layout': 'C', 'reuse': False, 'pstyle': 'py', 'crit_container': 'list'}
    slot = rng.choice([1, 2, 3])
    events = [['multi', slot, list(range(0, 1000))], ['click', rng.choice([1, 2, 3]), w - 1, 0, 0.0], ['multi', slot, list(range(0, 1000, 2))]]
    return {'case': case, 'ops': [], 'events': events, 'ncb': 1, 'nanrow': None}


def gen_item_C19(rng, idx, tier):
    if idx == 7 and os.environ.get('VERIF_DEEP_VIEWER', '1') == '1':
        return gen_deep_C19(rng)
    nd = 2 if idx % 3 != 2 else 3
    while True:
        shape = [rng.randint(2, 6) for _ in range(nd)]
        if nd == 3:
            shape[0] = rng.randint(1, 3)
        if int(np.prod(shape)) <= 40:
            break
    case = gen.gen_compute_case(rng, force={'shape': shape, 'adj': 'grid'})
    case['dtype'] = 'float64'
    case['k'] = [None if x is None else abs(x) + 1 for x in case['k']]
    if case['minv'] != 'min':
        case['minv'] = [max(case['minv'][0], 0), case['minv'][1]]
    case['crits'] = []
    if rng.random() < 0.7:
        case['mind'], case['minn'] = 0, 0
    ops = [ph.gen_prune_op(rng, case, allow_crits=False)] if rng.random() < 0.4 else []
    events = []
    n = int(np.prod(shape))
    for _ in range(rng.randint(2, 6)):
        kind = rng.choice(['click', 'click', 'pick', 'lasso', 'multi', 'slice'] if nd == 3 else ['click', 'click', 'pick', 'lasso', 'multi'])
        slot = rng.choice([1, 2, 3])
        if kind == 'click':
            events.append(['click', slot, rng.randrange(shape[-1]), rng.randrange(shape[-2]), rng.choice([-0.4, 0.0, 0.3])])
        elif kind == 'pick':
            events.append(['pick', slot, rng.randrange(1000), rng.randrange(1000)])
        elif kind == 'lasso':
            events.append(['lasso', slot, [rng.randrange(1000) for _ in range(rng.randint(0, 3))]])
        elif kind == 'multi':
            # what a lasso around several catalog rows hands to the hub (2-5 structures, no subtree)
            events.append(['multi', slot, [rng.randrange(1000) for _ in range(rng.randint(2, 5))]])
        else:
            events.append(['slice', rng.randrange(shape[0])])
    if rng.random() < 0.3:
        # fault path: a user callback that raises once, registered somewhere before the last event
        events.insert(rng.randrange(len(events)), ['badcb'])
    return {'case': case, 'ops': ops, 'events': events, 'ncb': rng.randint(0, 2),
            'nanrow': rng.randrange(1000) if rng.random() < 0.35 else None}


def eval_C19(item):
    import matplotlib.pyplot as plt
    from astrodendro.viewer import BasicDendrogramViewer
    from astrodendro.scatter import Scatter
    from astrodendro import pp_catalog, ppv_catalog
    from astropy import units as u
    case = item['case']
    shape = tuple(case['shape'])
    nd = len(shape)
    res = {'corr': [], 'pred': [], 'hyp': [], 'known': [], 'tags': ['nd=%d' % nd, 'pruned=%d' % len(item['ops'])],
           'key': repr((case['shape'], case['k'], case['minv'], case['mind'], case['minn'], item['ops'], item['events']))}
    d, a, order, hooked, steps = session.run_session(case, item['ops'])
    for st in steps:
        res['pred'] += st.wf
    obs = steps[-1].iobs
    if res['pred'] or obs is None or not obs['structs']:
        return res
    structs = obs['structs']
    drv = session.driver()
    plt.close('all')
    with warnings.catch_warnings():
        warnings.simplefilter('ignore')
        v = BasicDendrogramViewer(d)
        cat = (pp_catalog if nd == 2 else ppv_catalog)(d, {'data_unit': u.Jy}, fields=['x_cen', 'y_cen'], verbose=False)
        # a catalog row whose plotted quantity is undefined (NaN), as failed statistics leave behind: it is
        # never inside a lasso and must not shift the rows after it
        nan_row = None
        if item.get('nanrow') is not None and len(cat) >= 2:
            nan_row = item['nanrow'] % len(cat)
            cat['x_cen' if item['nanrow'] % 2 else 'y_cen'][nan_row] = np.nan
        sc = Scatter(d, v.hub, cat, 'x_cen', 'y_cen')
    row_ids = [int(x) for x in cat['_idx']]

    def _same(a_, b_):
        return a_ == b_ or (np.isnan(a_) and np.isnan(b_))
    calls = []
    for c in range(item['ncb']):
        v.hub.add_callback(lambda sid, c=c: calls.append((c, sid)))
    # capture contour masks
    masks = {}
    orig_contour = v.ax_image.contour

    def contour(mask, **kw):
        col = kw.get('colors')
        slot = [k for k, c in v.hub.colors.items() if c == col]
        masks[slot[0] if slot else None] = np.array(mask, copy=True)
        return orig_contour(mask, **kw)
    v.ax_image.contour = contour
    model_events = ['cb', 'cb'] + ['cb'] * item['ncb']     # viewer + scatter callbacks, then ours
    lines = v.lines
    cur_slice = v.slice
    n_before = 0
    def guarded(f, *args):
        # a user callback registered by a 'badcb' event raises once; it is the last one registered, so every view has
        # been notified when the exception leaves the hub
        try:
            f(*args)
        except impl.Injected:
            res['tags'].append('callback-raised')
    for ev in item['events']:
        masks.clear()
        if ev[0] == 'badcb':
            armed = {'on': True}

            def bad(sid, armed=armed):
                if armed['on']:
                    armed['on'] = False
                    raise impl.Injected('callback failed on purpose')
            v.hub.add_callback(bad)
            model_events.insert(2 + item['ncb'], 'cb')
            continue
        try:
            with warnings.catch_warnings():
                warnings.simplefilter('ignore')
                if ev[0] == 'click':
                    _, slot, ix, iy, frac_ = ev
                    guarded(v.select_from_map, Ev(button=slot, inaxes=v.ax_image, xdata=ix + frac_, ydata=iy + frac_))
                    coord = (iy, ix) if nd == 2 else (cur_slice, iy, ix)
                    lab = obs['lmap'][int(np.ravel_multi_index(coord, shape))]
                    model_events.append('click.%d.%s' % (slot, 'none' if lab == -1 else lab))
                    expect_first = None if lab == -1 else lab
                elif ev[0] == 'pick':
                    _, slot, i1, i2 = ev
                    n = len(lines.structures)
                    inds = sorted(set([i1 % n, i2 % n]))
                    guarded(v.line_picker, Ev(mouseevent=Ev(button=slot), artist=lines, ind=np.array(inds)))
                    cands = [int(lines.structures[i].idx) for i in inds]
                    # "the structure that line was drawn for": one of the picked lines' structures (highest peak)
                    best = max(structs[c]['peaksub'][1] for c in cands)
                    sel = v.hub.selections[slot][0]
                    got = None if sel is None else int(sel.idx)
                    if got not in [c for c in cands if structs[c]['peaksub'][1] == best]:
                        res['pred'].append('picking lines of structures %r selected %r' % (cands, got))
                    ans = drv.ask('pick ls=%s peaks=%s ind=%s' % (','.join(str(int(x.idx)) for x in lines.structures),
                                                                  ','.join('%d:%d' % (c_, structs[c_]['peaksub'][1]) for c_ in sorted(structs)),
                                                                  ','.join(str(i_) for i_ in inds)))
                    if ans and ans[0].startswith('picked ') and ans[0][7:] != str(got):
                        res['corr'].append('line pick %r: impl selected %r, model %s' % (inds, got, ans[0][7:]))
                    model_events.append('click.%d.%s' % (slot, got))
                    expect_first = got
                    if nd == 3 and v.slice_slider is not None and got is not None:
                        cur_slice = v.slice
                elif ev[0] == 'lasso':
                    _, slot, rs = ev
                    rows = sorted(set(r % len(row_ids) for r in rs) - set([nan_row]))
                    # a lasso polygon around exactly those rows: drive the callback with a path hugging the points
                    cb = sc.callback_generator(Ev(button=slot))
                    sc.lasso = None
                    # the polygon is drawn around the catalog's own (x, y) columns, not around what the view stored
                    verts = lasso_around(np.column_stack((np.asarray(cat['x_cen'], dtype=float), np.asarray(cat['y_cen'], dtype=float))), rows)
                    if verts is None:
                        continue
                    guarded(cb, verts)
                    model_events.append('lasso.%d.%s' % (slot, '+'.join(str(r) for r in rows) or '-'))
                    expect_first = None if not rows else row_ids[rows[0]]
                elif ev[0] == 'multi':
                    _, slot, rs = ev
                    rows = sorted(set(r % len(row_ids) for r in rs))
                    guarded(v.hub.select, slot, [d[row_ids[r]] for r in rows], False)
                    model_events.append('lasso.%d.%s' % (slot, '+'.join(str(r) for r in rows)))
                    expect_first = row_ids[rows[0]]
                else:
                    v.update_slice(ev[1])
                    cur_slice = v.slice
                    # the contours of all live selections are redrawn for the slice now displayed
                    if nd == 3:
                        for slot_, sel_ in v.hub.selections.items():
                            if not sel_ or sel_[0] is None:
                                continue
                            ids_ = [int(x_.idx) for x_ in sel_]
                            px_ = set(structs[ids_[0]]['pixsub']) if v.hub.select_subtree[slot_] else set(q_ for i_ in ids_ for q_ in structs[i_]['pixsub'])
                            full_ = np.zeros(int(np.prod(shape)), dtype=bool)
                            full_[sorted(px_)] = True
                            want_ = full_.reshape(shape)[cur_slice]
                            got_ = masks.get(slot_)
                            if got_ is None or not np.array_equal(np.asarray(got_, dtype=bool), want_):
                                res['pred'].append('after moving to slice %d the contour of slot %d is not the mask of its selection in that slice' % (cur_slice, slot_))
                    continue
        except Exception as e:
            res['pred'].append('event %r raised %s: %s' % (ev, type(e).__name__, str(e)[:80]))
            break
        # ---- observe and compare with the model after this event
        ans = drv.ask('hub ev=%s rows=%s' % (';'.join(model_events), ','.join(str(x) for x in row_ids)))
        mslots = {}
        mlog = ''
        for l in ans:
            w = l.split(' ', 6)
            if w[0] == 'slot':
                f = dict(x.split('=', 1) for x in w[2:6])
                mslots[int(w[1])] = {'sub': f['sub'] == '1', 'hl': [] if f['hl'] == '-' else [int(x) for x in f['hl'].split(',')],
                                     'mask': [] if f['mask'] == '-' else [int(x) for x in f['mask'].split(',')],
                                     'rows': [] if f['rows'] == '-' else [int(x) for x in f['rows'].split(',')],
                                     'label': w[6].split('=', 1)[1]}
            elif w[0] == 'log':
                mlog = l[4:]
        for slot, ms in mslots.items():
            sel = v.hub.selections.get(slot)
            if sel is None:
                res['corr'].append('slot %d not set in the implementation' % slot)
                continue
            ids = [None if s is None else int(s.idx) for s in sel]
            hl = sorted(set(int(s.idx) for s in v.selected_lines[slot].structures)) if slot in v.selected_lines else []
            if hl != ms['hl']:
                res['corr'].append('slot %d highlighted lines: impl %r model %r' % (slot, hl, ms['hl']))
            label = v.selected_label[slot].get_text()
            if label != ms['label']:
                res['corr'].append('slot %d label: impl %r model %r' % (slot, label, ms['label']))
            if bool(v.hub.select_subtree[slot]) != ms['sub']:
                res['corr'].append('slot %d subtree flag differs' % slot)
            rows_hl = []
            if slot in sc.lines2d and sc.lines2d[slot] is not None:
                xd = np.asarray(sc.lines2d[slot].get_xdata(), dtype=float)
                yd = np.asarray(sc.lines2d[slot].get_ydata(), dtype=float)
                for x_, y_ in zip(xd, yd):
                    hit = [r for r in range(len(row_ids)) if _same(float(cat['x_cen'][r]), x_) and _same(float(cat['y_cen'][r]), y_)]
                    rows_hl.append(hit[0] if hit else -1)
            if sorted(rows_hl) != ms['rows'] and len(set(zip(cat['x_cen'], cat['y_cen']))) == len(row_ids):
                res['corr'].append('slot %d highlighted scatter rows: impl %r model %r' % (slot, sorted(rows_hl), ms['rows']))
            # contour mask of every live selection is redrawn on each change
            if ids and ids[0] is not None:
                want = np.zeros(int(np.prod(shape)), dtype=bool)
                want[ms['mask']] = True
                want = want.reshape(shape)
                if nd == 3:
                    want = want[cur_slice]
                got = masks.get(slot)
                if got is None or not np.array_equal(got, want):
                    res['corr'].append('slot %d contour mask differs from the model' % slot)
                # independent of the model: what is outlined is the region (the structure with its substructures: what a
                # contour at its level encloses) of the selected structure, or of every listed structure for a selection
                # without subtree, in the displayed slice
                mine = np.zeros(int(np.prod(shape)), dtype=bool)
                for sid_ in (ids[:1] if v.hub.select_subtree[slot] else ids):
                    if sid_ is not None and sid_ in structs:
                        mine[structs[sid_]['pixsub']] = True
                mine = mine.reshape(shape)
                if nd == 3:
                    mine = mine[cur_slice]
                if got is not None and not np.array_equal(np.asarray(got, dtype=bool), mine):
                    res['pred'].append('slot %d: the contour outlines %d pixels, the regions of the selected structures %r (subtree=%s) cover %d; first difference at %r'
                                       % (slot, int(np.asarray(got, dtype=bool).sum()), ids[:6], bool(v.hub.select_subtree[slot]), int(mine.sum()),
                                          tuple(int(x) for x in np.argwhere(np.asarray(got, dtype=bool) != mine)[0])))
        # predicates on the slot of this event
        slot = ev[1]
        sel = v.hub.selections.get(slot)
        ids = [None if s is None else int(s.idx) for s in sel]
        if ev[0] in ('click', 'pick'):
            if ids != [expect_first] or not v.hub.select_subtree[slot]:
                res['pred'].append('%s selected %r (subtree=%s), expected [%r] with subtree' % (ev[0], ids, v.hub.select_subtree[slot], expect_first))
            elif expect_first is not None:
                hl = sorted(set(int(s.idx) for s in v.selected_lines[slot].structures))
                want = sorted(structs[expect_first]['desc'] + [expect_first])
                if hl != want:
                    res['pred'].append('highlighted lines %r, selected structure with descendants %r' % (hl, want))
                if v.selected_label[slot].get_text() != 'Selected structure: %d' % expect_first:
                    res['pred'].append('label %r for structure %d' % (v.selected_label[slot].get_text(), expect_first))
                full = np.zeros(int(np.prod(shape)), dtype=bool)
                full[structs[expect_first]['pixsub']] = True
                full = full.reshape(shape)
                if nd == 3:
                    full = full[cur_slice]
                if masks.get(slot) is None or not np.array_equal(masks[slot], full):
                    res['pred'].append('contour mask of slot %d is not the mask of structure %d in the displayed slice' % (slot, expect_first))
            elif slot in v.selected_lines or v.selected_label[slot].get_text() != 'No structure selected':
                res['pred'].append('clearing the selection left highlighted lines / label behind')
        elif ev[0] in ('lasso', 'multi'):
            want = [row_ids[r] for r in rows] or [None]
            if ids != want or v.hub.select_subtree[slot]:
                res['pred'].append('lasso around rows %r selected %r (subtree=%s), expected %r without subtree' % (rows, ids, v.hub.select_subtree[slot], want))
        # highlighted scatter points are those of the selected structure(s) (with descendants for a subtree selection)
        if len(set(zip(cat['x_cen'], cat['y_cen']))) == len(row_ids):
            sel_ids = [s_ for s_ in ids if s_ is not None]
            if sel_ids:
                want_ids = sorted(set(structs[sel_ids[0]]['desc'] + [sel_ids[0]])) if v.hub.select_subtree[slot] else sorted(set(sel_ids))
                got_rows = []
                if slot in sc.lines2d and sc.lines2d[slot] is not None:
                    for x_, y_ in zip(np.asarray(sc.lines2d[slot].get_xdata(), dtype=float), np.asarray(sc.lines2d[slot].get_ydata(), dtype=float)):
                        hit = [r_ for r_ in range(len(row_ids)) if _same(float(cat['x_cen'][r_]), x_) and _same(float(cat['y_cen'][r_]), y_)]
                        got_rows.append(row_ids[hit[0]] if hit else -1)
                if sorted(got_rows) != want_ids:
                    res['pred'].append('highlighted scatter points belong to structures %r, selection (slot %d) is %r' % (sorted(got_rows), slot, want_ids))
        # nothing of an earlier selection stays drawn: every highlight artist on the three axes belongs to a live slot
        stale = [c_ for c_ in v.ax_image.collections if not any(c_ is x_ for x_ in v.selected_contour.values())]
        if stale:
            res['pred'].append('%d contour(s) of earlier selections are still drawn on the image after %r' % (len(stale), ev[:2]))
        stale = [c_ for c_ in v.ax_dendrogram.collections if c_ is not v.lines and not any(c_ is x_ for x_ in v.selected_lines.values())]
        if stale:
            res['pred'].append('%d highlighted line collection(s) of earlier selections are still drawn on the tree after %r' % (len(stale), ev[:2]))
        live = [x_ for x_ in sc.lines2d.values() if x_ is not None]
        if len(sc.axes.lines) != 1 + len(live) or any(not any(l_ is x_ for x_ in live) for l_ in list(sc.axes.lines)[1:]):
            res['pred'].append('the scatter plot shows %d point sets for %d live highlights after %r' % (len(sc.axes.lines) - 1, len(live), ev[:2]))
        # notification: every registered callback exactly once, with the slot
        new = calls[n_before:]
        n_before = len(calls)
        if sorted(new) != sorted((c, slot) for c in range(item['ncb'])):
            res['pred'].append('callbacks notified %r for a change of slot %d (registered %d)' % (new, slot, item['ncb']))
    # a view linked late shows the selections that already exist
    try:
        with warnings.catch_warnings():
            warnings.simplefilter('ignore')
            sc2 = Scatter(d, v.hub, cat, 'x_cen', 'y_cen')
        for slot_, ln in sc.lines2d.items():
            a_ = sorted(zip(np.asarray(ln.get_xdata(), dtype=float).tolist(), np.asarray(ln.get_ydata(), dtype=float).tolist()), key=repr) if ln is not None else []
            l2 = sc2.lines2d.get(slot_)
            b_ = sorted(zip(np.asarray(l2.get_xdata(), dtype=float).tolist(), np.asarray(l2.get_ydata(), dtype=float).tolist()), key=repr) if l2 is not None else []
            if repr(a_) != repr(b_):
                res['pred'].append('a scatter view linked after the events highlights %r for slot %r, the first view %r' % (b_[:4], slot_, a_[:4]))
    except Exception as e:  # noqa
        res['pred'].append('linking a second scatter view raised %s: %s' % (type(e).__name__, str(e)[:60]))
    res['nontrivial'] = len(structs) >= 2 and len(item['events']) >= 2
    plt.close('all')
    return res


def lasso_around(xys, rows):
    """a polygon containing exactly the points of `rows` (tiny squares joined through far-away corridors would be
    complicated; instead use one tiny square when a single row is requested, else the union is approximated by a
    polygon visiting tiny squares — only used when all other points are outside)"""
    import matplotlib.path as mpath
    xys = np.asarray(xys, dtype=float)
    if len(rows) == 0:
        far = np.nanmax(xys, axis=0) + 100.0
        return [(far[0], far[1]), (far[0] + 1, far[1]), (far[0] + 1, far[1] + 1)]
    eps = 1e-6
    if len(rows) == 1:
        x, y = xys[rows[0]]
        verts = [(x - eps, y - eps), (x + eps, y - eps), (x + eps, y + eps), (x - eps, y + eps)]
    else:
        # a thin polygon along the polyline through the selected points
        pts = xys[rows]
        verts = [(x - eps, y - eps) for x, y in pts] + [(x + eps, y + eps) for x, y in pts[::-1]]
    inside = mpath.Path(verts).contains_points(xys)
    want = np.zeros(len(xys), dtype=bool)
    want[rows] = True
    if not np.array_equal(inside & ~np.isnan(xys[:, 0]) & ~np.isnan(xys[:, 1]), want):
        return None
    return verts
