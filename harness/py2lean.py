"""py2lean -- a small translator from fragments of astrodendro's Python source to Lean 4 definitions.

It is the second tie between the Lean development and /repo (the first is the sampled correspondence of the
hand-written model): the decision logic of the fragments listed in `genspec.py` is *regenerated from the source on
every run*; `lean/ADGen/Equiv.lean` proves, for all inputs, that each generated definition equals the corresponding
definition of the hand-written model (or has the property directly).  A change in a comparison, a constant, a branch
or an assignment of such a fragment changes the generated definition, and the equivalence theorem is re-checked
against it.

Scope (deliberately small -- everything else is an error, never a guess):
  * expressions over *atoms*: an atom is a Python expression, given in the fragment's spec by its source text,
    that stands for a scalar of type Int or Bool (`structure.vmax`, `len(structure.values())`, `value is None`, ...).
    Atoms are matched top-down on `ast.unparse` text, so the spec says exactly which sub-expressions are taken as
    opaque; what the atom means is part of the trusted base and is listed in the generated file.
  * integer literals, `True/False`, `+ - * // %`, unary minus, comparisons (chains too), `and/or/not`,
    conditional expressions, `min(a, b)`, `max(a, b)`, calls of local helper functions named in `inline`
    (translated as Lean functions of their own).
  * statements: `return`, `if/elif/else`, assignment / tuple assignment / augmented assignment to *mutable* atoms or
    fresh local names, `pass`, expression statements matching `ignore`, `raise` (result type becomes `Option`),
    `for` loops over a literal key list given in the spec (unrolled; `continue` supported).
The result of a fragment is either its return value or the tuple of the final values of the listed `outputs`.
"""
import ast
import re


class Untranslatable(Exception):
    pass


def _src(node):
    return ast.unparse(node)


class Frag:
    def __init__(self, name, file, qual, atoms, outputs='return', mutable=(), ignore=(), inline=(), select=None,
                 unroll=None, ret='Bool', props=(), doc='', consts=None, fallthrough=None, locals_=None,
                 properties_of=None, params=None, param_types=None, alias=None,
                 raise_codes=None, continue_value=None, yield_value=None, init=None, marks=None):
        self.name = name              # Lean name (in namespace Gen)
        self.file = file              # path below the repository root
        self.qual = qual              # 'Class.method' / 'func.inner'
        self.atoms = atoms            # {python source: (lean term, 'Int'|'Bool')}; parameters are the lean terms that are identifiers
        self.outputs = outputs        # 'return' or list of python sources (mutable atoms / locals)
        self.mutable = list(mutable)
        # statements that are part of the fragment but carry no decision logic: (regex, number of statements it has to match);
        # a statement that is gone (or has multiplied) makes the fragment untranslatable rather than silently different
        self.ignore = [(re.compile(p if isinstance(p, str) else p[0]), 1 if isinstance(p, str) else p[1]) for p in ignore]
        self.ignore_hits = {}
        self.inline = list(inline)
        self.select = select          # function(list of stmts) -> list of stmts
        self.unroll = unroll or {}    # {loop var: [python constant sources]}
        self.ret = ret                # type of the return value / of each output: 'Bool' | 'Int' | list for outputs
        self.props = list(props)
        self.doc = doc
        self.fallthrough = fallthrough  # lean term for "fell off the end" when outputs == 'return'
        self.locals = dict(locals_ or {})  # types of fresh local names {name: 'Int'|'Bool'}
        self.params = params
        self.alias = dict(alias or {})      # {python source: python source translated in its place}
        self.raise_codes = list(raise_codes or [])   # [(substring of the message, integer result)]
        self.continue_value = continue_value   # (lean term, type): result of the fragment when `continue` is reached
        self.yield_value = yield_value         # (lean term, type): result when a `yield` statement is reached
        self.init = dict(init or {})           # initial values of locals {python name: (lean term, type)}
        self.marks = [(re.compile(p_), v_) for p_, v_ in (marks or [])]   # [(statement regex, (local, lean term, type))]
        self.param_types = dict(param_types or {})
        self.properties_of = properties_of  # class name whose @property one-liners are inlined for `self.x`


def find_def(tree, qual):
    node = tree
    for part in qual.split('.'):
        found = None
        for ch in ast.walk(node) if node is tree else ast.iter_child_nodes(node):
            pass
        # search direct body first, then nested bodies (functions defined inside functions)
        stack = list(getattr(node, 'body', []))
        while stack and found is None:
            ch = stack.pop(0)
            if isinstance(ch, (ast.FunctionDef, ast.ClassDef)) and ch.name == part:
                found = ch
                break
            if isinstance(ch, (ast.If, ast.Try, ast.With, ast.For, ast.While)):
                stack = list(getattr(ch, 'body', [])) + list(getattr(ch, 'orelse', [])) + stack
        if found is None:
            raise Untranslatable('definition %s not found (at %s)' % (qual, part))
        node = found
    return node


def class_properties(tree, cls):
    """{name: expression source} for `@property def name(self): return <expr>` one-liners of class `cls`"""
    out = {}
    c = find_def(tree, cls)
    for ch in c.body:
        if isinstance(ch, ast.FunctionDef) and any(_src(d) == 'property' for d in ch.decorator_list):
            body = [s for s in ch.body if not (isinstance(s, ast.Expr) and isinstance(s.value, ast.Constant)
                                               and isinstance(s.value.value, str))]
            if len(body) == 1 and isinstance(body[0], ast.Return) and body[0].value is not None:
                out[ch.name] = body[0].value
    return out


class _Subst(ast.NodeTransformer):
    def __init__(self, name, repl):
        self.name, self.repl = name, repl

    def visit_Name(self, node):
        if node.id == self.name:
            return ast.copy_location(ast.parse(self.repl, mode='eval').body, node)
        return node


class _InlineProps(ast.NodeTransformer):
    """self.x -> (<body of property x>) for one-line properties"""
    def __init__(self, props):
        self.props = props

    def visit_Attribute(self, node):
        self.generic_visit(node)
        if isinstance(node.value, ast.Name) and node.value.id == 'self' and node.attr in self.props \
                and isinstance(node.ctx, ast.Load):
            return ast.copy_location(self.props[node.attr], node)
        return node


class Translator:
    def __init__(self, frag, module_tree):
        self.f = frag
        self.tree = module_tree
        self.helpers = {}      # inline helper name -> lean def text
        self.hits = {}         # ignore pattern -> set of (line, source) of the statements it matched
        self.fresh = 0
        self.raises = False

    # ---------------------------------------------------------------- expressions
    def atom(self, node, env):
        s = _src(node)
        if s in env:
            return env[s]
        if s in self.f.atoms:
            return self.f.atoms[s]
        return None

    def expr(self, node, env):
        """-> (lean text, type)"""
        a = self.atom(node, env)
        if a is not None:
            return a
        if _src(node) in self.f.alias:
            return self.expr(ast.parse(self.f.alias[_src(node)], mode='eval').body, env)
        if isinstance(node, ast.Constant):
            v = node.value
            if isinstance(v, bool):
                return ('true' if v else 'false', 'Bool')
            if isinstance(v, int):
                return ('(%d : Int)' % v, 'Int')
            raise Untranslatable('constant %r' % (v,))
        if isinstance(node, ast.Name):
            raise Untranslatable('name `%s` is not an atom of this fragment' % node.id)
        if isinstance(node, ast.UnaryOp):
            x, t = self.expr(node.operand, env)
            if isinstance(node.op, ast.Not):
                self.need(t, 'Bool', node)
                return ('(!%s)' % x, 'Bool')
            if isinstance(node.op, ast.USub):
                self.need(t, 'Int', node)
                return ('(-%s)' % x, 'Int')
            raise Untranslatable('unary operator in `%s`' % _src(node))
        if isinstance(node, ast.BinOp):
            ops = {ast.Add: '+', ast.Sub: '-', ast.Mult: '*', ast.FloorDiv: '/', ast.Mod: '%'}
            if type(node.op) not in ops:
                raise Untranslatable('operator in `%s`' % _src(node))
            x, tx = self.expr(node.left, env)
            y, ty = self.expr(node.right, env)
            self.need(tx, 'Int', node.left)
            self.need(ty, 'Int', node.right)
            if isinstance(node.op, (ast.FloorDiv, ast.Mod)):
                # Python's // and % round towards minus infinity: Int.fdiv / Int.fmod
                fn = 'Int.fdiv' if isinstance(node.op, ast.FloorDiv) else 'Int.fmod'
                return ('(%s %s %s)' % (fn, x, y), 'Int')
            return ('(%s %s %s)' % (x, ops[type(node.op)], y), 'Int')
        if isinstance(node, ast.BoolOp):
            parts = [self.expr(v, env) for v in node.values]
            for (x, t), v in zip(parts, node.values):
                self.need(t, 'Bool', v)
            op = ' && ' if isinstance(node.op, ast.And) else ' || '
            return ('(' + op.join(x for x, _ in parts) + ')', 'Bool')
        if isinstance(node, ast.Compare):
            ops = {ast.Lt: '<', ast.LtE: '≤', ast.Gt: '>', ast.GtE: '≥', ast.Eq: '==', ast.NotEq: '!='}
            left = node.left
            outs = []
            for op, right in zip(node.ops, node.comparators):
                if type(op) not in ops:
                    raise Untranslatable('comparison `%s` (declare it as an atom)' % _src(node))
                if isinstance(right, ast.BinOp) and isinstance(right.op, ast.Div) and isinstance(right.right, ast.Constant) \
                        and isinstance(right.right.value, int) and right.right.value > 0 and self.atom(right, env) is None:
                    # `a < b / c` (true division by a positive integer constant) is `a * c < b` over the integers
                    left2 = ast.BinOp(left=left, op=ast.Mult(), right=right.right)
                    x, tx = self.expr(left2, env)
                    y, ty = self.expr(right.left, env)
                elif isinstance(left, ast.BinOp) and isinstance(left.op, ast.Div) and isinstance(left.right, ast.Constant) \
                        and isinstance(left.right.value, int) and left.right.value > 0 and self.atom(left, env) is None:
                    # `b / c > a`: the same, the other way round
                    right2 = ast.BinOp(left=right, op=ast.Mult(), right=left.right)
                    x, tx = self.expr(left.left, env)
                    y, ty = self.expr(right2, env)
                else:
                    x, tx = self.expr(left, env)
                    y, ty = self.expr(right, env)
                if tx != ty:
                    raise Untranslatable('comparison of %s with %s in `%s`' % (tx, ty, _src(node)))
                if tx == 'Bool' and not isinstance(op, (ast.Eq, ast.NotEq)):
                    raise Untranslatable('ordering of booleans in `%s`' % _src(node))
                if isinstance(op, (ast.Eq, ast.NotEq)):
                    outs.append('(%s %s %s)' % (x, ops[type(op)], y))
                else:
                    outs.append('(decide (%s %s %s))' % (x, ops[type(op)], y))
                left = right
            return (outs[0] if len(outs) == 1 else '(' + ' && '.join(outs) + ')', 'Bool')
        if isinstance(node, ast.IfExp):
            c, tc = self.expr(node.test, env)
            self.need(tc, 'Bool', node.test)
            x, tx = self.expr(node.body, env)
            y, ty = self.expr(node.orelse, env)
            if tx != ty:
                raise Untranslatable('branches of `%s` have different types' % _src(node))
            return ('(if %s then %s else %s)' % (c, x, y), tx)
        if isinstance(node, ast.Call):
            fn = _src(node.func)
            if fn in ('min', 'max') and len(node.args) == 2 and not node.keywords:
                x, tx = self.expr(node.args[0], env)
                y, ty = self.expr(node.args[1], env)
                self.need(tx, 'Int', node.args[0])
                self.need(ty, 'Int', node.args[1])
                # Python: min(a, b) returns a unless b < a; max(a, b) returns a unless b > a -- same value as Lean's
                return ('(%s %s %s)' % (fn, x, y), 'Int')
            if fn == 'np.where' and len(node.args) == 3 and not node.keywords:
                # element-wise selection: translated for one element
                c, tc = self.expr(node.args[0], env)
                self.need(tc, 'Bool', node.args[0])
                x, tx = self.expr(node.args[1], env)
                y, ty = self.expr(node.args[2], env)
                if tx != ty:
                    raise Untranslatable('branches of `%s` have different types' % _src(node))
                return ('(if %s then %s else %s)' % (c, x, y), tx)
            if fn in self.f.inline and not node.keywords:
                name = self.helper(fn)
                args = [self.expr(a_, env) for a_ in node.args]
                ret = self.helpers[fn][1]
                return ('(%s %s)' % (name, ' '.join([p for p, _ in self.ambient()] + [x for x, _ in args])), ret)
            raise Untranslatable('call `%s` (declare it as an atom)' % _src(node))
        raise Untranslatable('expression `%s`' % _src(node))

    def need(self, t, want, node):
        if t != want:
            raise Untranslatable('`%s` has type %s where %s is needed' % (_src(node), t, want))

    # ---------------------------------------------------------------- parameters
    def params(self):
        """parameters of the generated definition: the spec's explicit list, or the identifiers that occur in atom terms"""
        if self.f.params is not None:
            return list(self.f.params)
        seen, out = set(), []
        skip = {'true', 'false', 'Int', 'Bool', 'decide', 'min', 'max'}
        for src, (term, ty) in self.f.atoms.items():
            ids = re.findall(r'[A-Za-z_][A-Za-z0-9_]*', term)
            simple = re.fullmatch(r'[A-Za-z_][A-Za-z0-9_]*', term) is not None
            for i_ in ids:
                if i_ in skip or i_ in seen or i_.endswith('_'):
                    continue
                if not simple and i_ not in self.f.param_types:
                    # an identifier inside a compound term: its type must be given (or it appears elsewhere on its own)
                    if any(re.fullmatch(re.escape(i_), t_) for t_, _ in self.f.atoms.values()):
                        continue
                    raise Untranslatable('type of parameter %s (in atom term `%s`) is not declared' % (i_, term))
                seen.add(i_)
                out.append((i_, self.f.param_types.get(i_, ty)))
        return out

    def ambient(self):
        """parameters passed on to inline helpers (those whose atom source does not mention the helper's arguments)"""
        return [(p, t) for p, t in self.params() if p.startswith('amb_')]

    def helper(self, fn):
        if fn in self.helpers:
            return self.helpers[fn][0]
        outer = find_def(self.tree, self.f.qual.rsplit('.', 1)[0]) if '.' in self.f.qual else self.tree
        d = None
        for ch in ast.walk(outer):
            if isinstance(ch, ast.FunctionDef) and ch.name == fn:
                d = ch
                break
        if d is None:
            raise Untranslatable('helper %s not found' % fn)
        args = [a.arg for a in d.args.args]
        env = {a: (a + '_', 'Int') for a in args}
        lname = 'Gen.%s__%s' % (self.f.name, fn)
        self.helpers[fn] = (lname, 'Int', None)
        body, ty = self.block(self.strip_doc(d.body), env, None, 'return')
        text = 'def %s %s : %s :=\n  %s' % (lname, ' '.join('(%s : %s)' % (p, t) for p, t in
                                                              self.ambient() + [(a + '_', 'Int') for a in args]), ty, body)
        self.helpers[fn] = (lname, ty, text)
        return lname

    # ---------------------------------------------------------------- statements
    @staticmethod
    def strip_doc(stmts):
        return [s for s in stmts if not (isinstance(s, ast.Expr) and isinstance(s.value, ast.Constant)
                                         and isinstance(s.value.value, str))]

    def ignored(self, stmt):
        s = _src(stmt)
        for p, _n in self.f.ignore:
            if p.search(s):
                self.hits.setdefault(p.pattern, set()).add((getattr(stmt, 'lineno', 0), s))
                return True
        return False

    def newvar(self, base):
        self.fresh += 1
        return '%s_%d' % (re.sub(r'\W', '_', base).strip('_') or 'v', self.fresh)

    def finish(self, env, outputs):
        if outputs == 'return':
            if self.f.fallthrough is None:
                raise Untranslatable('control can fall off the end of the fragment')
            return (self.f.fallthrough, self.f.ret)
        vals = []
        for o in outputs:
            if o in env:
                vals.append(env[o])
            elif o in self.f.atoms:
                vals.append(self.f.atoms[o])
            else:
                raise Untranslatable('output `%s` is never defined' % o)
        return ('(' + ', '.join(v for v, _ in vals) + ')', ' × '.join(t for _, t in vals))

    def assign(self, target, val, env):
        """-> (binding text, new env)"""
        s = _src(target)
        if not (s in self.f.mutable or isinstance(target, ast.Name)):
            raise Untranslatable('assignment to `%s` (not declared mutable)' % s)
        if isinstance(target, ast.Name) and s not in self.f.mutable and s in self.f.atoms:
            raise Untranslatable('assignment to the atom `%s` (not declared mutable)' % s)
        v = self.newvar(s)
        env2 = dict(env)
        env2[s] = (v, val[1])
        return ('let %s : %s := %s\n' % (v, val[1], val[0]), env2)

    def block(self, stmts, env, cont, outputs):
        """translate a statement list; `cont`: (stmts, env) to continue with when this list ends (loop unrolling)"""
        if not stmts:
            if cont is not None:
                return cont(env)
            return self.finish(env, outputs)
        s, rest = stmts[0], stmts[1:]
        for pat, (var, term, ty_) in self.f.marks:
            if pat.search(_src(s)):
                # a statement whose effect is recorded as the value of a local (e.g. "the footprint was cleared")
                env2 = dict(env)
                env2[var] = (term, ty_)
                return self.block(rest, env2, cont, outputs)
        if isinstance(s, ast.Pass) or self.ignored(s):
            return self.block(rest, env, cont, outputs)
        if isinstance(s, ast.Return):
            if outputs != 'return':
                raise Untranslatable('`return` inside a fragment whose result is its final state')
            if s.value is None:
                raise Untranslatable('bare return')
            x, t = self.expr(s.value, env)
            return (x, t)
        if isinstance(s, ast.Raise):
            msg = _src(s)
            for sub, code in self.f.raise_codes:
                if sub in msg:
                    return ('(%d : Int)' % code, 'Int')
            self.raises = True
            return ('none', 'RAISE')
        if isinstance(s, ast.Continue):
            if cont is None:
                if self.f.continue_value is not None:
                    return self.f.continue_value
                raise Untranslatable('continue outside an unrolled loop')
            return cont(env)
        if isinstance(s, ast.Expr) and isinstance(s.value, ast.Yield) and self.f.yield_value is not None:
            if not (rest and isinstance(rest[0], ast.Break)):
                raise Untranslatable('`yield` is not followed by `break` (the scan is expected to stop at the structure it hands out)')
            return self.f.yield_value
        if isinstance(s, ast.If):
            c, tc = self.expr(s.test, env)
            self.need(tc, 'Bool', s.test)
            a, ta = self.block(list(s.body) + rest, env, cont, outputs)
            b, tb = self.block(list(s.orelse) + rest, env, cont, outputs)
            ty = tb if ta == 'RAISE' else ta
            if 'RAISE' not in (ta, tb) and ta != tb:
                raise Untranslatable('branches of `if %s` yield %s and %s' % (_src(s.test), ta, tb))
            return ('(if %s then\n%s\nelse\n%s)' % (c, a, b), ty)
        if isinstance(s, ast.Assign):
            if len(s.targets) != 1:
                raise Untranslatable('chained assignment')
            tgt = s.targets[0]
            if isinstance(tgt, ast.Tuple):
                if not isinstance(s.value, ast.Tuple) or len(s.value.elts) != len(tgt.elts):
                    raise Untranslatable('tuple assignment `%s`' % _src(s))
                vals = [self.expr(v, env) for v in s.value.elts]     # all right-hand sides first
                text, env2 = '', env
                for t_, v_ in zip(tgt.elts, vals):
                    b_, env2 = self.assign(t_, v_, env2)
                    text += b_
                body, ty = self.block(rest, env2, cont, outputs)
                return (text + body, ty)
            val = self.expr(s.value, env)
            b_, env2 = self.assign(tgt, val, env)
            body, ty = self.block(rest, env2, cont, outputs)
            return (b_ + body, ty)
        if isinstance(s, ast.AugAssign):
            return self.block([ast.Assign(targets=[s.target], value=ast.BinOp(left=s.target, op=s.op, right=s.value))]
                              + rest, env, cont, outputs)
        if isinstance(s, ast.For):
            var = _src(s.target)
            if var not in self.f.unroll or s.orelse:
                raise Untranslatable('loop `for %s in %s` (not declared for unrolling)' % (var, _src(s.iter)))
            keys = self.f.unroll[var]

            def iteration(k, env_):
                if k == len(keys):
                    return self.block(rest, env_, cont, outputs)
                body = [_Subst(var, keys[k]).visit(ast.parse(_src(b)).body[0]) for b in s.body]
                for b in body:
                    ast.fix_missing_locations(b)
                return self.block(body, env_, lambda e2: iteration(k + 1, e2), outputs)
            return iteration(0, env)
        raise Untranslatable('statement `%s`' % _src(s).split('\n')[0])

    # ---------------------------------------------------------------- top level
    def translate(self):
        d = find_def(self.tree, self.f.qual)
        stmts = self.strip_doc(d.body)
        if self.f.properties_of:
            props = class_properties(self.tree, self.f.properties_of)
            stmts = [ast.fix_missing_locations(_InlineProps(props).visit(ast.parse(_src(s)).body[0])) for s in stmts]
        if self.f.select:
            stmts = self.f.select(stmts)
            if not stmts:
                raise Untranslatable('the statements this fragment is made of were not found in %s' % self.f.qual)
        body, ty = self.block(stmts, dict(self.f.init), None, self.f.outputs)
        if ty == 'RAISE':
            raise Untranslatable('fragment always raises')
        for p, n in self.f.ignore:
            got = len(self.hits.get(p.pattern, ()))
            if got != n:
                raise Untranslatable('the fragment is expected to contain %d statement(s) matching /%s/, found %d' % (n, p.pattern, got))
        if self.raises:
            # wrap: a value v becomes `some v`; done textually on a marker to keep the code simple
            raise Untranslatable('raise is only supported through `raise_as`')
        src_lines = '\n'.join('    ' + _src(s).replace('\n', '\n    ') for s in stmts)
        doc = '/-- %s — generated from `%s` in %s\n```python\n%s\n```\n%s -/' % (
            self.f.doc, self.f.qual, self.f.file, src_lines.replace('-/', '- /'),
            'atoms: ' + '; '.join('`%s` ↦ %s : %s' % (k.replace('-/', '- /'), v[0], v[1]) for k, v in self.f.atoms.items()))
        helpers = '\n\n'.join(h[2] for h in self.helpers.values() if h[2])
        text = (helpers + '\n\n' if helpers else '') + '%s\ndef Gen.%s %s : %s :=\n%s' % (
            doc, self.f.name, ' '.join('(%s : %s)' % (p, t) for p, t in self.params()), ty, indent(body))
        return text


def indent(s, n=2):
    return '\n'.join(' ' * n + ln for ln in s.split('\n'))


def const_table(tree, expr_finder, name, kind):
    """literal tables: a tuple/list of string constants -> `List String`; bytes -> `List Nat`"""
    node = expr_finder(tree)
    if node is None:
        raise Untranslatable('constant for %s not found' % name)
    v = ast.literal_eval(node)
    if kind == 'strs':
        if isinstance(v, str):
            v = (v,)
        if not all(isinstance(x, str) for x in v):
            raise Untranslatable('%s: not a tuple of strings' % name)
        return 'def Gen.%s : List String := [%s]' % (name, ', '.join('"%s"' % x.replace('\\', '\\\\').replace('"', '\\"') for x in v))
    if kind == 'bytes':
        if not isinstance(v, bytes):
            raise Untranslatable('%s: not a bytes literal' % name)
        return 'def Gen.%s : List Nat := [%s]' % (name, ', '.join(str(b) for b in v))
    if kind == 'ints':
        return 'def Gen.%s : List Int := [%s]' % (name, ', '.join(str(int(b)) for b in v))
    raise Untranslatable('kind %s' % kind)
