"""Property registry: generators, evaluators, budgets, evidence texts."""
import props_compute as pc

TRUSTED = [
    "Lean 4.33.0 kernel (theorems re-checked by `lake build`; axioms audited with #print axioms: subset of propext, Classical.choice, Quot.sound)",
    "hand-written Lean model lean/ADModel/* (tied to /repo by the correspondence run of this check)",
    "Python harness /verif/harness (generators, observation of the real objects, canonicalisation, predicates)",
    "hook ASTRODENDRO_VERIF=1 in Dendrogram.compute (records the pixel processing order only)",
    "NumPy primitives (argsort/unique/bincount/fancy indexing), IEEE arithmetic outside the exact dyadic domain",
]


class Prop(object):
    def __init__(self, pid, gen, evaluate, quick, thorough, rule, assumptions, theorems):
        self.pid = pid
        self.gen = gen
        self.evaluate = evaluate
        self.quick = quick
        self.thorough = thorough
        self.rule = rule
        self.assumptions = assumptions
        self.theorems = theorems


RULE_COMPUTE = ("cases = seeded structured arrays (1-4 dims, <=48/80 pixels; value kinds perm/small-alphabet/plateau/"
                "nested/chain/checker/random; NaN holes; int8..uint32/float32/float64; thresholds at/between data "
                "values; min_delta at exact differences; min_npix; user criteria; periodic / diagonal adjacency), "
                "each run through the real Dendrogram.compute and the Lean model on the recorded pixel order; "
                "non-trivial = the result has a branch, >=2 trunk structures or an unassigned pixel; distinct = "
                "distinct (shape, values, parameters, adjacency, dtype)")

ASSUME_COMPUTE = [
    "values are exact dyadic rationals k/2^s (|k| small), so comparisons and vmax - value are exact in every dtype used",
    "the recorded processing order is checked per run: duplicate-free, exactly the pixels above the threshold, non-increasing in value",
    "user-supplied adjacency is symmetric (grid, periodic and diagonal adjacencies are)",
]

PROPS = {}


def reg(p):
    PROPS[p.pid] = p


reg(Prop('C01', lambda r, i, t: pc.gen_item(r, i, t, 'C01'), pc.eval_C01, 1600, 12000, RULE_COMPUTE, ASSUME_COMPUTE,
         ['C01_run_partition', 'C01_step_adds_exactly']))
reg(Prop('C02', lambda r, i, t: pc.gen_item(r, i, t, 'C02'), pc.eval_C02, 1600, 12000, RULE_COMPUTE, ASSUME_COMPUTE,
         []))
reg(Prop('C03', lambda r, i, t: pc.gen_item(r, i, t, 'C03'), pc.eval_C03, 1600, 12000, RULE_COMPUTE, ASSUME_COMPUTE,
         ['C03_roots_connected', 'C03_roots_closed']))
reg(Prop('C04', lambda r, i, t: pc.gen_item(r, i, t, 'C04'), pc.eval_C04, 2000, 16000, RULE_COMPUTE, ASSUME_COMPUTE,
         []))
reg(Prop('C05', lambda r, i, t: pc.gen_item(r, i, t, 'C05'), pc.eval_C05, 1600, 12000, RULE_COMPUTE, ASSUME_COMPUTE,
         []))
reg(Prop('C06', lambda r, i, t: pc.gen_item_C06(r, i, t, 'C06'), pc.eval_C06, 1200, 8000, RULE_COMPUTE, ASSUME_COMPUTE,
         []))

HOOK_COMMITS = ['15057e9']
LEVEL_TEXT = {}
LEVEL_NOTE = {}
PENDING_REASON = {}
