"""Property registry: generators, evaluators, budgets, evidence texts."""
import props_compute as pc

TRUSTED = [
    "Lean 4.33.0 kernel (theorems re-checked by `lake build`; axioms audited with #print axioms: subset of propext, Classical.choice, Quot.sound)",
    "hand-written Lean model lean/ADModel/* (tied to /repo by the correspondence run of this check)",
    "Python harness /verif/harness (generators, observation of the real objects, canonicalisation, predicates)",
    "hook ASTRODENDRO_VERIF=1 in Dendrogram.compute (records the pixel processing order only)",
    "NumPy primitives (argsort/unique/bincount/fancy indexing), IEEE arithmetic outside the exact dyadic domain",
]


class Prop(object):
    def __init__(self, pid, gen, evaluate, quick, thorough, rule, assumptions, theorems):
        self.pid = pid
        self.gen = gen
        self.evaluate = evaluate
        self.quick = quick
        self.thorough = thorough
        self.rule = rule
        self.assumptions = assumptions
        self.theorems = theorems


RULE_COMPUTE = ("cases = seeded structured arrays (1-4 dims, <=48/80 pixels; value kinds perm/small-alphabet/plateau/"
                "nested/chain/checker/random; NaN holes; int8..uint32/float32/float64; thresholds at/between data "
                "values; min_delta at exact differences; min_npix; user criteria; periodic / diagonal adjacency), "
                "each run through the real Dendrogram.compute and the Lean model on the recorded pixel order; "
                "non-trivial = the result has a branch, >=2 trunk structures or an unassigned pixel; distinct = "
                "distinct (shape, values, parameters, adjacency, dtype)")

ASSUME_COMPUTE = [
    "values are exact dyadic rationals k/2^s (|k| small), so comparisons and vmax - value are exact in every dtype used",
    "the recorded processing order is checked per run: duplicate-free, exactly the pixels above the threshold, non-increasing in value",
    "user-supplied adjacency is symmetric (grid, periodic and diagonal adjacencies are)",
]

PROPS = {}


def reg(p):
    PROPS[p.pid] = p


reg(Prop('C01', lambda r, i, t: pc.gen_item(r, i, t, 'C01'), pc.eval_C01, 1600, 12000, RULE_COMPUTE, ASSUME_COMPUTE,
         ['C01_run_partition', 'C01_step_adds_exactly']))
reg(Prop('C02', lambda r, i, t: pc.gen_item(r, i, t, 'C02'), pc.eval_C02, 1600, 12000, RULE_COMPUTE, ASSUME_COMPUTE,
         ['C02_arity', 'C02_iteration_is_prefix_order', 'C02_parent_before_child', 'C02_temp_ids_unique', 'C02_final_ids']))
reg(Prop('C03', lambda r, i, t: pc.gen_item(r, i, t, 'C03'), pc.eval_C03, 1600, 12000, RULE_COMPUTE, ASSUME_COMPUTE,
         ['C03_all_connected', 'C03_roots_closed', 'C03_contour', 'C03_branch_own_le_sub']))
reg(Prop('C04', lambda r, i, t: pc.gen_item(r, i, t, 'C04'), pc.eval_C04, 2000, 16000, RULE_COMPUTE, ASSUME_COMPUTE,
         ['C04_new_leaf', 'C04_join_one', 'C04_insignificant_iff', 'C04_branch', 'C04_one_remains', 'C04_none_remains', 'C04_unique_of_distinct', 'C04_minDelta_merge', 'C04_minNpix', 'C04_allTrue', 'C04_seeds_exact']))
reg(Prop('C05', lambda r, i, t: pc.gen_item(r, i, t, 'C05'), pc.eval_C05, 1600, 12000, RULE_COMPUTE, ASSUME_COMPUTE,
         ['C05_parented_leaf_significant', 'C05_meeting_pixel', 'C05_builtin', 'C05_orphan_leaf']))
reg(Prop('C06', lambda r, i, t: pc.gen_item_C06(r, i, t, 'C06'), pc.eval_C06, 1200, 8000, RULE_COMPUTE, ASSUME_COMPUTE,
         []))

HOOK_COMMITS = ['15057e9']
LEVEL_TEXT = {}
LEVEL_NOTE = {}
PENDING_REASON = {}

import props_history as ph  # noqa: E402

RULE_HISTORY = ("histories = a seeded structured array (as for C01) computed, then 1-4 prunes with parameters at "
                "comparison boundaries / inherited (0) / user criteria, each preceded by a random set of cache-warming "
                "queries, the last prune repeated; non-trivial = at least one structure was removed; distinct = distinct "
                "(array, parameters, operation list)")
reg(Prop('C07', ph.gen_item_C07, ph.eval_C07, 1200, 8000, RULE_HISTORY, ASSUME_COMPUTE, []))
reg(Prop('C08', ph.gen_item_C08, ph.eval_C08, 1200, 8000,
         "pairs (compute loosely then prune strictly) vs (compute strictly) on the same seeded array; modes: min_npix only, "
         "min_delta only, both; non-trivial = the prune removed a structure", ASSUME_COMPUTE, []))
reg(Prop('C14', ph.gen_item_C14, ph.eval_C14, 800, 6000,
         "histories of 2-10 operations (cache-warming queries, prunes, Newick export, save/load in both formats, plotter "
         "construction) on a seeded computed dendrogram; after every step all observables are compared with the model "
         "(a function of the current forest) and with a dendrogram rebuilt from links, label map and data; non-trivial = a "
         "prune removed a structure", ASSUME_COMPUTE, []))
