"""Property registry: generators, evaluators, budgets, evidence texts."""
import props_compute as pc

TRUSTED = [
    "Lean 4.33.0 kernel (theorems re-checked by `lake build`; axioms audited with #print axioms: subset of propext, Classical.choice, Quot.sound)",
    "hand-written Lean model lean/ADModel/* (tied to /repo by the correspondence run of this check)",
    "translators harness/py2lean.py (scalar decision logic) and harness/py2heap.py (object-level statements: attribute reads / writes, list operations, loops on Structure objects -> functions on the object heap) + fragment specifications harness/genspec.py (lean/ADGen/Gen.lean is regenerated from the source on every run and the equivalence theorems lean/ADGen/Equiv*.lean are re-checked against it; which source expressions are opaque atoms, which attributes lie outside the heap view, and that a `while` loop is a fuel-bounded recursion, are trusted)",
    "Python harness /verif/harness (generators, observation of the real objects, canonicalisation, predicates)",
    "hook ASTRODENDRO_VERIF=1 in Dendrogram.compute (records the pixel processing order only)",
    "NumPy primitives (argsort/unique/bincount/fancy indexing), IEEE arithmetic outside the exact dyadic domain",
]


class Prop(object):
    def __init__(self, pid, gen, evaluate, quick, thorough, rule, assumptions, theorems):
        self.pid = pid
        self.gen = gen
        self.evaluate = evaluate
        self.quick = quick
        self.thorough = thorough
        self.rule = rule
        self.assumptions = assumptions
        self.theorems = theorems


RULE_COMPUTE = ("cases = seeded structured arrays (1-4 dims, <=48/80 pixels; value kinds perm/small-alphabet/plateau/"
                "nested/chain/checker/random; NaN holes; int8..uint32/float32/float64; thresholds at/between data "
                "values; min_delta at exact differences; min_npix; user criteria; periodic / diagonal adjacency), "
                "each run through the real Dendrogram.compute and the Lean model on the recorded pixel order; "
                "non-trivial = the run contained a meeting of >= 2 structures (rule counts measured by the model: nonekept / onekept / branch); distinct = "
                "distinct (shape, values, parameters, adjacency, dtype)")

ASSUME_COMPUTE = [
    "values are exact dyadic rationals k/2^s (|k| small), so comparisons and vmax - value are exact in every dtype used",
    "the recorded processing order is checked per run: duplicate-free, exactly the pixels above the threshold, non-increasing in value",
    "user-supplied adjacency is symmetric (grid, periodic and diagonal adjacencies are)",
]

PROPS = {}


def reg(p):
    PROPS[p.pid] = p


reg(Prop('C01', lambda r, i, t: pc.gen_item(r, i, t, 'C01'), pc.eval_C01, 8000, 600000, RULE_COMPUTE, ASSUME_COMPUTE,
         ['C01_run_partition', 'C01_step_adds_exactly', 'C01_assigned_iff', 'C01_dropped_whole', 'C01_assigned_once', 'C01_default_min_lt', 'C01_default_min_old_iff', 'C01_default_min_old_witness', 'C01_label_map_refines', 'C01_label_map_domain', 'C01_final_label_map', 'C01_final_label_none_iff', 'C01_final_labels_are_ids']))
reg(Prop('C02', lambda r, i, t: pc.gen_item_C02(r, i, t, 'C02'), pc.eval_C02, 6000, 300000, RULE_COMPUTE, ASSUME_COMPUTE,
         ['C02_arity', 'C02_iteration_is_prefix_order', 'C02_parent_before_child', 'C02_temp_ids_unique', 'C02_final_ids', 'C02_compute_ids', 'C02_compute_arity', 'C02_reachable_wellformed']))
reg(Prop('C03', lambda r, i, t: pc.gen_item(r, i, t, 'C03'), pc.eval_C03, 6000, 400000, RULE_COMPUTE, ASSUME_COMPUTE,
         ['C03_all_connected', 'C03_roots_closed', 'C03_contour', 'C03_branch_own_le_sub', 'C03_trunk_eq_components', 'C03_compute_all_connected']))
reg(Prop('C04', lambda r, i, t: pc.gen_item(r, i, t, 'C04'), pc.eval_C04, 8000, 600000, RULE_COMPUTE, ASSUME_COMPUTE,
         ['C04_new_leaf', 'C04_join_one', 'C04_insignificant_iff', 'C04_branch', 'C04_one_remains', 'C04_none_remains', 'C04_unique_of_distinct', 'C04_minDelta_merge', 'C04_minNpix', 'C04_allTrue', 'C04_seeds_exact', 'C04_sorted_check_sound', 'C04_nodup_check_sound', 'C04_cover_check_sound', 'C04_strict_of_distinct', 'C04_label_mechanism_refines', 'C04_adjacent_by_labels', 'C04_ancestor_is_root', 'C04_objects_refine_construction', 'C04_ancestor_sound_in_compute']))
reg(Prop('C05', lambda r, i, t: pc.gen_item(r, i, t, 'C05'), pc.eval_C05, 6000, 400000, RULE_COMPUTE, ASSUME_COMPUTE,
         ['C05_parented_leaf_significant', 'C05_meeting_pixel', 'C05_builtin', 'C05_orphan_leaf', 'C05_leaf_peak_regmax', 'C05_leaves_distinct_maxima', 'C05_regmax_has_leaf']))
reg(Prop('C06', lambda r, i, t: pc.gen_item_C06(r, i, t, 'C06'), pc.eval_C06, 5000, 250000, RULE_COMPUTE, ASSUME_COMPUTE,
         ['C06_label_iff', 'C06_unlabelled_iff', 'C06_indices_own', 'C06_indices_subtree', 'C06_npix_subtree', 'C06_vmax_add', 'C06_vmin_add', 'C06_vmax_merge', 'C06_vmin_merge', 'C06_vmax_is_max', 'C06_vmin_is_min', 'C06_peak_own', 'C06_peak_subtree', 'C06_compute_wf', 'C06_prune_wf']))

HOOK_COMMITS = ['15057e9']
LEVEL_TEXT = {
 'C01': "Lean theorems for every environment, order and criterion: the loop assigns each processed pixel to exactly one structure (C01_run_partition), after the whole of compute a pixel is assigned iff processed and not in a dropped parentless leaf, which is dropped as a whole (C01_assigned_iff, C01_dropped_whole, C01_assigned_once); the default threshold lies below the minimum (repaired; the old wrap-around is proved as a witness). Tied to the code by running Dendrogram.compute and the model on the recorded pixel order and comparing partition and assigned mask; an independent predicate recomputes the clause on the real output.",
 'C02': "Forest shape is by construction of the model's inductive Tree (the harness checks pointers and child lists are two views of one forest on the real objects); proved: branches have >= 2 children, iteration = prefix order with parents first, identifiers distinct and 0..N-1 after relabelling; after prune (C07_*) and load (C09_reload_*); level / ancestor / descendants agree with links for every history (C14_history_sound). Correspondence after compute, prune with warm-up queries, and load.",
 'C03': "Proved for any symmetric adjacency, any criteria, ties allowed: every structure is connected, roots are mutually non-adjacent and are exactly the connected components (C03_trunk_eq_components), outside neighbours of a parented structure are no brighter than any of its pixels (C03_contour), without pruning branch pixels lie below substructures; all grid adjacencies are symmetric (C17_grid_symmetric).",
 'C04': "The model's step IS the documented construction; its rules are stated outright as theorems, and uniqueness for distinct values is proved. The check compares own pixels and parent relation of the real result with the model run on the SAME recorded order: a disagreement is a failing input of the property. Thorough tier enumerates all value orderings on grids of <= 9 pixels and all 3-letter arrays (1,976,604 cases).",
 'C05': "Proved: every child passed the significance test at the creating pixel of its parent, which is the brightest outside neighbour; parentless leaves pass the value-less criteria; and without pruning the leaves are in bijection with the plateau-aware regional maxima (C05_leaf_peak_regmax, C05_leaves_distinct_maxima, C05_regmax_has_leaf), ties allowed.",
 'C06': "Proved for every well-formed forest (hence computed, pruned and loaded ones, P30 glue): label map names the unique owner, both subtree modes of the tree-index slices are exactly own pixels / region, subtree counts, incremental = derived min/max, peaks attain the maximum inside the region. Accessors of the real objects compared with the model and with data + label map.",
 'C07': "Proved for arbitrary criteria functions: the loop reaches a fixpoint where every leaf passes, regions / identifiers / pixels preserved, parent = nearest surviving former ancestor, own-pixel transfer, arity and distinct ids preserved, idempotence, no-op, parameter bookkeeping. Histories of 1-4 prunes with warm-up queries compared with the model after every step.",
 'C08': "False of the code for min_delta (known finding K1, proved by witness); proved: for min_npix the property holds of the code as it is for every input (C08_npix), and with the original-merge-level rule it holds for min_delta and min_npix together (C08_full) - that rule is the arbiter used to classify K1, so any other deviation is still reported.",
 'C09': "Proved: the implementation's level-by-level Newick parser (modelled step by step) and a reference parser invert the writer (all forests, distinct ids), the encoding is injective, ids and %.3f heights are well formed, regrouping from the label map is right, a save/load cycle preserves ids, children and their order, own pixel sets, label map; format identification by extension / signature with disjoint tables. Container libraries are trusted; real FITS/HDF5 round trips are compared field by field.",
 'C10': "Proved over exact rationals: mom0/1/2 are sum, weighted mean, weighted covariance (symmetric, positive semi-definite), direction length/sign invariance, basis directions, translation laws, eigenvalue ordering bookkeeping, and transparency of the memoize wrapper for every call history. The eigen-solver is a contract checked numerically on every run.",
 'C11': "Proved: independence of the declared velocity axis under transposition, non-negativity of trace / determinant / v_rms^2 (Cauchy-Schwarz) so sigmas are real, non-negative, ordered; re-embedding of sky axes (repaired; old defect as witness). sqrt / atan2 / eigh are outside the model: sum and product of squared sigmas are compared, position angle is checked numerically.",
 'C12': "Proved: rows are one per structure, sorted by identifier, each the statistic of that structure alone; the edge-wrap heuristic never widens, moves by whole periods only, is a no-op on intervals (non-periodic data) and on narrow structures, and unwraps straddling ones. Catalogs of real dendrograms compared row by row; shift invariance on periodic data.",
 'C13': "Proved for arbitrary constants: additivity, linearity, unit invariance, output unit, Rayleigh-Jeans factor with beam cancellation, and the whole error table (a number iff family supported, required items present and well-dimensioned, output a flux density). Astropy's unit engine is trusted; results compared with exact rationals and with the textbook formula.",
 'C14': "Proved on an object-heap model mirroring the cache code assignment by assignment: for every history of cached queries and prunes every observation equals the one computed from the live links (C14_history_sound); the same for the pixel-count and peak caches on a second heap model with own pixel lists (C14_pix_history_sound: get_npix / get_peak answers of every history equal those of a fresh object graph); the code before the repair is proved stale by witnesses. Every history is mirrored query by query on the heap model (answers and cache fill state) and compared with a dendrogram rebuilt from links, label map and data.",
 'C15': "Definitional in the model (compute is a function); proved: the repaired significance test is width-free, the old one was not (witness); determinism for distinct values. The check runs every case as repeat / verbose / layouts / dtypes / after a prelude and requires identical results equal to the model. Known finding K4: with ties the unstable, dtype-specific argsort makes the result depend on the dtype.",
 'C16': "Proved: the whole pixel loop is equivariant under any pixel renaming preserving adjacency and any order-preserving value map (C16_run_equivariant), instantiated for arbitrary axis permutations, flips, unit axes, padding, affine maps with the built-in criteria; threshold restriction for distinct values without pruning; ties clause: the number of leaves without pruning is invariant under every such transformation whatever the tie order (C16_leaf_count_invariant), assigned pixels / trunk regions are order-independent for monotone criteria (C17_assigned_order_independent) and not for min_sum on negative data (C16_K6_witness, known finding K6).",
 'C17': "Proved: characterisation of the periodic adjacency on one axis and in coordinates (wraps exactly on declared axes, lengths 1 and 2 included), symmetry, shift automorphism, and shift invariance of the whole run (C17_shift_invariance); ties clause: assigned pixels and trunk regions do not depend on the order of equal values for criteria that can only turn true as a structure grows (C17_assigned_order_independent, C17_trunk_regions_order_independent, C17_root_survives_iff), the hypothesis cannot be dropped (C17_K5_witness, known finding K5), leaf count without pruning is order-independent.",
 'C18': "Proved: stable sorting by key in both directions, leaves at distinct positions below the leaf count, every structure's leaves contiguous, branch between its outermost children, line geometry and mapping. Positions (exact rationals) and all segments compared with the model, incl. all 625 forest shapes <= 7 nodes in the thorough tier; Matplotlib is trusted to draw what it is given.",
 'C19': "Proved on a state-machine model of hub and viewers: click / pick / lasso semantics, slot independence, exactly-once notification, highlighted lines = selection with descendants, mask = region, scatter rows round trip. A head-less Agg viewer with linked Scatter is driven with synthetic events and compared after every event. Partial: rendering and GUI event delivery are Matplotlib's.",
 'C20': "Proved: the specified relation stated outright, canonical label form equal iff same partition, symmetry, reflexivity; the operator as implemented characterised exactly and proved to ignore the other operand's structures (known finding D10, not repairable without breaking 6 pinned tests). The real == is compared with the Lean eqD on every pair; deviations other than D10 are reported.",
}
LEVEL_NOTE = {}
PENDING_REASON = {}

import props_history as ph  # noqa: E402

RULE_HISTORY = ("histories = a seeded structured array (as for C01) computed, then 1-4 prunes with parameters at "
                "comparison boundaries / inherited (0) / user criteria, each preceded by a random set of cache-warming "
                "queries, the last prune repeated; non-trivial = at least one structure was removed; distinct = distinct "
                "(array, parameters, operation list)")
reg(Prop('C07', ph.gen_item_C07, ph.eval_C07, 5000, 250000, RULE_HISTORY, ASSUME_COMPUTE,
         ['C07_every_leaf_passes', 'C07_regions_preserved', 'C07_pixels_preserved', 'C07_trunk_step', 'C07_arity_preserved',
          'C07_ids_preserved', 'C07_nearest_surviving_ancestor', 'C07_own_transfer', 'C07_idempotent', 'C07_noop', 'C07_params_monotone', 'C07_params_zero_inherits', 'C07_heap_loop_refines', 'C07_heap_prune_is_prune']))
reg(Prop('C08', ph.gen_item_C08, ph.eval_C08, 5000, 300000,
         "pairs (compute loosely then prune strictly) vs (compute strictly) on the same seeded array; modes: min_npix only, "
         "min_delta only, both; non-trivial = the prune removed a structure", ASSUME_COMPUTE, ['C08_counterexample_criterion', 'C08_ruleOrig_agrees_on_witness', 'C08_ruleOrig_eq_computeTime', 'C08_npix', 'C08_full', 'C08_npix_same_test', 'C08_zero_inherits']))
reg(Prop('C14', ph.gen_item_C14, ph.eval_C14, 3000, 100000,
         "histories of 2-10 operations (cache-warming queries, prunes, Newick export, save/load in both formats, plotter "
         "construction) on a seeded computed dendrogram; after every step all observables are compared with the model "
         "(a function of the current forest) and with a dendrogram rebuilt from links, label map and data; non-trivial = a "
         "prune removed a structure", ASSUME_COMPUTE, ['C14_history_sound', 'C14_level', 'C14_descendants', 'C14_prune_sound', 'C14_prune_resets_all', 'C14_descendants_nodup', 'C14_old_stale_level', 'C14_old_stale_descendants', 'C14_old_stale_newick', 'C14_pix_history_sound', 'C14_get_peak', 'C14_get_npix', 'C14_pix_prune_resets_all', 'C14_merge_keeps_count', 'C14_heap_prune_refines', 'C14_heap_pruneAt_refines', 'C14_heap_spec_is_tree_obs', 'C14_compute_establishes_sound']))

import props_analysis as pa  # noqa: E402

ASSUME_ANALYSIS = [
    "floating point: the implementation's float64 results are compared with exact rationals to relative 1e-9 (2e-5 against the exact pi/(4 ln 2) where the code uses the literal 1.1331)",
    "LAPACK eigh: real orthonormal eigenvectors of a real symmetric matrix (checked numerically on every run: residual, orthonormality, order)",
    "Astropy units implement dimensional analysis and the physical constants (compared numerically with the model's exact SI factors)",
]
reg(Prop('C10', pa.gen_item_C10, pa.eval_C10, 5000, 400000,
         "seeded pixel sets in 1-4 dimensions (random / collinear / equal-weight / single pixel; positive dyadic weights; NaNs), a random "
         "direction, a translation vector, a random call order interleaved with calls on other live statistic objects; implementation floats vs "
         "the Lean model's exact rationals; non-trivial = at least two pixels", ASSUME_ANALYSIS, ['C10_mom0_sum', 'C10_mom1_weighted_mean', 'C10_mom2_covariance', 'C10_mom2_symm', 'C10_mom2_psd', 'C10_along_scale_invariant', 'C10_along_basis', 'C10_translate_mom0', 'C10_translate_mom1', 'C10_translate_mom2', 'C10_order_desc', 'ADProps::C10_memo_transparent', 'ADProps::C10_memo_transparent_empty']))
reg(Prop('C13', pa.gen_item_C13, pa.eval_C13, 5000, 400000,
         "seeded value arrays x five input families x equivalent unit spellings x metadata values/units x output units; every third case is an "
         "error-table case (each way of omitting / mis-typing a required item, unsupported input, non-flux output); implementation vs Lean "
         "model (exact rationals) and vs the textbook formula computed independently", ASSUME_ANALYSIS, ['C13_additive', 'C13_linear', 'C13_unit_invariant', 'C13_output_unit', 'C13_temp_factor', 'C13_ok_iff', 'C13_unsupported']))

import props_invariance as pi  # noqa: E402

reg(Prop('C15', pi.gen_item_C15, pi.eval_C15, 1500, 40000,
         "each seeded case (incl. int8- and uint8-range data with large min_delta) is computed as given and again as: repeat, verbose, "
         "Fortran / strided / read-only layout, every integer and float dtype that holds the values exactly, and after a random prelude of "
         "compute / prune / plot / Newick / save on other dendrograms; all variants must give identical structures, ids, label map and "
         "Newick text, equal to the model; inputs must be unchanged", ASSUME_COMPUTE, ['C15_signif_width_free', 'C15_signif_old_eq_of_inRange', 'C15_signif_old_witness', 'C15_deterministic']))
reg(Prop('C16', pi.gen_item_C16, pi.eval_C16, 2500, 120000,
         "each seeded case is transformed by a random axis permutation, a flip, an inserted unit axis, a NaN / below-threshold border, an affine "
         "map a*v+b (a a power of two) with mapped min_value / min_delta, a strictly increasing map (no pruning) and a raised threshold; "
         "hierarchy compared on mapped pixels for distinct values, trunk regions / assigned pixels / leaf count for ties; every run is also "
         "compared with the model", ASSUME_COMPUTE, ['C16_run_equivariant', 'C16_similarity_regions', 'C16_similarity_parent', 'C16_similarity_counts', 'C16_similarity_trunk', 'C16_affine_builtin', 'C16_rename_builtin', 'C16_axis_permutation', 'C16_flip', 'C16_unit_axis', 'C16_pad', 'C16_threshold_restriction', 'C16_leaf_count_invariant', 'C16_K6_witness']))
reg(Prop('C17', pi.gen_item_C17, pi.eval_C17, 3000, 200000,
         "arrays in 1-4 dimensions with axes of length 1-6, a random non-empty subset of periodic axes (passed as int or list), cyclic shifts "
         "by 1, n-1, n and a random amount along a periodic axis; contour predicate with an independent adjacency (wrap on declared axes "
         "only), model correspondence", ASSUME_COMPUTE, ['C17_axis', 'C17_neighbours', 'C17_grid_symmetric', 'C17_shift_automorphism', 'C17_shift_invariance', 'C17_assigned_order_independent', 'C17_trunk_regions_order_independent', 'C17_root_survives_iff', 'C17_K5_witness', 'C17_leaf_count_order_independent', 'C17_padding_cells_inert']))
reg(Prop('C20', pi.gen_item_C20, pi.eval_C20, 4000, 300000,
         "pairs of dendrograms: same call twice, different min_delta/min_npix, different user criteria, one pixel changed, NaN mask changed, "
         "saved-and-loaded copy, pruned copy, reshaped data, different min_value, non-dendrogram objects; both argument orders",
         ASSUME_COMPUTE, ['C20_spec_iff', 'C20_canon_iff_same_partition', 'C20_symm', 'C20_refl', 'C20_impl_iff', 'C20_spec_implies_impl', 'C20_impl_ignores_structures', 'C20_fingerprint_weaker']))

for _p in ('C10', 'C11', 'C12', 'C13'):
    if _p in PROPS:
        PROPS[_p].lib = 'ADPropsM'

import props_io as pio  # noqa: E402

ASSUME_IO = ASSUME_COMPUTE + ["astropy.io.fits / h5py store and return arrays, strings and scalars faithfully (container libraries are trusted)",
                              "Matplotlib artists draw what they are given: the harness observes the arguments (segments, masks), not pixels"]
reg(Prop('C09', pio.gen_item_C09, pio.eval_C09, 2500, 60000,
         "three streams: (1) seeded dendrograms (1-4 dims, float/int dtypes, NaNs, negative values, optionally pruned -> id gaps) saved and "
         "loaded in FITS / HDF5, explicit or auto-detected format, str or Path, upper-case extensions, with / without WCS, compared field by "
         "field and with the model's reload; (2) random ordered forests (multi-digit ids, negative / large / tiny heights) through the text "
         "writer format and parse_newick, compared with the model's step-by-step parser and its reference parser; (3) file names x modes x "
         "file signatures through the handler table, incl. unrecognisable targets", ASSUME_IO, ['C09_parseDescent_print', 'C09_parseImpl_print', 'C09_newick_roundtrip', 'C09_print_injective', 'C09_id_roundtrip', 'C09_fmt3_good', 'C09_regroup_correct', 'C09_reload_shape', 'C09_reload_own', 'C09_reload_labelMap', 'C09_reload_same_hierarchy', 'C09_reload_idempotent', 'C09_identify_write', 'C09_identify_read', 'C09_identify_unique', 'C09_identify_explicit']))
reg(Prop('C18', pio.gen_item_C18, pio.eval_C18, 2500, 100000,
         "seeded dendrograms (computed / pruned / loaded), default and custom sort keys (id table, negated peak, pixel count), reverse on/off, "
         "a selected structure given as object / id / list with and without subtree, contour masks captured at Axes.contour; positions and "
         "line segments compared with the model (exact rationals)", ASSUME_IO, ['C18_sorted_by_key', 'C18_leaf_positions', 'C18_subtree_contiguous', 'C18_branch_between', 'C18_lines_vertical', 'C18_lines_mapping', 'C18_lines_count', 'C18_disjoint_subtrees', 'C18_child_within_span']))

reg(Prop('C11', pa.gen_item_C11, pa.eval_C11, 4000, 300000,
         "seeded pixel sets in 3-D (all three vaxis) and 2-D, with / without spatial_scale and velocity_scale, linear WCS, metadata omissions "
         "and mistypings; major/minor sigma (through sum and product of squares), v_rms, centroids, exact area vs the Lean model's exact "
         "rationals; definitions (eigenvalues of the sky block, radius, ellipse area, position angle), units, scaling and vaxis "
         "invariance evaluated directly on the implementation", ASSUME_ANALYSIS, ['C11_vaxis_invariant', 'C11_sigma_sq_nonneg', 'C11_eigenvalues_real', 'C11_embed', 'C11_embed_old_witness', 'C11_vrms_def', 'C11_scale_linear']))
reg(Prop('C12', pa.gen_item_C12, pa.eval_C12, 1500, 40000,
         "seeded 2-D and 3-D dendrograms (optionally pruned -> id gaps; optionally a sub-list of structures), default or random field subsets, "
         "verbose on/off; every row compared with the statistic of that structure alone (index arrays unwrapped by the Lean model of the "
         "heuristic); periodic data re-computed under a cyclic shift: shape statistics of narrow structures unchanged, centroid moved by "
         "the shift modulo the axis length", ASSUME_ANALYSIS, ['C12_wrap_noop_narrow', 'C12_wrap_cases', 'C12_wrap_period', 'C12_wrap_never_wider', 'C12_wrap_unwraps', 'C12_wrap_noop_one_side', 'C12_wrap_noop_of_interval', 'C12_interval_of_unit_steps', 'ADProps::C12_rows_ids', 'ADProps::C12_rows_faithful']))
PROPS['C11'].lib = 'ADPropsM'
PROPS['C12'].lib = 'ADPropsM'

import props_viewer as pv  # noqa: E402

reg(Prop('C19', pv.gen_item_C19, pv.eval_C19, 320, 6000,
         "seeded 2-D and 3-D dendrograms (optionally pruned -> id gaps) opened in a head-less Agg viewer with a linked Scatter and 0-2 extra "
         "registered callbacks; sequences of 2-6 synthetic events (pixel clicks incl. unowned pixels, line picks of 1-2 lines, lassos around "
         "0-3 catalog rows, slice changes) over the three slots; after every event selections, subtree flags, highlighted lines, label text, "
         "contour masks (captured at Axes.contour), highlighted scatter rows and the callback log are compared with the Lean hub model",
         ASSUME_IO + ["rendering and real GUI event delivery are Matplotlib's: events are synthetic objects with the attributes the handlers read"], ['C19_click', 'C19_cleared', 'C19_slots_independent', 'C19_notify_once', 'C19_highlight_subtree', 'C19_lasso', 'C19_lasso_rows', 'C19_lasso_empty', 'C19_pick']))

for _p, _b in (('C19', 8), ('C12', 30), ('C15', 30), ('C09', 60), ('C18', 60)):
    PROPS[_p].shrink_budget = _b
PROPS['C19'].max_kinds = 2

import gen as _gen  # noqa: E402

for _p in ('C01', 'C02', 'C03', 'C04', 'C05'):
    PROPS[_p].exhaustive = (_gen.EXHAUSTIVE_TOTAL, lambda i: {'case': _gen.exhaustive_compute_case(i), 'ops': []},
                            'all value orderings on grids %r and all arrays over a 3-letter alphabet on grids %r, each under (min_delta, min_npix) in %r'
                            % (_gen.PERM_GRIDS, _gen.ALPHA_GRIDS, _gen.PARAM_SETS))

PROPS['C18'].exhaustive = (len(_gen.FOREST_SHAPES) * 6, pio.exhaustive_item_C18,
                           'all %d ordered forest shapes with <= 7 structures (built through the library loader, one pixel per structure) x reverse on/off x three sort keys' % len(_gen.FOREST_SHAPES))
