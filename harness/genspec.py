"""Fragments of /repo translated to Lean by py2lean on every run, and where each one is used.

`generate(repo)` returns (text of lean/ADGen/Gen.lean, {fragment name: error}) for the source tree `repo`.
`FRAGS[i].props` lists the properties whose check depends on the fragment; `THEOREMS` maps every theorem of
lean/ADGen/Equiv.lean to the fragments it is about.
"""
import ast
import os

from py2lean import Frag, Translator, Untranslatable, const_table, _src
from py2heap import HFrag, HTranslator


def _from_until(start_pred, stop_pred, inclusive=True):
    """the statements from the first one satisfying `start_pred` up to (and with `inclusive` including) the first later
    one satisfying `stop_pred`"""
    def sel(stmts):
        out, on = [], False
        for s in stmts:
            t = _src(s)
            if not on:
                if start_pred(t) and not stop_pred(t):
                    on = True
                    out.append(s)
                continue
            if stop_pred(t):
                if inclusive:
                    out.append(s)
                break
            out.append(s)
        return out
    return sel


def _only(pred):
    return lambda stmts: [s for s in stmts if pred(_src(s))]


S_PTYPES = {'s_hasParent': 'Bool', 'hasValue': 'Bool'}
S_ATOMS = {   # the view a criterion has of the structure it is asked about
    'structure.vmax': ('s_vmax', 'Int'),
    'structure.vmin': ('s_vmin', 'Int'),
    'structure.height': ('s_height', 'Int'),
    'structure.parent is not None': ('s_hasParent', 'Bool'),
    'structure.parent is None': ('(!s_hasParent)', 'Bool'),
    'structure.parent.height': ('p_height', 'Int'),
    'value is None': ('(!hasValue)', 'Bool'),
    'value is not None': ('hasValue', 'Bool'),
    'value': ('value', 'Int'),
    "hasattr(x, 'item')": ('amb_hasItem', 'Bool'),
    'x.item()': ('x_', 'Int'),          # a NumPy scalar's .item() is the same number as a Python scalar
    'x': ('x_', 'Int'),
    'top': ('top_', 'Int'), 'base': ('base_', 'Int'),
}

FRAGS = [
    # ------------------------------------------------------------------ pruning.py
    Frag('min_delta', 'astrodendro/pruning.py', 'min_delta.result',
         dict({'delta': ('delta', 'Int')}, **S_ATOMS), inline=['_py', '_diff'], param_types=S_PTYPES, props=['C04', 'C05', 'C07', 'C08'],
         doc='`pruning.min_delta(delta)`: the three calling modes'),
    Frag('min_npix', 'astrodendro/pruning.py', 'min_npix.result',
         {'npix': ('npix', 'Int'), 'len(structure.values())': ('s_npix', 'Int')}, props=['C04', 'C05', 'C07', 'C08'],
         doc='`pruning.min_npix(npix)`'),
    Frag('min_peak', 'astrodendro/pruning.py', 'min_peak.result',
         {'peak': ('peak', 'Int'), 'structure.vmax': ('s_vmax', 'Int')}, props=['C04', 'C05'],
         doc='`pruning.min_peak(peak)`'),
    Frag('min_sum', 'astrodendro/pruning.py', 'min_sum.result',
         {'sum': ('sum', 'Int'), 'np.nansum(structure.values())': ('s_sum', 'Int')}, props=['C04', 'C05'],
         doc='`pruning.min_sum(sum)`'),
    # ------------------------------------------------------------------ dendrogram.py: compute
    Frag('keep_pixel', 'astrodendro/dendrogram.py', 'Dendrogram.compute',
         {'self.data': ('data', 'Int'), 'min_value': ('min_value', 'Int'), 'isinstance(min_value, float)': ('isFloat', 'Bool'),
          'np.float64(min_value)': ('min_value', 'Int')},      # widening a Python float to float64 keeps the number
         select=_from_until(lambda t: t.startswith('threshold = '), lambda t: t.startswith('keep = '), inclusive=True),
         outputs=['keep'], props=['C01', 'C03', 'C16'],
         doc='which pixels are processed, from the threshold handed in to the comparison (element-wise; NaN compares false '
             'and is absent from the model)'),
    Frag('default_min_int', 'astrodendro/dendrogram.py', 'Dendrogram.compute',
         {"min_value == 'min'": ('isMin', 'Bool'), 'min_value': ('min_value', 'Int'),
          'np.min(data[np.isfinite(data)])': ('dataMin', 'Int'), 'finite_min': ('dataMin', 'Int'),
          'np.issubdtype(data.dtype, np.integer)': ('true', 'Bool'), 'int(finite_min)': ('dataMin', 'Int'),
          'finite_min - 1': ('(0 : Int)', 'Int'), 'np.nextafter(finite_min, -np.inf)': ('(0 : Int)', 'Int')},
         select=_only(lambda t: t.startswith("if min_value == 'min'")), outputs=['min_value'], mutable=['min_value', 'finite_min'],
         props=['C01'], doc='default threshold, integer data (Python integers: no wrap-around)'),
    Frag('default_min_float', 'astrodendro/dendrogram.py', 'Dendrogram.compute',
         {"min_value == 'min'": ('isMin', 'Bool'), 'min_value': ('min_value', 'Int'),
          'np.min(data[np.isfinite(data)])': ('dataMin', 'Int'), 'finite_min': ('dataMin', 'Int'),
          'np.issubdtype(data.dtype, np.integer)': ('false', 'Bool'),
          'finite_min - 1': ('(fsub1 dataMin)', 'Int'), 'np.nextafter(finite_min, -np.inf)': ('(nextDown dataMin)', 'Int'),
          'int(finite_min) - 1': ('(0 : Int)', 'Int')},
         select=_only(lambda t: t.startswith("if min_value == 'min'")), outputs=['min_value'], mutable=['min_value', 'finite_min'],
         param_types={'fsub1': 'Int → Int', 'nextDown': 'Int → Int'},
         props=['C01'], doc='default threshold, floating-point data: finite floats are represented by their rank in the '
                            'total order of finite floats; `fsub1` (rounded subtraction of 1) and `nextDown` are parameters'),
    Frag('insignificant', 'astrodendro/dendrogram.py', 'Dendrogram.compute',
         {'structure.is_leaf': ('isLeaf', 'Bool'), 'structure.vmax': ('s_vmax', 'Int'), 'data_value': ('value', 'Int'),
          'is_independent(structure, index=coord, value=data_value)': ('indep', 'Bool')},
         select=None, outputs='return', props=['C04', 'C05'],
         doc='the condition of the `merge` list comprehension: which adjacent structures are absorbed'),
    Frag('meeting_case', 'astrodendro/dendrogram.py', 'Dendrogram.compute',
         {'not adjacent': ('(nAdj == 0)', 'Bool'), 'len(adjacent) == 1': ('(nAdj == 1)', 'Bool')},
         outputs='return', props=['C04'], params=[('nAdj0', 'Int'), ('nAdj', 'Int')],
         doc='the three-way case analysis on the number of adjacent structures (before and after removing the absorbed ones); '
             'the result is the number of the branch taken: 0 new leaf, 1 join, 2 none kept, 3 one kept, 4 new branch'),
    # ------------------------------------------------------------------ dendrogram.py: prune, __eq__, structure_at
    Frag('prune_params', 'astrodendro/dendrogram.py', 'Dendrogram.prune',
         {'min_delta': ('min_delta', 'Int'), 'min_npix': ('min_npix', 'Int'),
          "self.params['min_delta']": ('rec_delta', 'Int'), "self.params['min_npix']": ('rec_npix', 'Int')},
         mutable=['min_delta', 'min_npix', "self.params['min_delta']", "self.params['min_npix']"],
         select=_from_until(lambda t: True, lambda t: t.startswith('tests = '), inclusive=False),
         ignore=[(r'^warnings\.warn\(', 2)],
         outputs=['min_delta', 'min_npix', "self.params['min_delta']", "self.params['min_npix']"], props=['C07', 'C20'],
         doc='`prune`: effective parameters (0 inherits) and the recorded ones (never decrease)'),
    Frag('eq_params', 'astrodendro/dendrogram.py', 'Dendrogram.__eq__',
         {"self.params['min_value'] != other.params['min_value']": ('(!sameMinValue)', 'Bool'),
          "self_params['min_npix']": ('a_npix', 'Int'), "other_params['min_npix']": ('b_npix', 'Int'),
          "self_params['min_delta']": ('a_delta', 'Int'), "other_params['min_delta']": ('b_delta', 'Int')},
         param_types={'sameMinValue': 'Bool'},
         select=_from_until(lambda t: t.startswith("if self.params['min_value']"), lambda t: t.startswith('for key in'), inclusive=True),
         ignore=[(r'^(self|other)_params = ', 2), (r'^(self|other)_params\.pop\(', 2)],
         unroll={'key': ["'min_npix'", "'min_delta'"]}, fallthrough='true', props=['C20'],
         doc='`__eq__`: parameter comparison (true = go on to compare the structures)'),
    Frag('structure_at_hit', 'astrodendro/dendrogram.py', 'Dendrogram.structure_at',
         {'idx': ('idx', 'Int'), 'self._structures_dict[idx]': ('true', 'Bool'), 'None': ('false', 'Bool')},
         select=_from_until(lambda t: t.startswith('if idx'), lambda t: False), props=['C01', 'C06'],
         doc='`structure_at`: which label values denote a structure (true = a structure is returned)'),
    Frag('wrap_axis', 'astrodendro/dendrogram.py', 'periodic_neighbours._wrap',
         {'c[a]': ('c', 'Int'), 'shp[a]': ('paddedLen', 'Int')}, mutable=['c[a]'],
         select=lambda stmts: [s for st in stmts if isinstance(st, ast.For) for s in st.body], outputs=['c[a]'], props=['C17', 'C03'],
         doc='`periodic_neighbours._wrap`: what happens to one coordinate of a neighbour on a periodic axis (`shp` is the padded shape)'),
    # ------------------------------------------------------------------ structure.py
    Frag('add_pixel', 'astrodendro/structure.py', 'Structure._add_pixel',
         {'value': ('value', 'Int'), 'index': ('index', 'Int'), 'self._vmin': ('vmin', 'Int'), 'self._vmax': ('vmax', 'Int'),
          'self._smallest_index': ('smallest', 'Int')},
         mutable=['self._vmin', 'self._vmax', 'self._smallest_index'], properties_of='Structure',
         ignore=[r'^self\._indices\.append\(index\)$', r'^self\._values\.append\(value\)$', r'^self\._reset_cache\(\)$'],
         outputs=['self._vmin', 'self._vmax', 'self._smallest_index'], props=['C06'],
         doc='`Structure._add_pixel`: incrementally maintained minimum, maximum and smallest pixel (pixels are flat C-order '
             'indices in the model; tuple comparison of coordinates is the same order)'),
    Frag('merge_summaries', 'astrodendro/structure.py', 'Structure._merge',
         {'structure._vmin': ('o_vmin', 'Int'), 'structure._vmax': ('o_vmax', 'Int'), 'structure.vmin': ('o_vmin', 'Int'),
          'structure.vmax': ('o_vmax', 'Int'), 'structure._smallest_index': ('o_smallest', 'Int'),
          'self._vmin': ('vmin', 'Int'), 'self._vmax': ('vmax', 'Int'), 'self._smallest_index': ('smallest', 'Int')},
         mutable=['self._vmin', 'self._vmax', 'self._smallest_index'], properties_of='Structure',
         ignore=[r'^self\._indices\.extend\(structure\._indices\)$', r'^self\._values\.extend\(structure\._values\)$',
                 r'^self\._reset_cache\(\)$'],
         outputs=['self._vmin', 'self._vmax', 'self._smallest_index'], props=['C06'],
         doc='`Structure._merge`: summaries after absorbing another structure'),
    Frag('tree_index_count', 'astrodendro/dendrogram.py', 'TreeIndex.indices',
         {'self._npix_subtree[sid]': ('nSub', 'Int'), 'self._npix[sid]': ('nOwn', 'Int'), 'subtree': ('subtree', 'Bool')},
         select=_only(lambda t: t.startswith('di = ')), outputs=['di'], props=['C06'],
         doc='`TreeIndex.indices`: length of the slice handed out'),
    # ------------------------------------------------------------------ io
    Frag('is_fits', 'astrodendro/io/fits.py', 'is_fits',
         {"mode == 'r'": ('read', 'Bool'), 'os.path.exists(filename)': ('fileExists', 'Bool'),
          'sig == FITS_SIGNATURE': ('sigOk', 'Bool'),
          "filename.lower().endswith(('.fits', '.fits.gz', '.fit', '.fit.gz'))": ('extOk', 'Bool')},
         ignore=[r"^fileobj = open\(filename, 'rb'\)$", r'^sig = fileobj\.read\(30\)$'], props=['C09'],
         doc='`is_fits`: signature for an existing file opened for reading, extension otherwise'),
    Frag('is_hdf5', 'astrodendro/io/hdf5.py', 'is_hdf5',
         {"mode == 'r'": ('read', 'Bool'), 'os.path.exists(filename)': ('fileExists', 'Bool'),
          'sig == HDF5_SIGNATURE': ('sigOk', 'Bool'),
          "filename.lower().endswith(('.hdf5', '.h5'))": ('extOk', 'Bool')},
         ignore=[r"^fileobj = open\(filename, 'rb'\)$", r'^sig = fileobj\.read\(8\)$'], props=['C09'],
         doc='`is_hdf5`'),
    # ------------------------------------------------------------------ dendrogram.py: prune loop, _make_trunk
    Frag('to_prune_yields', 'astrodendro/dendrogram.py', '_to_prune',
         {'struct.is_leaf': ('isLeaf', 'Bool'), 'struct.idx not in keep_structures': ('(!alive)', 'Bool'),
          'is_independent(struct)': ('indep', 'Bool'), 'parent is None': ('(!hasParent)', 'Bool')},
         param_types={'alive': 'Bool', 'hasParent': 'Bool'},
         select=lambda stmts: [s for w in stmts if isinstance(w, ast.While) for f_ in w.body if isinstance(f_, ast.For) for s in f_.body],
         ignore=[r'^parent = struct\.parent$'], continue_value=('false', 'Bool'), yield_value=('true', 'Bool'),
         props=['C07', 'C08'], doc='`_to_prune`: is the structure under the scan handed to the caller for merging? '
                                  '(`continue` = no, `yield` = yes)'),
    Frag('prune_merge_mode', 'astrodendro/dendrogram.py', 'Dendrogram.prune',
         {'len(siblings)': ('nSib', 'Int'), 'copy.copy(siblings)': ('(2 : Int)', 'Int'), '[struct]': ('(1 : Int)', 'Int')},
         init={'merge': ('(0 : Int)', 'Int')},
         select=lambda stmts: [s for f_ in stmts if isinstance(f_, ast.For) and '_to_prune' in _src(f_.iter)
                               for s in f_.body if isinstance(s, ast.If)],
         outputs=['merge'], props=['C07', 'C08'],
         doc='`prune`: what is merged into the parent of the failing leaf: 2 = both children (two-sibling rule), 1 = the leaf '
             'alone, 0 = `merge` is not (re)assigned'),
    Frag('trunk_drop', 'astrodendro/dendrogram.py', '_make_trunk',
         {'is_independent(leaf)': ('indep', 'Bool')},
         select=lambda stmts: [s for f_ in stmts if isinstance(f_, ast.For) and _src(f_.target) == 'leaf' for s in f_.body],
         ignore=[r'^keep_structures\.pop\(leaf\.idx\)$', r'^dendrogram\.trunk\.remove\(leaf\)$'],
         marks=[(r'^leaf\._fill_footprint\(dendrogram\.index_map, -1\)$', ('dropped', 'true', 'Bool'))],
         outputs=['dropped'], init={'dropped': ('false', 'Bool')},
         props=['C01', 'C05', 'C07'], doc='`_make_trunk`: is a parentless leaf removed? (marked by its footprint being filled with -1)'),
    # ------------------------------------------------------------------ analysis.py: edge-wrap heuristic of _make_catalog
    Frag('wrap_elem', 'astrodendro/analysis.py', '_make_catalog',
         {'index_array': ('x', 'Int'), 'shape': ('n', 'Int')},
         select=lambda stmts: [s for n_ in stmts for s in ast.walk(n_) if isinstance(s, ast.Assign) and _src(s.targets[0]) == 'i2'][:1],
         outputs=['i2'], props=['C12'],
         doc='`_make_catalog`: one element of the candidate index array (`np.where` element-wise; `x < n/2` is `2x < n`)'),
    Frag('wrap_use', 'astrodendro/analysis.py', '_make_catalog',
         {'np.ptp(i2)': ('ptpNew', 'Int'), 'np.ptp(index_array)': ('ptpOld', 'Int')},
         select=lambda stmts: [s for n_ in stmts for s in ast.walk(n_) if isinstance(s, ast.If) and 'np.ptp(i2)' in _src(s.test)][:1],
         marks=[(r'^index_array\[:\] = i2$', ('used', 'true', 'Bool'))], outputs=['used'], init={'used': ('false', 'Bool')},
         props=['C12'], doc='`_make_catalog`: is the candidate taken? (marked by the in-place assignment)'),
    # ------------------------------------------------------------------ flux.py
    Frag('flux_table', 'astrodendro/flux.py', 'compute_flux',
         {'input_quantities.unit.is_equivalent(u.Jy)': ('isFnu', 'Bool'),
          'input_quantities.unit.is_equivalent(u.erg / u.cm ** 2 / u.s / u.m)': ('isFlambda', 'Bool'),
          'input_quantities.unit.is_equivalent(u.MJy / u.sr)': ('isSurf', 'Bool'),
          'input_quantities.unit.is_equivalent(u.Jy / u.beam)': ('isPerBeam', 'Bool'),
          'input_quantities.unit.is_equivalent(u.K)': ('isTemp', 'Bool'),
          'wavelength is not None': ('hasWav', 'Bool'), 'wavelength is None': ('(!hasWav)', 'Bool'),
          'wavelength.unit.is_equivalent(u.m)': ('wavIsLength', 'Bool'),
          'wavelength.unit.is_equivalent(u.m, equivalencies=u.spectral())': ('wavIsLengthOrFreq', 'Bool'),
          'spatial_scale is not None': ('hasPix', 'Bool'), 'spatial_scale is None': ('(!hasPix)', 'Bool'),
          'spatial_scale.unit.is_equivalent(u.degree)': ('pixIsAngle', 'Bool'),
          'beam_major is not None': ('hasBmaj', 'Bool'), 'beam_major is None': ('(!hasBmaj)', 'Bool'),
          'beam_major.unit.is_equivalent(u.degree)': ('bmajIsAngle', 'Bool'),
          'beam_minor is not None': ('hasBmin', 'Bool'), 'beam_minor is None': ('(!hasBmin)', 'Bool'),
          'beam_minor.unit.is_equivalent(u.degree)': ('bminIsAngle', 'Bool'),
          'output_unit.is_equivalent(u.Jy)': ('outIsFnu', 'Bool'),
          # which conversion produced the total: the five families
          'quantity_sum(input_quantities).to(u.Jy)': ('(101 : Int)', 'Int'),
          '(input_quantities * wavelength / nu).to(u.Jy)': ('(102 : Int)', 'Int'),
          '(input_quantities * pixel_area).to(u.Jy)': ('(103 : Int)', 'Int'),
          '(input_quantities * beams_per_pixel).to(u.Jy)': ('(104 : Int)', 'Int'),
          'jansky_per_beam * beams_per_pixel': ('(105 : Int)', 'Int')},
         alias={'quantity_sum(q)': 'q', 'total_flux.to(output_unit)': 'total_flux'},
         param_types=dict((k, 'Bool') for k in ('hasWav', 'hasPix', 'hasBmaj', 'hasBmin')),
         ignore=[(r'^(nu|pixel_area|beams_per_pixel|omega_beam|jansky_per_beam) = ', 7), r'^warnings\.warn\('],
         raise_codes=[('wavelength should be', 1), ('wavelength is needed', 2), ('spatial_scale should be', 3),
                      ('spatial_scale is needed', 4), ('beam_major should be', 5), ('beam_major is needed', 6),
                      ('beam_minor should be', 7), ('beam_minor is needed', 8), ('not yet supported', 9),
                      ('output_unit has to be', 10)],
         ret='Int', props=['C13'],
         doc='`compute_flux`: which unit family is taken, which check fires first (1-10, in the order of `Flux.Outcome`), or '
             'which conversion yields the result (101-105)'),
]


# ---------------------------------------------------------------------- object-level fragments (py2heap): statements that
# read and write attributes of Structure objects, translated to functions on the object heap of ADModel/Cache.lean
_ST, _DD = 'astrodendro/structure.py', 'astrodendro/dendrogram.py'
_INLINE = {'_reset_cache': ('Structure._reset_cache', ['self'], _ST),
           '_merge': ('Structure._merge', ['self', 'structure'], _ST),
           '_merge_with_parent': ('_merge_with_parent', ['m', None], _DD)}

HFRAGS = [
    HFrag('h_reset_cache', _ST, 'Structure._reset_cache', [('self', 'Obj')], n_skipped=4, props=['C14', 'C02'],
          doc='`Structure._reset_cache` on the link caches (`_level`, `_ancestor`, `_descendants`, `_newick`)'),
    HFrag('h_level', _ST, 'Structure.level', [('self', 'Obj')], ret='OptNat', locals_={'obj': 'Obj', 'diff': 'Nat'},
          props=['C02', 'C14'], doc='`Structure.level`: the cached walk towards a structure whose level is known'),
    HFrag('h_ancestor', _ST, 'Structure.ancestor', [('self', 'Obj')], ret='OptObj', locals_={'a': 'Obj'},
          props=['C02', 'C04', 'C14'], doc='`Structure.ancestor`: the path-compressing loop'),
    HFrag('h_descendants', _ST, 'Structure.descendants', [('self', 'Obj')], ret='OptObjList',
          locals_={'to_add': 'ObjList', 'children': 'ObjList'}, props=['C02', 'C14'],
          doc='`Structure.descendants`: level by level'),
    HFrag('h_prune_merge', _DD, 'Dendrogram.prune', [('m', 'Obj')], locals_={'parent': 'Obj'}, inline=_INLINE, skip=[r'^m\._fill_footprint\('], n_skipped=8,
          cls_file=_ST, props=['C07', 'C14', 'C02'],
          select=lambda stmts: [x for f_ in stmts if isinstance(f_, ast.For) and '_to_prune' in _src(f_.iter)
                                for g_ in f_.body if isinstance(g_, ast.For) and _src(g_.target) == 'm' for x in g_.body],
          doc='`prune`: what is done with each structure of the `merge` list: `_merge_with_parent` (with `Structure._merge` and '
              '`_reset_cache` inlined; links view: the label map and the value summaries are outside it), then `del keep_structures[...]`'),
    HFrag('h_prune_reset', _DD, 'Dendrogram.prune', [], inline=_INLINE, n_skipped=4, cls_file=_ST, props=['C14', 'C02', 'C07'],
          atoms={'keep_structures.values()': ('h.alive', 'ObjList')},
          select=lambda stmts: [f_ for f_ in stmts if isinstance(f_, ast.For) and _src(f_.iter) == 'keep_structures.values()'],
          doc='`prune`: the caches of every surviving structure are reset (`keep_structures` = the alive objects)'),
    HFrag('h_make_trunk', _DD, '_make_trunk', [], n_skipped=2, cls_file=_ST, props=['C14', 'C02', 'C07'],
          atoms={'keep_structures.values()': ('h.alive', 'ObjList')}, alias_locals={'dendrogram.trunk': 'trunk'},
          transparent=['_sorted_by_idx'], skip=[r'^leaves_in_trunk = ', r'^for leaf in leaves_in_trunk:'],
          doc='`_make_trunk`: the parentless survivors get `_level = 0` (the order of the trunk list and the removal of failing '
              'parentless leaves are outside the links view)'),
]


def _assign_value(name):
    def f(tree):
        for n in ast.walk(tree):
            if isinstance(n, ast.Assign) and len(n.targets) == 1 and _src(n.targets[0]) == name:
                return n.value
        return None
    return f


def _endswith_arg(func):
    def f(tree):
        from py2lean import find_def
        d = find_def(tree, func)
        for n in ast.walk(d):
            if isinstance(n, ast.Call) and isinstance(n.func, ast.Attribute) and n.func.attr == 'endswith':
                return n.args[0]
        return None
    return f


def _dict_keys(name):
    def f(tree):
        v = _assign_value(name)(tree)
        if isinstance(v, ast.Dict):
            return ast.Tuple(elts=list(v.keys), ctx=ast.Load())
        return None
    return f


CONSTS = [   # (lean name, file, finder, kind, properties)
    ('fits_signature', 'astrodendro/io/fits.py', _assign_value('FITS_SIGNATURE'), 'bytes', ['C09']),
    ('hdf5_signature', 'astrodendro/io/hdf5.py', _assign_value('HDF5_SIGNATURE'), 'bytes', ['C09']),
    ('fits_extensions', 'astrodendro/io/fits.py', _endswith_arg('is_fits'), 'strs', ['C09']),
    ('hdf5_extensions', 'astrodendro/io/hdf5.py', _endswith_arg('is_hdf5'), 'strs', ['C09']),
    ('io_formats', 'astrodendro/io/__init__.py', _dict_keys('IO_FORMATS'), 'strs', ['C09']),
]


def _special_select(frag, tree):
    """fragments that are an expression rather than statements"""
    from py2lean import find_def
    if frag.name == 'insignificant':
        d = find_def(tree, frag.qual)
        for n in ast.walk(d):
            if isinstance(n, ast.Assign) and _src(n.targets[0]) == 'merge' and isinstance(n.value, ast.ListComp):
                comp = n.value.generators[0]
                if len(comp.ifs) != 1 or _src(n.value.elt) != 'structure' or _src(comp.iter) != 'adjacent':
                    raise Untranslatable('the `merge` comprehension has another shape')
                return [ast.Return(value=comp.ifs[0])]
        raise Untranslatable('the `merge` list comprehension was not found')
    if frag.name == 'meeting_case':
        # the skeleton of the case analysis: keep the tests, replace each block by `return <its number>`
        d = find_def(tree, frag.qual)
        loop = [n for n in ast.walk(d) if isinstance(n, ast.For) and 'argsort' in _src(n.iter)]
        if len(loop) != 1:
            raise Untranslatable('the pixel loop was not found')
        top = [s for s in loop[0].body if isinstance(s, ast.If) and _src(s.test) == 'not adjacent']
        if len(top) != 1:
            raise Untranslatable('the case analysis on `adjacent` was not found')
        top = top[0]

        def tag(block):
            """number of the action block, recognised by what it does"""
            t = '\n'.join(_src(s) for s in block)
            if 'leaf = Structure(coord, data_value' in t and 'children=' not in t:
                return 0
            if t.lstrip().startswith('adjacent[0]._add_pixel(coord, data_value)'):
                return 1
            if 'belongs_to = merge.pop()' in t:
                return 2
            if 'belongs_to = adjacent[0]' in t:
                return 3
            if 'children=adjacent' in t:
                return 4
            raise Untranslatable('unrecognised action block: %s' % t[:60])

        def ret(k):
            return [ast.Return(value=ast.Constant(value=k))]
        if len(top.orelse) != 1 or not isinstance(top.orelse[0], ast.If) or _src(top.orelse[0].test) != 'len(adjacent) == 1':
            raise Untranslatable('second case of the analysis')
        second = top.orelse[0]
        inner = [s for s in second.orelse if isinstance(s, ast.If) and _src(s.test) == 'not adjacent']
        if len(inner) != 1:
            raise Untranslatable('inner case analysis')
        inner = inner[0]
        if len(inner.orelse) != 1 or not isinstance(inner.orelse[0], ast.If) or _src(inner.orelse[0].test) != 'len(adjacent) == 1':
            raise Untranslatable('inner second case')
        # the inner analysis looks at `adjacent` after the absorbed structures were removed: other atoms
        outer_if = ast.If(test=ast.parse('nAdj0 == 0', mode='eval').body, body=ret(tag(top.body)), orelse=[
            ast.If(test=ast.parse('nAdj0 == 1', mode='eval').body, body=ret(tag(second.body)), orelse=[
                ast.If(test=inner.test, body=ret(tag(inner.body)), orelse=[
                    ast.If(test=inner.orelse[0].test, body=ret(tag(inner.orelse[0].body)),
                           orelse=ret(tag(inner.orelse[0].orelse)))])])])
        return [ast.fix_missing_locations(outer_if)]
    return None


def generate(repo):
    parts = ['/-! # ADGen.Gen — GENERATED by harness/py2lean.py from the Python source of astrodendro; do not edit.\n'
             'Regenerated on every run of `./check`; `lean/ADGen/Equiv.lean` is checked against it. -/\n']
    errors = {}
    trees = {}

    def tree_of(rel):
        if rel not in trees:
            trees[rel] = ast.parse(open(os.path.join(repo, rel)).read())
        return trees[rel]
    for fr in FRAGS:
        try:
            tree = tree_of(fr.file)
            f2 = fr
            sp = _special_select(fr, tree)
            if sp is not None:
                import copy
                f2 = copy.copy(fr)
                f2.select = (lambda stmts, sp=sp: sp)
                if fr.name == 'meeting_case':
                    f2.atoms = dict(fr.atoms)
                    f2.atoms['nAdj0 == 0'] = ('(nAdj0 == 0)', 'Bool')
                    f2.atoms['nAdj0 == 1'] = ('(nAdj0 == 1)', 'Bool')
            parts.append(Translator(f2, tree).translate())
        except (Untranslatable, SyntaxError, OSError) as e:
            errors[fr.name] = '%s: %s' % (type(e).__name__, e)
            parts.append('-- fragment %s could not be translated: %s' % (fr.name, str(e).replace('\n', ' ')))
    for hf in HFRAGS:
        try:
            parts.append(HTranslator(hf, tree_of).translate())
        except (Untranslatable, SyntaxError, OSError) as e:
            errors[hf.name] = '%s: %s' % (type(e).__name__, e)
            parts.append('-- fragment %s could not be translated: %s' % (hf.name, str(e).replace('\n', ' ')))
    for name, rel, finder, kind, _props in CONSTS:
        try:
            parts.append(const_table(tree_of(rel), finder, name, kind))
        except (Untranslatable, SyntaxError, OSError, ValueError) as e:
            errors[name] = '%s: %s' % (type(e).__name__, e)
            parts.append('-- constant %s could not be extracted: %s' % (name, str(e).replace('\n', ' ')))
    return '\n\n'.join(parts) + '\n', errors


if __name__ == '__main__':
    import sys
    text, errs = generate(sys.argv[1] if len(sys.argv) > 1 else '/repo')
    print(text)
    for k, v in errs.items():
        print('ERROR', k, v, file=sys.stderr)
