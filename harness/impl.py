"""Running the real astrodendro code on a case and observing it in the common schema."""
import io
import os
import contextlib
import warnings
from fractions import Fraction

import numpy as np

from common import REPO  # noqa  (sets sys.path / env)

import astrodendro
from astrodendro import Dendrogram, pruning
from astrodendro.dendrogram import periodic_neighbours

assert os.path.realpath(astrodendro.__file__).startswith(os.path.realpath(REPO)), astrodendro.__file__


class ImplError(Exception):
    pass


class Injected(Exception):
    """raised on purpose by a user callback of the harness (fault-path scenarios)"""


class SkipCase(Exception):
    """the scenario left the part of the input space the check speaks about (e.g. an injected fault hit after the
    operation had already modified the dendrogram); the case is dropped, nothing is concluded from it"""


def raiser(after=0):
    """an is_independent criterion that raises `Injected` at its (after+1)-th call"""
    state = {'n': 0}

    def crit(structure, index=None, value=None):
        state['n'] += 1
        if state['n'] > after:
            raise Injected('criterion failed on purpose')
        return True
    crit.state = state
    return crit


def as_container(fs, style):
    """the criteria in the container the case asks for: is_independent may be any iterable, also a one-shot one"""
    if style == 'tuple':
        return tuple(fs)
    if style == 'iter':
        return iter(list(fs))
    if style == 'gen':
        return (f for f in list(fs))
    if style == 'map':
        return map(lambda f: f, list(fs))
    return fs


# ---------------------------------------------------------------------------------------------
# cases
#
# case = {
#   'shape': [..], 'fb': s, 'k': [int | None, ...]   (value = k / 2**s, None = NaN; C order)
#   'dtype': 'float64', 'minv': [num, den] (in k units) | 'min', 'mind': int (k units), 'minn': int,
#   'crits': [['peak', k] | ['sum', k] | ['seeds', [flat..]] | ['npixacc', n] | ['peakacc', k]],
#   'periodic': [axes], 'adj': 'grid' | 'diag', 'layout': 'C' | 'F' | 'strided' | 'readonly'
# }

def make_array(case):
    fb = case['fb']
    k = case['k']
    dt = np.dtype(case.get('dtype', 'float64'))
    if dt.kind == 'f':
        a = np.array([np.nan if x is None else x / float(2 ** fb) for x in k], dtype=np.float64)
        for p in case.get('inf', []):       # +inf pixels; the model sees HUGE there
            a[p] = np.inf
        a = a.astype(dt)
    else:
        assert fb == 0 and all(x is not None for x in k)
        a = np.array(k, dtype=object).astype(dt)
    a = a.reshape(case['shape'])
    lay = case.get('layout', 'C')
    if lay == 'F':
        a = np.asfortranarray(a)
    elif lay == 'strided':
        big = np.zeros(tuple(2 * s for s in a.shape), dtype=dt)
        big[tuple(slice(None, None, 2) for _ in a.shape)] = a
        a = big[tuple(slice(None, None, 2) for _ in a.shape)]
    elif lay == 'readonly':
        a = a.copy()
        a.setflags(write=False)
    elif lay == 'bigendian':
        # non-native byte order, as astropy.io.fits delivers image data
        a = a.astype(a.dtype.newbyteorder('>'))
    return a


def diag_neighbours(dendrogram, idx):
    """user-supplied adjacency: faces and diagonals (8 / 26 neighbours); relies, like the default,
    on out-of-range coordinates landing on the padding cell"""
    import itertools
    nd = len(idx)
    out = []
    for off in itertools.product((-1, 0, 1), repeat=nd):
        if any(off):
            out.append(tuple(int(c) + o for c, o in zip(idx, off)))
    return out


def holes_neighbours(case):
    """user-supplied adjacency on an irregular mesh: face neighbours, except that the nodes listed in
    case['isolated'] are connected to nothing (their neighbour list is empty)"""
    shape = tuple(case['shape'])
    iso = set(case.get('isolated', []))

    def result(dendrogram, idx):
        c = tuple(int(x) for x in idx)
        if int(np.ravel_multi_index(c, shape)) in iso:
            return []
        out = []
        for a in range(len(shape)):
            for o in (1, -1):
                cc = list(c)
                cc[a] += o
                if 0 <= cc[a] < shape[a] and int(np.ravel_multi_index(cc, shape)) not in iso:
                    out.append(tuple(cc))
        return out
    return result


def model_adjacency(case):
    """explicit neighbour lists (flat indices) for a user-supplied adjacency, as the model sees it"""
    import itertools
    shape = case['shape']
    n = int(np.prod(shape)) if shape else 1
    if case.get('adj', 'grid') == 'diag':
        ent = []
        for p in range(n):
            c = np.unravel_index(p, shape)
            qs = []
            for off in itertools.product((-1, 0, 1), repeat=len(shape)):
                if any(off):
                    cc = [a + b for a, b in zip(c, off)]
                    if all(0 <= x < s for x, s in zip(cc, shape)):
                        qs.append(int(np.ravel_multi_index(cc, shape)))
            ent.append('%d:%s' % (p, '.'.join(str(q) for q in qs)))
        return ';'.join(ent)
    if case.get('adj', 'grid') == 'holes':
        f = holes_neighbours(case)
        ent = []
        for p in range(n):
            qs = [int(np.ravel_multi_index(c, shape)) for c in f(None, np.unravel_index(p, shape))]
            ent.append('%d:%s' % (p, '.'.join(str(q) for q in qs)))
        return ';'.join(ent)
    return 'grid'


def user_criteria(case, unit):
    """Python is_independent callables for the case's extra criteria"""
    fs = []
    shape = case['shape']
    for c in case.get('crits', []):
        kind = c[0]
        if kind == 'peak':
            fs.append(pruning.min_peak(c[1] / unit))
        elif kind == 'sum':
            fs.append(pruning.min_sum(c[1] / unit))
        elif kind == 'seeds':
            coords = np.unravel_index(np.array(c[1], dtype=int), shape)
            fs.append(pruning.contains_seeds(tuple(np.asarray(x) for x in coords)))
        elif kind == 'npixget':
            n = c[1]
            # the cached pixel count alone decides
            fs.append(lambda s, index=None, value=None, n=n: s.get_npix() >= n)
        elif kind == 'udelta':
            md_ = Fraction(c[1], 2 ** case['fb'])
            fs.append(pruning.min_delta(int(md_) if md_.denominator == 1 else float(md_)))
        elif kind == 'npixacc':
            n = c[1]
            # a user criterion reading accessors of the leaf under test (docs/advanced.rst pattern)
            fs.append(lambda s, index=None, value=None, n=n: s.get_npix() >= n and len(s.indices()[0]) >= n)
        elif kind == 'peakacc':
            v = c[1] / unit
            fs.append(lambda s, index=None, value=None, v=v: s.get_peak()[1] >= v)
        else:
            raise ValueError(kind)
    return fs


def crit_string(case, mind=None, minn=None):
    """criteria as the model reads them: builtin min_delta / min_npix first, then the extras"""
    parts = ['delta:%d' % (case['mind'] if mind is None else mind),
             'npix:%d' % (case['minn'] if minn is None else minn)]
    for c in case.get('crits', []):
        kind = c[0]
        if kind == 'peak' or kind == 'peakacc':
            parts.append('peak:%d' % c[1])
        elif kind == 'sum':
            parts.append('sum:%d' % c[1])
        elif kind == 'seeds':
            parts.append('seeds:%s' % (','.join(str(x) for x in c[1]) if c[1] else '-'))
        elif kind in ('npixacc', 'npixget'):
            parts.append('npix:%d' % c[1])
        elif kind == 'udelta':
            parts.append('delta:%d' % c[1])
    return ';'.join(parts)


def style_params(case, kw):
    """spell min_delta / min_npix / min_value as the case says (see gen: 'pstyle'); same meaning in every style"""
    st = case.get('pstyle', 'py')
    if st == 'np':
        for key in ('min_delta', 'min_npix', 'min_value'):
            if key in kw and not isinstance(kw[key], str):
                kw[key] = (np.float64 if isinstance(kw[key], float) else np.int64)(kw[key])
    elif st == 'half' and kw.get('min_npix', 0) >= 1:
        kw['min_npix'] = kw['min_npix'] - 0.5
    elif st == 'omit':
        # rely on the documented defaults (min_delta=0, min_npix=0) instead of passing zeros
        for key in ('min_delta', 'min_npix'):
            if key in kw and kw[key] == 0:
                del kw[key]


def npix_param(v):
    """the integer demand a recorded min_npix stands for (2.5 pixels = at least 3)"""
    import math
    return int(math.ceil(float(v)))


def spell_axes(case, per):
    """the periodic axes as the caller may hand them over: one number, a list, a tuple or an array of numbers"""
    if len(per) == 1 and not case.get('per_as_list'):
        return per[0]
    sp = case.get('per_spelling', 'list')
    return tuple(per) if sp == 'tuple' else np.array(per) if sp == 'array' else list(per)


def compute_impl(case, verbose=False, neighbours_obj=None, arr=None, fail=None):
    """run Dendrogram.compute on the case; returns (dendrogram, data array).  `arr`: use this array object;
    `fail` = ('crit', k) / ('nbrs', k): a user callback raises `Injected` at its (k+1)-th call"""
    a = make_array(case) if arr is None else arr
    unit = float(2 ** case['fb'])
    kw = {}
    if case['minv'] != 'min':
        num, den = case['minv']
        mv = Fraction(num, den) / Fraction(2 ** case['fb'])
        kw['min_value'] = float(mv) if mv.denominator != 1 else int(mv)
        if np.dtype(case.get('dtype', 'float64')).kind == 'f':
            kw['min_value'] = float(mv)
    md = Fraction(case['mind'], 2 ** case['fb'])
    kw['min_delta'] = int(md) if md.denominator == 1 else float(md)
    kw['min_npix'] = case['minn']
    style_params(case, kw)
    fs = user_criteria(case, unit)
    if fs:
        kw['is_independent'] = fs if len(fs) > 1 or case.get('crit_as_list') else fs[0]
        if case.get('crit_container', 'list') != 'list' and not case.get('reuse'):
            kw['is_independent'] = as_container(fs, case['crit_container'])
    if case.get('periodic'):
        per = list(case['periodic'])
        if case.get('per_negative'):
            per = [a_ - len(case['shape']) for a_ in per]
        kw['neighbours'] = neighbours_obj or periodic_neighbours(spell_axes(case, per))
    elif case.get('adj', 'grid') == 'diag':
        kw['neighbours'] = diag_neighbours
    elif case.get('adj', 'grid') == 'holes':
        kw['neighbours'] = holes_neighbours(case)
    if case.get('reuse'):
        # objects reused across calls, as a long script would: the same criteria list object and the same
        # neighbours object were first used for ANOTHER array (other shape) with stricter parameters.
        # compute must not keep anything of that call in them.
        lst = list(fs)
        kw['is_independent'] = lst
        other_shape = [s_ + 2 for s_ in case['shape']]
        nn = 1
        for s_ in other_shape:
            nn *= s_
        other = (np.arange(nn, dtype=float) * 7 % 11).reshape(other_shape)
        kw0 = {'min_delta': kw.get('min_delta', 0) + 3, 'min_npix': case['minn'] + 2, 'is_independent': lst}
        if case.get('periodic') and neighbours_obj is None:
            kw0['neighbours'] = kw['neighbours']
        with warnings.catch_warnings():
            warnings.simplefilter('ignore')
            Dendrogram.compute(other, **kw0)
    if case.get('wcs') is not None:
        # a linear world coordinate system handed to compute (wcs=); case['wcs'] shifts its reference value
        from astropy.wcs import WCS
        w_ = WCS(naxis=len(case['shape']))
        w_.wcs.crval = [10.0 + case['wcs']] * len(case['shape'])
        w_.wcs.cdelt = [0.5] * len(case['shape'])
        w_.wcs.crpix = [1.0] * len(case['shape'])
        kw['wcs'] = w_
    if fail is not None:
        if fail[0] == 'crit':
            kw['is_independent'] = list(fs) + [raiser(fail[1])]
        else:
            inner = kw.get('neighbours') or Dendrogram.neighbours
            cnt = {'n': 0}

            def failing_neighbours(dendrogram, idx, inner=inner, cnt=cnt, k=fail[1]):
                cnt['n'] += 1
                if cnt['n'] > k:
                    raise Injected('neighbours failed on purpose')
                return inner(dendrogram, idx)
            kw['neighbours'] = failing_neighbours
    with warnings.catch_warnings():
        warnings.simplefilter('ignore')
        if verbose:
            buf = io.StringIO()
            with contextlib.redirect_stdout(buf):
                d = Dendrogram.compute(a, verbose=True, **kw)
        else:
            d = Dendrogram.compute(a, **kw)
    return d, a


def recorded_order(d, a, case):
    """flat indices in the order compute processed them (hook); fallback: re-derive with argsort"""
    shape = a.shape
    o = getattr(d, '_verif_order', None)
    if o is not None:
        return [int(np.ravel_multi_index(c, shape)) for c in o] if len(o) else [], True
    mv = d.params['min_value']
    keep = a > mv
    vals = a[keep]
    idx = np.vstack(np.where(keep)).transpose()
    return [int(np.ravel_multi_index(tuple(idx[i]), shape)) for i in np.argsort(vals)[::-1]], False


HUGE = 10 ** 9


def to_k(x, fb):
    """implementation value -> exact integer in model units (k = x * 2**fb); +inf is the sentinel HUGE"""
    if isinstance(x, (float, np.floating)) and np.isinf(x) and x > 0:
        return HUGE
    f = Fraction(x.item() if hasattr(x, 'item') else x) * (2 ** fb)
    if f.denominator != 1:
        raise ImplError('value %r is not representable in model units' % (x,))
    return int(f)


def flat(coord, shape):
    return int(np.ravel_multi_index(tuple(int(c) for c in coord), shape))


def reachable(d):
    out = []
    todo = list(d.trunk)
    seen = set()
    while todo:
        s = todo.pop(0)
        if id(s) in seen:
            raise ImplError('structure reached twice from the trunk: idx=%r' % (s.idx,))
        seen.add(id(s))
        out.append(s)
        todo = list(s.children) + todo
    return out


def forest_wellformed(d):
    """parent pointers and children lists must be two views of one forest; returns list of problems"""
    probs = []
    try:
        reach = reachable(d)
    except ImplError as e:
        return [str(e)]
    ids_reach = [s.idx for s in reach]
    if len(set(ids_reach)) != len(ids_reach):
        probs.append('duplicate identifiers among reachable structures: %r' % (sorted(ids_reach),))
    dict_vals = list(d._structures_dict.values())
    if set(id(s) for s in dict_vals) != set(id(s) for s in reach):
        probs.append('structures reachable from the trunk %r differ from those in the id table %r'
                     % (sorted(ids_reach), sorted(d._structures_dict.keys())))
    for k, s in d._structures_dict.items():
        if s.idx != k:
            probs.append('id table key %r holds structure with idx %r' % (k, s.idx))
    for s in reach:
        for c in s.children:
            if c.parent is not s:
                probs.append('child %r of %r has parent %r' % (c.idx, s.idx, getattr(c.parent, 'idx', None)))
        if s.parent is not None:
            n = sum(1 for c in s.parent.children if c is s)
            if n != 1:
                probs.append('structure %r appears %d times in the child list of its parent %r' % (s.idx, n, s.parent.idx))
        if len(set(id(c) for c in s.children)) != len(s.children):
            probs.append('structure %r lists a child twice' % (s.idx,))
    for s in d.trunk:
        if s.parent is not None:
            probs.append('trunk structure %r has a parent' % (s.idx,))
    for s in reach:
        if s.parent is None and not any(t is s for t in d.trunk):
            probs.append('parentless structure %r not in trunk' % (s.idx,))
    return probs


def use_up(x):
    """what a caller may do with a container the library handed out (a list of structures, an array of values): change it
    in place.  Accessors that build their result afresh are unaffected; one that hands out its internal state (or a view
    of it) answers differently afterwards."""
    try:
        if isinstance(x, np.ndarray):
            if x.size and x.flags.writeable:
                x[...] = x.dtype.type(1) if x.dtype.kind in 'iufb' else x.flat[0]
        elif isinstance(x, list):
            del x[:]
        elif isinstance(x, dict):
            x.clear()
    except (ValueError, TypeError):
        pass
    return None


def observe(d, case):
    """common observation schema from the real objects"""
    fb = case['fb']
    shape = tuple(case['shape'])
    obs = {'structs': {}}
    reach = reachable(d)
    # query order: parents first, or (reuse cases) deepest structures first -- cached answers of inner
    # structures must not change what their ancestors report
    for s in (list(reversed(reach)) if case.get('reuse') else reach):
        own = [flat(c, shape) for c in s._indices]
        tio = s.indices(subtree=False)
        tis = s.indices(subtree=True)
        tiown = sorted(int(x) for x in np.ravel_multi_index(tio, shape)) if len(tio[0]) else []
        tisub = sorted(int(x) for x in np.ravel_multi_index(tis, shape)) if len(tis[0]) else []
        pk = s.get_peak(subtree=False)
        pks = s.get_peak(subtree=True)
        # value arrays are the caller's to keep: the ones read here are changed in place once they have been recorded
        v_own = s.values(subtree=False)
        v_own_k = [to_k(v, fb) for v in v_own]
        use_up(v_own)
        v_sub = s.values(subtree=True)
        v_sub_k = [to_k(v, fb) for v in v_sub]
        use_up(v_sub)
        obs['structs'][int(s.idx)] = {
            'id': int(s.idx), 'par': None if s.parent is None else int(s.parent.idx),
            'kids': [int(c.idx) for c in s.children], 'own': own,
            'vmin': to_k(s.vmin, fb), 'vmax': to_k(s.vmax, fb), 'h': to_k(s.height, fb),
            'lvl': int(s.level), 'anc': int(s.ancestor.idx),
            'desc': sorted(int(x.idx) for x in s.descendants),
            'npix': int(s.get_npix(subtree=False)), 'npixsub': int(s.get_npix(subtree=True)),
            'peak': (flat(pk[0], shape), to_k(pk[1], fb)), 'peaksub': (flat(pks[0], shape), to_k(pks[1], fb)),
            'small': flat(s.smallest_index, shape), 'tiown': tiown, 'tisub': tisub,
            'is_leaf': bool(s.is_leaf), 'is_branch': bool(s.is_branch),
            'values_own': v_own_k,
            'indices_own_ordered': [int(x) for x in np.ravel_multi_index(tio, shape)] if len(tio[0]) else [],
            'values_sub': v_sub_k,
            'indices_sub_ordered': [int(x) for x in np.ravel_multi_index(tis, shape)] if len(tis[0]) else [],
        }
    # pixsub from the own lists (independent of the tree index)
    def pixsub(s):
        out = list(obs['structs'][int(s.idx)]['own'])
        for c in s.children:
            out.extend(pixsub_cache[int(c.idx)])
        return out
    pixsub_cache = {}
    for s in reversed(reach):
        pixsub_cache[int(s.idx)] = pixsub(s)
    for sid, px in pixsub_cache.items():
        obs['structs'][sid]['pixsub'] = sorted(px)
    obs['trunk'] = [int(s.idx) for s in d.trunk]
    obs['iter'] = [int(s.idx) for s in d]
    obs['lmap'] = [int(x) for x in np.asarray(d.index_map).ravel()]
    obs['newick'] = d.to_newick()
    use_up(d.leaves)       # a list of leaves handed out earlier belongs to the caller
    obs['leaves'] = sorted(int(s.idx) for s in d.leaves)
    obs['len'] = len(d)
    obs['dict_ids'] = sorted(int(k) for k in d._structures_dict.keys())
    obs['lookup_ok'] = all(d[k].idx == k for k in d._structures_dict.keys())
    return obs


def compute_line(case, order, d):
    """driver request for the same case, with the implementation's recorded order and threshold"""
    mv = d.params['min_value']
    f = Fraction(mv.item() if hasattr(mv, 'item') else mv) * (2 ** case['fb'])
    if case.get('minv', 'min') != 'min':
        f = Fraction(case['minv'][0], case['minv'][1])     # the threshold that was asked for
    vals = ','.join('nan' if x is None else str(x) for x in case['k'])
    return ('compute shape=%s periodic=%s adj=%s fb=%d vals=%s minv=%d/%d crit=%s order=%s'
            % (','.join(str(s) for s in case['shape']),
               ','.join(str(a) for a in case.get('periodic', [])) or '-',
               model_adjacency(case), case['fb'], vals, f.numerator, f.denominator,
               crit_string(case), ','.join(str(p) for p in order) or '-'))
