"""C09 (save / load round trip, format identification, text encoding) and C18 (plot layout)."""
import copy
import os
import pathlib
import tempfile
import warnings

import numpy as np

import gen
import impl
import preds
import session
import props_compute as pc
import props_history as ph
from common import parse_block, WORK


def tmpfile(suffix):
    os.makedirs(WORK, exist_ok=True)
    fd, path = tempfile.mkstemp(suffix=suffix, dir=WORK)
    os.close(fd)
    os.remove(path)
    return path


# ---------------------------------------------------------------------------------------------
# C09

def gen_tree_shape(rng, n):
    """random ordered forest with n nodes: list of (id, children) nested lists; ids distinct, multi-digit"""
    ids = rng.sample(range(0, 400), n)
    nodes = [[i, []] for i in ids]
    roots = [nodes[0]]
    for nd in nodes[1:]:
        if rng.random() < 0.2:
            roots.append(nd)
        else:
            rng.choice(nodes[:nodes.index(nd)])[1].append(nd)
    # branches need >= 2 children for realism, but the text encoding does not care: keep as is
    return roots


def tree_text(roots, heights):
    def rec(nd):
        h = heights[nd[0]]
        if nd[1]:
            return '(%s)%s:%.3f' % (','.join(rec(c) for c in nd[1]), nd[0], h)
        return '%i:%.3f' % (nd[0], h)
    return '(%s);' % ','.join(rec(r) for r in roots)


def nested_to_canon(d):
    """parse_newick output -> canonical nested list [(id, [children…])…] in dict order"""
    out = []
    for k, v in d.items():
        if type(v) is tuple:
            out.append((int(k), nested_to_canon(v[0])))
        else:
            out.append((int(k), []))
    return out


def shape_to_canon(roots):
    return [(nd[0], shape_to_canon(nd[1])) for nd in roots]


def model_forest_to_canon(text):
    """'ok (…);' answer of the model -> canonical nested list"""
    # parse the model's own printout with a tiny recursive descent (ids only)
    s = text
    pos = [0]

    def parse_list():
        items = []
        while True:
            items.append(parse_node())
            if pos[0] < len(s) and s[pos[0]] == ',':
                pos[0] += 1
                continue
            return items

    def parse_node():
        kids = []
        if s[pos[0]] == '(':
            pos[0] += 1
            kids = parse_list()
            assert s[pos[0]] == ')'
            pos[0] += 1
        j = pos[0]
        while s[j].isdigit():
            j += 1
        ident = int(s[pos[0]:j])
        assert s[j] == ':'
        j += 1
        while j < len(s) and s[j] not in ',();':
            j += 1
        pos[0] = j
        return (ident, kids)
    if s == '();':
        return []
    assert s[0] == '('
    pos[0] = 1
    r = parse_list()
    return r


def gen_item_C09(rng, idx, tier):
    if idx in (0, 1):
        # a tree deeper than the interpreter's recursion limit (predicate only: too large for the model driver)
        return {'mode': 'deep', 'size': 1300 if tier == 'quick' else 2600, 'fmt': ['hdf5', 'fits'][idx]}
    if idx in (2, 3):
        # thousands of structures
        return {'mode': 'deep', 'size': 0, 'big': 70 if tier == 'quick' else 140, 'fmt': ['hdf5', 'fits'][idx - 2], 'seed': rng.randrange(10 ** 6)}
    if idx in (4, 5):
        # fault path: on a tree deeper than the recursion limit the user first reads the root's Newick string (which ends
        # in RecursionError) and then saves
        return {'mode': 'deep', 'size': 1300 if tier == 'quick' else 2600, 'fmt': ['hdf5', 'fits'][idx - 4], 'touch': True}
    r = idx % 5
    if r == 3:
        n = rng.randint(1, 9 if tier == 'quick' else 14)
        roots = gen_tree_shape(rng, n)
        heights = {}

        def walk(nd):
            heights[nd[0]] = rng.choice([rng.randint(-4000, 9000) / 16.0, rng.randint(0, 20) * 1.0, -0.0001, 123456.789])
            for c in nd[1]:
                walk(c)
        for t in roots:
            walk(t)
        return {'mode': 'newick', 'roots': roots, 'heights': sorted(heights.items())}
    if r == 4:
        base = rng.choice(['dendro', 'a.b', 'x_y', 'Data'])
        ext = rng.choice(['.fits', '.FITS', '.fit', '.Fit.gz', '.fits.gz', '.hdf5', '.H5', '.h5', '.HDF5', '.txt', '', '.fits.bak', '.h5.old',
                          '.hdf', '.fts'])
        kind = rng.choice(['write', 'read-missing', 'read-fits', 'read-hdf5', 'read-junk'])
        return {'mode': 'identify', 'name': base + ext, 'kind': kind}
    case = gen.gen_compute_case(rng, maxpix=40 if tier == 'quick' else 80, force={'big': True})
    if case['dtype'] in ('uint32',):
        case['dtype'] = 'int32'
    exact_only = case['kind'] in ('decimal', 'bigint')    # values that must not be shifted / thresholds not derived
    if rng.random() < 0.3 and not exact_only:
        case['k'] = [None if x is None else x - 30 for x in case['k']]   # negative values and heights
        if case['dtype'] in gen.INT_RANGE:
            lo, hi = gen.INT_RANGE[case['dtype']]
            if any(x is not None and not (lo <= x <= hi) for x in case['k']):
                case['dtype'] = 'float64'
    ops = []
    if rng.random() < 0.5 and case['kind'] != 'decimal':
        if rng.random() < 0.7:
            case['mind'], case['minn'], case['crits'] = 0, 0, []
        ops.append(ph.gen_prune_op(rng, case, allow_crits=False))
    return {'mode': 'roundtrip', 'case': case, 'ops': ops, 'fmt': rng.choice(['fits', 'hdf5']),
            'explicit': rng.random() < 0.4, 'path': rng.random() < 0.4, 'wcs': rng.random() < 0.4 and len(case['shape']) in (2, 3),
            'upper': rng.random() < 0.2, 'pre': rng.choice(['none', 'none', 'empty', 'junk', 'other-format', 'same-format'])}


def eval_C09(item):
    res = {'corr': [], 'pred': [], 'hyp': [], 'known': [], 'tags': ['mode=' + item['mode']], 'nontrivial': True,
           'key': repr(item)}
    from astrodendro import Dendrogram
    from astrodendro.io.util import parse_newick
    drv = session.driver()
    if item['mode'] == 'deep':
        n = item['size']
        if n:
            d1_ = np.arange(n * 2)
            d2_ = np.arange(n * 2)
            d2_[::2] += 2
            d1_[-1] = 0
            data = np.vstack((d1_, d2_)).astype(float)
        else:
            data = np.random.RandomState(item['seed']).permutation(item['big'] ** 2).reshape(item['big'], item['big']).astype(float)
        d = Dendrogram.compute(data)
        depth = max(s.level for s in d)
        res['tags'].append('depth>=%d' % (depth // 500 * 500))
        res['tags'].append('structures>=%d' % (len(d) // 1000 * 1000))
        if item.get('touch'):
            for s_ in list(d.trunk) + [x_ for x_ in d if x_.level == depth // 2][:1]:
                try:
                    s_.newick
                    res['tags'].append('touch:ok')
                except RecursionError:
                    res['tags'].append('touch:RecursionError')
        path = tmpfile('.' + item['fmt'])
        try:
            with warnings.catch_warnings():
                warnings.simplefilter('ignore')
                d.save_to(path)
                d2 = Dendrogram.load_from(path)
        except RecursionError as e:
            res['pred'].append('a dendrogram %d levels deep cannot be saved and loaded (%s): RecursionError' % (depth, item['fmt']))
            return res
        finally:
            if os.path.exists(path):
                os.remove(path)

        def links(dd):
            return sorted((int(s.idx), -1 if s.parent is None else int(s.parent.idx), tuple(int(c.idx) for c in s.children)) for s in dd)
        if links(d) != links(d2) or [int(s.idx) for s in d.trunk] != [int(s.idx) for s in d2.trunk]:
            res['pred'].append('deep dendrogram (%d levels) differs after save/load' % depth)
        if d.to_newick() != d2.to_newick() or not np.array_equal(d.index_map, d2.index_map):
            res['pred'].append('deep dendrogram: Newick text or label map differs after save/load')
        if max(s.level for s in d2) != depth:
            res['pred'].append('deep dendrogram: levels differ after load')
        return res
    if item['mode'] == 'newick':
        heights = dict(item['heights'])
        text = tree_text(item['roots'], heights)
        want = shape_to_canon(item['roots'])
        try:
            got = nested_to_canon(parse_newick(text))
        except RecursionError:
            raise
        except Exception as e:
            res['pred'].append('parse_newick raised %s on %r' % (type(e).__name__, text))
            return res
        if got != want:
            res['pred'].append('parse_newick(%r) = %r, written from %r' % (text, got, want))
        ans = drv.ask('newick ' + text)
        m = dict(l.split(' ', 1) for l in ans)
        for k in ('impl', 'descent'):
            if not m.get(k, '').startswith('ok '):
                res['corr'].append('model %s parser: %r on %r' % (k, m.get(k), text))
            elif model_forest_to_canon(m[k][3:]) != got:
                res['corr'].append('model %s parser gives %r, implementation %r' % (k, m[k], got))
        res['tags'].append('nodes=%d' % min(len(heights), 9))
        res['nontrivial'] = len(heights) >= 3
        return res
    if item['mode'] == 'identify':
        from astrodendro.io import load_dendrogram, save_dendrogram, IO_FORMATS
        name = item['name']
        kind = item['kind']
        os.makedirs(WORK, exist_ok=True)
        d = tempfile.mkdtemp(dir=WORK)
        path = os.path.join(d, name)
        head = None
        if kind == 'read-fits':
            head = b'SIMPLE  =                    T' + b' ' * 50
        elif kind == 'read-hdf5':
            head = b'\x89HDF\r\n\x1a\n' + b'\0' * 30
        elif kind == 'read-junk':
            head = b'hello world, this is not a dendrogram file at all......'
        if head is not None:
            with open(path, 'wb') as f:
                f.write(head)
        mode = 'w' if kind == 'write' else 'r'
        got = None
        for fname, handler in IO_FORMATS.items():
            if handler.identify(path, mode=mode):
                got = fname
                break
        ans = drv.ask('identify name=%s read=%d head=%s' % (name.encode().hex() or '-', 0 if mode == 'w' else 1,
                                                          'none' if head is None else head[:40].hex()))
        want = ans[0].split(' ', 1)[1]
        if (got or 'none') != want:
            res['corr'].append('identify(%r, %s, head=%r): impl %r model %r' % (name, mode, head, got, want))
        # predicate: extension decides when writing / missing; signature decides when the file exists
        low = name.lower()
        if head is None:
            exp = 'fits' if low.endswith(('.fits', '.fits.gz', '.fit', '.fit.gz')) else 'hdf5' if low.endswith(('.hdf5', '.h5')) else None
        else:
            exp = 'fits' if kind == 'read-fits' else 'hdf5' if kind == 'read-hdf5' else None
        if got != exp:
            res['pred'].append('format of %r (%s, %s) identified as %r, expected %r' % (name, mode, kind, got, exp))
        if exp is None:
            # an unrecognisable target is refused with an error
            small = Dendrogram.compute(np.array([[1., 2.], [3., 1.]]))
            try:
                if mode == 'w':
                    save_dendrogram(small, path)
                else:
                    load_dendrogram(path)
                res['pred'].append('unrecognisable target %r (%s) was not refused' % (name, kind))
            except IOError:
                pass
            except Exception as e:
                res['pred'].append('unrecognisable target %r raised %s instead of IOError' % (name, type(e).__name__))
        import shutil
        shutil.rmtree(d, ignore_errors=True)
        res['tags'].append('kind=' + kind)
        return res
    # round trip
    case = item['case']
    d, a, order, hooked, steps = session.run_session(case, item['ops'])
    res['hyp'] = pc.hyp_failures(steps[0].mobs)
    for st in steps:
        res['pred'] += st.wf
    if res['pred']:
        return res
    o1 = steps[-1].iobs
    wcs = None
    if item['wcs']:
        from astropy.wcs import WCS
        wcs = WCS(naxis=len(case['shape']))
        wcs.wcs.crpix = [1.5] * len(case['shape'])
        wcs.wcs.cdelt = [0.5] * len(case['shape'])
        wcs.wcs.crval = [10.0] * len(case['shape'])
        d.wcs = wcs
    ext = {'fits': '.fits', 'hdf5': '.hdf5'}[item['fmt']]
    if item['upper']:
        ext = ext.upper()
    path = tmpfile(ext)
    target = pathlib.Path(path) if item['path'] else path
    kw = {'format': item['fmt']} if item['explicit'] else {}
    # the target may already exist (placeholder, junk, a file of the other or the same format): when
    # writing, the extension decides
    pre = item.get('pre', 'none')
    if pre == 'empty':
        open(path, 'wb').close()
    elif pre == 'junk':
        with open(path, 'wb') as f_:
            f_.write(b'not a dendrogram' * 10)
    elif pre in ('other-format', 'same-format'):
        small = Dendrogram.compute(np.array([[1., 2.], [3., 1.]]))
        other = {'fits': 'hdf5', 'hdf5': 'fits'}[item['fmt']] if pre == 'other-format' else item['fmt']
        with warnings.catch_warnings():
            warnings.simplefilter('ignore')
            small.save_to(path, format=other)
    try:
        with warnings.catch_warnings():
            warnings.simplefilter('ignore')
            d.save_to(target, **kw)
            d2 = Dendrogram.load_from(target, **kw)
    finally:
        if os.path.exists(path):
            os.remove(path)
    wf = impl.forest_wellformed(d2)
    if wf:
        res['pred'] += ['loaded: ' + x for x in wf]
        return res
    o2 = impl.observe(d2, case)
    mobs = parse_block(drv.ask('reload'))
    res['corr'] += session.diff_obs(o2, mobs, ['par', 'kids', 'own', 'lvl', 'anc', 'desc', 'npix', 'npixsub', 'tiown', 'tisub', 'vmin', 'vmax', 'h', 'peak', 'peaksub'],
                                    # the Newick text prints heights through a float: not exact beyond 2**53
                                    ['trunk', 'iter', 'lmap'] + ([] if case.get('kind') == 'bigint' else ['newick']))
    # predicate: same data, label map, params, WCS, dimensionality, ids, relations, child order, accessors
    if not np.array_equal(np.asarray(d.data), np.asarray(d2.data), equal_nan=(np.asarray(d.data).dtype.kind == 'f')):
        res['pred'].append('data differ after the round trip')
    if np.asarray(d2.data).shape != np.asarray(d.data).shape:
        res['pred'].append('shape differs after the round trip')
    if o1['lmap'] != o2['lmap']:
        res['pred'].append('label map differs after the round trip')
    for k in ('min_value', 'min_delta', 'min_npix'):
        def _exact(v_):
            from fractions import Fraction
            return Fraction(v_.item() if hasattr(v_, 'item') else v_)
        if k not in d2.params or _exact(d2.params[k]) != _exact(d.params[k]):
            # known finding K7: parameters travel in FITS header cards, and astropy formats a float card value
            # into at most 20 characters: a float64 that needs 16-17 significant digits AND an exponent loses
            # its last digit(s).  Signature: FITS, a float parameter, and the loaded value is exactly what
            # astropy's card formatting of the saved value parses to.
            k7 = False
            if item['fmt'] == 'fits' and k in d2.params and k != 'min_npix':
                try:
                    from astropy.io.fits.card import _format_float
                    cands = set()
                    for v_ in (d.params[k], float(d.params[k])):
                        try:
                            cands.add(float(_format_float(v_)))
                        except Exception:  # noqa
                            pass
                    k7 = float(d2.params[k]) in cands and \
                        abs(float(d2.params[k]) - float(d.params[k])) <= 1e-6 * abs(float(d.params[k]))
                except Exception:  # noqa
                    k7 = False
            if k7:
                res['known'].append(('K7', 'FITS header cards hold the decimal text of a float in at most 20 characters (and the short text '
                                           'of a float32 scalar): min_value / min_delta needing more digits come back changed in the last digits'))
                res['tags'].append('K7')
            else:
                res['pred'].append('parameter %s: saved %r, loaded %r' % (k, d.params[k], d2.params.get(k)))
    if getattr(d2, 'n_dim', None) != d.n_dim:
        res['pred'].append('n_dim: saved %r, loaded %r' % (d.n_dim, getattr(d2, 'n_dim', None)))
    if wcs is None:
        if d2.wcs is not None:
            if item['fmt'] == 'fits':
                res['known'].append(('K3', 'FITS cannot represent "no WCS": wcs=None comes back as a default WCS object'))
            else:
                res['pred'].append('wcs None came back as %r' % (d2.wcs,))
    else:
        if d2.wcs is None or d2.wcs.to_header_string() != wcs.to_header_string():
            res['pred'].append('WCS differs after the round trip')
    dd = session.diff_obs(o2, o1, ['par', 'kids', 'lvl', 'anc', 'desc', 'npix', 'npixsub', 'pixsub', 'tiown', 'tisub', 'vmin', 'vmax', 'h'],
                          ['trunk', 'iter', 'newick', 'leaves', 'len', 'dict_ids'], own_as_set=True)
    for sid in o1['structs']:
        if sid in o2['structs']:
            if sorted(o1['structs'][sid]['own']) != sorted(o2['structs'][sid]['own']):
                dd.append('structure %d: own pixels differ' % sid)
            if o1['structs'][sid]['peak'][1] != o2['structs'][sid]['peak'][1] or o1['structs'][sid]['peaksub'][1] != o2['structs'][sid]['peaksub'][1]:
                dd.append('structure %d: peak value differs' % sid)
    res['pred'] += ['after save/load (%s): %s' % (item['fmt'], x) for x in dd]
    ctx = preds.Ctx(case, d)
    res['pred'] += ['loaded: ' + x for x in preds.pred_C02(ctx, d2, o2, fresh=False)]
    res['pred'] += ['loaded: ' + x for x in preds.pred_C06(ctx, d2, o2)]
    res['tags'] += ['pre=' + item.get('pre', 'none'), 'fmt=' + item['fmt'], 'pruned=%d' % len(item['ops']), 'wcs=%s' % item['wcs'], 'explicit=%s' % item['explicit'],
                    'path=%s' % item['path'], 'dtype=' + case['dtype'], 'ndim=%d' % len(case['shape'])]
    res['nontrivial'] = pc.nontrivial(steps[-1].mobs)
    return res


# ---------------------------------------------------------------------------------------------
# C18

def gen_item_C18(rng, idx, tier):
    if idx % 4 == 3:
        return exhaustive_item_C18(rng.randrange(len(gen.FOREST_SHAPES) * 6))
    case = gen.gen_compute_case(rng, maxpix=40 if tier == 'quick' else 80)
    if rng.random() < 0.7:
        case['mind'], case['minn'], case['crits'] = 0, 0, []
    ops = []
    r = rng.random()
    if r < 0.3:
        if rng.random() < 0.5:
            ops.append(('plotter',))          # the tree was already plotted before it was pruned
        ops.append(ph.gen_prune_op(rng, case, allow_crits=False))
    elif r < 0.45:
        ops.append(('reload', rng.choice(['hdf5', 'fits'])))
    keykind = rng.choice(['default', 'default', 'idtable', 'negpeak', 'npix'])
    return {'case': case, 'ops': ops, 'keykind': keykind, 'reverse': rng.random() < 0.5, 'ktab': [rng.randint(0, 6) for _ in range(200)],
            'pick': rng.randrange(1000), 'subtree': rng.random() < 0.5, 'how': rng.choice(['obj', 'id', 'list', 'idlist'])}


class FakeAxes(object):
    def __init__(self):
        self.masks = []
        self.collections = []

    def contour(self, mask, **kw):
        self.masks.append(np.array(mask, copy=True))

    def add_collection(self, c):
        self.collections.append(c)

    def margins(self, *a):
        pass

    def autoscale_view(self, *a):
        pass


def synthetic_dendrogram(roots, k):
    """a dendrogram with an arbitrary tree shape: one own pixel per structure (pixel = position in prefix order),
    built by the library's own loader from a Newick text and a label map; returns (d, case, model request)"""
    from astrodendro.io.util import parse_dendrogram
    order = []

    def walk(nd):
        order.append(nd[0])
        for c in nd[1]:
            walk(c)
    for r in roots:
        walk(r)
    n = len(order)
    pix = dict((sid, i) for i, sid in enumerate(order))
    data = np.array([float(x) for x in k[:n]])
    lmap = np.array(order, dtype=np.int32)
    heights = dict((sid, 0.0) for sid in order)
    text = tree_text(roots, heights)
    with warnings.catch_warnings():
        warnings.simplefilter('ignore')
        d = parse_dendrogram(text, data, lmap, {'min_value': float(min(k[:n])) - 1, 'min_delta': 0, 'min_npix': 0})
    case = {'shape': [n], 'fb': 0, 'k': [int(x) for x in k[:n]], 'dtype': 'float64', 'minv': [int(min(k[:n])) - 1, 1], 'mind': 0, 'minn': 0,
            'crits': [], 'periodic': [], 'adj': 'grid', 'layout': 'C', 'kind': 'synthetic'}

    def txt(nd):
        return '%d:%d' % (nd[0], pix[nd[0]]) + ('(%s)' % ','.join(txt(c) for c in nd[1]) if nd[1] else '')
    req = 'setforest n=%d fb=0 vals=%s f=%s' % (n, ','.join(str(int(x)) for x in k[:n]), ';'.join(txt(r) for r in roots))
    return d, case, req


def eval_C18(item):
    if 'forest' in item:
        d, case, req = synthetic_dendrogram(item['forest'], item['k'])
        item = dict(item)
        item['case'] = case
        res = {'corr': [], 'pred': [], 'hyp': [], 'known': [], 'tags': ['synthetic', 'nodes=%d' % len(case['k'])], 'nontrivial': len(case['k']) >= 3,
               'key': repr((item['forest'], item['k'], item['keykind'], item['reverse']))}
        wf = impl.forest_wellformed(d)
        if wf:
            res['pred'] += wf
            return res
        mobs = parse_block(session.driver().ask(req))
        st = session.Step(('synthetic',), impl.observe(d, case), mobs, [])
        res['corr'] += session.diff_obs(st.iobs, mobs, ['par', 'kids', 'lvl', 'anc', 'desc', 'h', 'vmin', 'vmax'], ['trunk', 'iter'])
    else:
        case = item['case']
        res, d, a, steps = pc.base_eval({'case': case, 'ops': item['ops']}, 'C18')
        st = steps[-1]
    if st.iobs is None or 'bad' in st.mobs:
        return res
    drv = session.driver()
    fb = case['fb']
    structs = st.iobs['structs']
    # sort key as a table by identifier
    kk = item['keykind']
    if kk == 'default':
        table = dict((sid, s['peaksub'][1]) for sid, s in structs.items())
        keyf = None
    elif kk == 'idtable':
        table = dict((sid, item['ktab'][sid % 200]) for sid in structs)
        keyf = lambda s: table[s.idx]   # noqa
    elif kk == 'negpeak':
        table = dict((sid, -s['peaksub'][1]) for sid, s in structs.items())
        keyf = lambda s: table[s.idx]   # noqa
    else:
        table = dict((sid, s['npixsub']) for sid, s in structs.items())
        keyf = lambda s: table[s.idx]   # noqa
    p = d.plotter()
    if keyf is not None or item['reverse']:
        p.sort(sort_key=keyf, reverse=item['reverse'])
    pos = dict((int(s.idx), float(x)) for s, x in p._cached_positions.items())
    ans = drv.ask('plot key=%s rev=%d' % (','.join('%d:%d' % kv for kv in sorted(table.items())) or '-', 1 if item['reverse'] else 0))
    mpos, msegs = {}, []
    from fractions import Fraction
    for l in ans:
        w = l.split()
        if w[0] == 'pos':
            a_, b_ = w[2].split('/')
            mpos[int(w[1])] = Fraction(int(a_), int(b_))
        elif w[0] == 'seg':
            x0 = Fraction(*map(int, w[2].split('/')))
            x1 = Fraction(*map(int, w[4].split('/')))
            msegs.append((int(w[1]), float(x0), int(w[3]) / float(2 ** fb), float(x1), int(w[5]) / float(2 ** fb)))
    if sorted(pos) != sorted(mpos):
        res['corr'].append('positions exist for %r, model %r' % (sorted(pos), sorted(mpos)))
    else:
        for sid in pos:
            if abs(pos[sid] - float(mpos[sid])) > 1e-9:
                res['corr'].append('position of structure %d: impl %r model %s' % (sid, pos[sid], mpos[sid]))
    # lines of the whole tree vs the model
    lc = p.get_lines()
    segs = [(int(s.idx), float(g[0][0]), float(g[0][1]), float(g[1][0]), float(g[1][1])) for s, g in zip(lc.structures, lc.get_segments())]
    if len(segs) != len(msegs) or any(x[0] != y[0] or max(abs(x[i] - y[i]) for i in range(1, 5)) > 1e-9 for x, y in zip(segs, msegs)):
        res['corr'].append('line collection differs from the model: impl %r model %r' % (segs[:6], msegs[:6]))
    # the collection handed out is the caller's: its `structures` list may be re-ordered or emptied; a later collection must
    # still pair every segment with the structure it was drawn for
    try:
        lc.structures.sort(key=lambda s_: -s_.idx)
        impl.use_up(lc.structures)
    except Exception:
        pass
    lcb = p.get_lines()
    segs_b = [(int(s.idx), float(g[0][0]), float(g[0][1]), float(g[1][0]), float(g[1][1])) for s, g in zip(lcb.structures, lcb.get_segments())]
    if segs_b != segs:
        res['pred'].append('get_lines() after the caller changed the `structures` list of an earlier collection: %r, before %r' % (segs_b[:6], segs[:6]))
    # ---- predicates, independent of the model
    leaves = [sid for sid, s in structs.items() if not s['kids']]
    lp = sorted(pos[sid] for sid in leaves)
    if lp != [float(i) for i in range(len(leaves))]:
        res['pred'].append('leaf positions %r are not the distinct consecutive integers 0..%d' % (lp, len(leaves) - 1))
    else:
        def leafset(sid):
            s = structs[sid]
            return [sid] if not s['kids'] else [x for c in s['kids'] for x in leafset(c)]
        for sid, s in structs.items():
            ls = sorted(pos[x] for x in leafset(sid))
            if ls != [ls[0] + i for i in range(len(ls))]:
                res['pred'].append('leaves of structure %d occupy positions %r: not a contiguous interval' % (sid, ls))
            if s['kids']:
                m = sum(pos[c] for c in s['kids']) / len(s['kids'])
                if abs(pos[sid] - m) > 1e-9:
                    res['pred'].append('branch %d at %r, mean of its children %r' % (sid, pos[sid], m))
                ordered = sorted(s['kids'], key=lambda c: pos[c])
                keys = [table[c] for c in ordered]
                ok = all(keys[i] <= keys[i + 1] for i in range(len(keys) - 1)) if not item['reverse'] else all(keys[i] >= keys[i + 1] for i in range(len(keys) - 1))
                if not ok:
                    res['pred'].append('children of %d in plot order have keys %r (reverse=%s): not sorted by the requested key' % (sid, keys, item['reverse']))
        ordered = sorted(st.iobs['trunk'], key=lambda c: pos[c])
        keys = [table[c] for c in ordered]
        ok = all(keys[i] <= keys[i + 1] for i in range(len(keys) - 1)) if not item['reverse'] else all(keys[i] >= keys[i + 1] for i in range(len(keys) - 1))
        if not ok:
            res['pred'].append('trunk structures in plot order have keys %r (reverse=%s)' % (keys, item['reverse']))
    # geometry of the lines, mapping
    unit = float(2 ** fb)
    bysid = {}
    for g in segs:
        bysid.setdefault(g[0], []).append(g)
    for sid, s in structs.items():
        gs = bysid.get(sid, [])
        top = s['h'] / unit
        bot = (structs[s['par']]['h'] if s['par'] is not None else s['vmin']) / unit
        vert = [g for g in gs if g[1] == g[3]  and (g[2], g[4]) == (bot, top) and abs(g[1] - pos[sid]) < 1e-9]
        if not vert:
            res['pred'].append('no vertical segment for structure %d from %r to %r at x=%r (segments %r)' % (sid, bot, top, pos[sid], gs))
        if s['kids']:
            pc_ = [pos[c] for c in s['kids']]
            hor = [g for g in gs if g[2] == top and g[4] == top and abs(g[1] - min(pc_)) < 1e-9 and abs(g[3] - max(pc_)) < 1e-9]
            if not hor:
                res['pred'].append('no horizontal segment for branch %d spanning its children at height %r' % (sid, top))
            if len(gs) != 2:
                res['pred'].append('branch %d has %d segments' % (sid, len(gs)))
        elif len(gs) != 1:
            res['pred'].append('leaf %d has %d segments' % (sid, len(gs)))
    # custom positions replace the computed layout and are what get_lines draws
    cp = d.plotter()
    cp.set_custom_positions(lambda s_: 3.5 * s_.idx + 0.25)
    cpos = dict((int(s_.idx), float(x_)) for s_, x_ in cp._cached_positions.items())
    if cpos != dict((sid_, 3.5 * sid_ + 0.25) for sid_ in structs):
        res['pred'].append('set_custom_positions: positions %r are not the requested ones' % (cpos,))
    else:
        lc3 = cp.get_lines()
        seen_ = set()
        for s_, g in zip(lc3.structures, lc3.get_segments()):
            sid_ = int(s_.idx)
            xs_ = sorted([float(g[0][0]), float(g[1][0])])
            if sid_ not in seen_:            # the first segment of a structure is its vertical
                seen_.add(sid_)
                ok_ = xs_ == [cpos[sid_], cpos[sid_]]
            else:
                pc_ = [cpos[c_] for c_ in structs[sid_]['kids']]
                ok_ = bool(pc_) and xs_ == [min(pc_), max(pc_)]
            if not ok_:
                res['pred'].append('with custom positions a segment of structure %d is drawn at x=%r' % (sid_, xs_))
                break
    # sorting again after custom positions restores the sorted layout (same arguments as the sort before)
    if keyf is not None or item['reverse']:
        cp2 = d.plotter()
        cp2.sort(sort_key=keyf, reverse=item['reverse'])
        cp2.set_custom_positions(lambda s_: 2.0 * s_.idx - 1.0)
        cp2.sort(sort_key=keyf, reverse=item['reverse'])
    else:
        cp2 = d.plotter()
        cp2.set_custom_positions(lambda s_: 2.0 * s_.idx - 1.0)
        cp2.sort()
    pos2 = dict((int(s_.idx), float(x_)) for s_, x_ in cp2._cached_positions.items())
    if pos2 != pos:
        res['pred'].append('sort() after set_custom_positions does not restore the sorted layout: %r, a fresh plotter gives %r'
                           % (sorted(pos2.items())[:8], sorted(pos.items())[:8]))
    # a selected structure with / without subtree, given as object, id, list
    ids = sorted(structs)
    if not ids:
        return res
    sid = ids[item['pick'] % len(ids)]
    how = item['how']
    arg = {'obj': d[sid], 'id': sid, 'list': [d[sid]], 'idlist': [sid]}[how]
    # the documented default is subtree=True: half of the subtree requests rely on it
    skw = {} if (item['subtree'] and item['pick'] % 2) else {'subtree': item['subtree']}
    try:
        lc2 = p.get_lines(structures=arg, **skw)
        got = sorted(set(int(s.idx) for s in lc2.structures))
        want = sorted(structs[sid]['desc'] + [sid]) if item['subtree'] else [sid]
        if got != want:
            res['pred'].append('get_lines(structures=%s %r, subtree=%s) draws structures %r, expected %r' % (how, sid, item['subtree'], got, want))
        ax = FakeAxes()
        p.plot_tree(ax, structure=arg if how in ('obj', 'id') else arg[0], **skw)
        got = sorted(set(int(s.idx) for s in ax.collections[0].structures))
        if got != want:
            res['pred'].append('plot_tree(structure=%s %r, subtree=%s) draws structures %r, expected %r' % (how, sid, item['subtree'], got, want))
    except Exception as e:
        res['pred'].append('selecting structure %r as %s (subtree=%s) raised %s: %s' % (sid, how, item['subtree'], type(e).__name__, str(e)[:60]))
    # contours outline exactly the structure's mask in the displayed slice
    if len(case['shape']) in (2, 3):
        ax = FakeAxes()
        try:
            sl = None
            kw = {}
            if len(case['shape']) == 3 and item['pick'] % 2 == 0:
                sl = item['pick'] % case['shape'][0]
                kw['slice'] = sl
            kw.update(skw)
            p.plot_contour(ax, structure=arg if how in ('obj', 'id') else sid, **kw)
            px = structs[sid]['pixsub'] if item['subtree'] else structs[sid]['tiown']
            full = np.zeros(int(np.prod(case['shape'])), dtype=bool)
            full[px] = True
            full = full.reshape(case['shape'])
            if len(case['shape']) == 3:
                if sl is None:
                    pk = structs[sid]['peaksub' if item['subtree'] else 'peak'][0]
                    sl = int(np.unravel_index(pk, case['shape'])[0])
                    # the peak position among equal maxima is unspecified: accept any slice holding a maximum
                    val = structs[sid]['peaksub' if item['subtree'] else 'peak'][1]
                    cands = set(int(np.unravel_index(q, case['shape'])[0]) for q in px if case['k'][q] == val)
                    if not any(np.array_equal(ax.masks[0], full[c]) for c in cands):
                        res['pred'].append('contour of structure %d is not its mask in the slice of its peak' % sid)
                elif not np.array_equal(ax.masks[0], full[sl]):
                    res['pred'].append('contour of structure %d in slice %d is not its mask there' % (sid, sl))
            elif not np.array_equal(ax.masks[0], full):
                res['pred'].append('contour of structure %d (subtree=%s) is not its mask' % (sid, item['subtree']))
        except Exception as e:
            res['pred'].append('plot_contour(structure %r, subtree=%s) raised %s: %s' % (sid, item['subtree'], type(e).__name__, str(e)[:60]))
    # without a structure the contour outlines all pixels of the dendrogram: everything above min_value
    if len(case['shape']) == 2:
        ax = FakeAxes()
        try:
            p.plot_contour(ax)
            mv = d.params['min_value']
            want_all = np.asarray(d.data) > mv
            if not ax.masks or not np.array_equal(np.asarray(ax.masks[0], dtype=bool), want_all):
                res['pred'].append('plot_contour() without a structure does not outline the pixels above min_value')
        except Exception as e:  # noqa
            res['pred'].append('plot_contour() without a structure raised %s: %s' % (type(e).__name__, str(e)[:60]))
    res['tags'] += ['key=' + kk, 'reverse=%s' % item['reverse'], 'how=' + how]
    return res


def exhaustive_item_C18(idx):
    """all forest shapes with <= 7 nodes x (reverse) x (key kind), identifiers shuffled deterministically"""
    import random
    nshape = len(gen.FOREST_SHAPES)
    shape = gen.FOREST_SHAPES[idx % nshape]
    r = idx // nshape
    reverse = bool(r % 2)
    keykind = ['default', 'idtable', 'npix'][(r // 2) % 3]
    rng = random.Random(idx)
    n = sum(1 for _ in _walk_shape(shape))
    ids = rng.sample(range(0, 40), n)
    roots = gen.label_forest(shape, iter(ids))
    k = [rng.randint(1, 6) for _ in range(n)]
    return {'forest': roots, 'k': k, 'keykind': keykind, 'reverse': reverse, 'ktab': [rng.randint(0, 3) for _ in range(200)],
            'pick': rng.randrange(1000), 'subtree': rng.random() < 0.5, 'how': rng.choice(['obj', 'id', 'list', 'idlist']), 'ops': []}


def _walk_shape(shape):
    for t in shape:
        yield t
        for x in _walk_shape(t):
            yield x
