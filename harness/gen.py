"""Structured generators. Every random choice comes from the `random.Random` handed in, so a case
replays from (VERIF_SEED, property, index) alone."""
import itertools
import os

INT_DTYPES = ['int8', 'int16', 'int32', 'int64', 'uint8', 'uint16', 'uint32']
INT_RANGE = {'int8': (-128, 127), 'int16': (-2 ** 15, 2 ** 15 - 1), 'int32': (-2 ** 31, 2 ** 31 - 1),
             'int64': (-2 ** 63, 2 ** 63 - 1), 'uint8': (0, 255), 'uint16': (0, 2 ** 16 - 1),
             'uint32': (0, 2 ** 32 - 1)}


LONG_AXIS_SHARE = float(os.environ.get('VERIF_LONG_AXIS', '0'))      # opt-in (VERIF_LONG_AXIS=0.004): share of the plain compute cases with a very long axis


def gen_shape(rng, maxpix=48, ndim=None):
    if ndim is None:
        ndim = rng.choices([1, 2, 3, 4], weights=[20, 45, 25, 10])[0]
    while True:
        if ndim == 1:
            shape = [rng.randint(1, maxpix)]
        else:
            hi = {2: 8, 3: 5, 4: 3}[ndim]
            shape = [rng.choice([1, 2, 2, 3, 3, 4, 5, 6, 7, 8][:hi + 2]) for _ in range(ndim)]
            shape = [min(s, hi) for s in shape]
        n = 1
        for s in shape:
            n *= s
        if 1 <= n <= maxpix:
            return shape


def gen_values(rng, n, shape, big=False, bigint=False):
    """integer pixel values in model units with a chosen tie structure; returns (k list, kind)"""
    kind = rng.choice(['perm', 'perm', 'small', 'small', 'plateau', 'nested', 'chain', 'checker', 'random', 'two',
                       'perm', 'small', 'plateau', 'nested', 'random', 'neardelta', 'bigint' if (big or bigint) else 'random',
                       'fullrange', 'decimal' if big else 'small'])
    if kind == 'perm':
        k = list(range(1, n + 1))
        rng.shuffle(k)
    elif kind == 'small':
        a = rng.randint(2, 4)
        k = [rng.randint(0, a) for _ in range(n)]
    elif kind == 'two':
        k = [rng.randint(0, 1) for _ in range(n)]
    elif kind == 'plateau':
        k = [rng.choice([1, 5, 5, 5, 9]) for _ in range(n)]
    elif kind == 'nested':
        # peaks of different heights on a low background
        k = [rng.randint(0, 2) for _ in range(n)]
        for _ in range(rng.randint(1, 4)):
            k[rng.randrange(n)] = rng.randint(5, 20)
    elif kind == 'chain':
        # monotone ramp with bumps: deep trees
        k = [i * 2 + (3 if i % 2 else 0) for i in range(n)]
        if rng.random() < 0.5:
            k.reverse()
    elif kind == 'checker':
        k = [(5 + rng.randint(0, 3)) if (sum(divmod(i, max(1, shape[-1]))) % 2 == 0) else rng.randint(0, 2) for i in range(n)]
    elif kind == 'neardelta':
        # heights a hair below / at / above a large min_delta (relative differences of 1e-6)
        M = 10 ** 6
        k = [rng.choice([0, 0, 1, M - 1, M, M + 1, 2 * M - 1, 2 * M, 2 * M + 1]) for _ in range(n)]
        return k, kind
    elif kind == 'fullrange':
        # integers spread over the whole range of a narrow signed dtype: differences exceed the dtype
        lo, hi = rng.choice([(-128, 127), (-32768, 32767), (-2 ** 31, 2 ** 31 - 1)])
        k = [rng.choice([lo, hi, lo + rng.randint(0, 40), hi - rng.randint(0, 40), rng.randint(lo, hi)]) for _ in range(n)]
        return k, kind
    elif kind == 'decimal':
        # decimal fractions in [1, 2): not dyadic, but differences of two of them are exact in float64 (Sterbenz);
        # in model units of 2**-60 every value and every such difference is an exact integer
        from fractions import Fraction
        k = [int(Fraction(float(1 + rng.randint(0, 9) / 10.0 + rng.choice([0, 0, 0.05, 0.01]))) * 2 ** 60) for _ in range(n)]
        return k, kind
    elif kind == 'bigint':
        # integers beyond 2**53: not representable in float64
        if rng.random() < 0.6:
            base = 2 ** 60 + 1
            k = [base + rng.randint(0, 12) for _ in range(n)]
        else:
            # differences of the order of the spacing of doubles up there (1024 at 2**62): exact in int64, not in float64
            base = 2 ** 62 + 1
            k = [base + rng.choice([0, 300, 540, 1000, 1500, 2048, 3000, 4096]) + rng.randint(0, 40) for _ in range(n)]
        return k, kind
    else:
        k = [rng.randint(-20, 40) for _ in range(n)]
    if rng.random() < 0.25:
        off = rng.choice([-50, -7, 100, 1000])
        k = [x + off for x in k]
    return k, kind


def pick_dtype(rng, k, fb, has_nan):
    vals = [x for x in k if x is not None]
    lo, hi = (min(vals), max(vals)) if vals else (0, 0)
    if fb == 0 and not has_nan and rng.random() < 0.45:
        ok = [dt for dt in INT_DTYPES if INT_RANGE[dt][0] <= lo and hi <= INT_RANGE[dt][1]]
        if ok:
            return rng.choice(ok)
    return rng.choice(['float64', 'float64', 'float32'])


def gen_params(rng, k, n, fb):
    vals = sorted(set(x for x in k if x is not None))
    # threshold: default, exactly at a data value, strictly between, below everything
    r = rng.random()
    if not vals:
        minv = [0, 1]
    elif r < 0.2:
        minv = 'min'
    elif r < 0.27:
        minv = [0, 1]           # a threshold of exactly zero (falsy in Python), with whatever signs the data have
    elif r < 0.5:
        minv = [rng.choice(vals), 1]
    elif r < 0.7:
        minv = [2 * rng.choice(vals) - 1, 2]
    else:
        minv = [vals[0] - rng.randint(1, 3), 1]
    # min_delta: 0, or exactly a difference of two data values (comparison boundary), or random
    r = rng.random()
    if r < 0.55 or len(vals) < 2:
        mind = 0
    elif r < 0.8:
        a, b = rng.sample(vals, 2)
        mind = abs(a - b) + rng.choice([0, 0, 0, 1, -1])
        mind = max(mind, 0)
    else:
        mind = rng.randint(1, 6)
    minn = rng.choice([0, 0, 0, 0, 0, 0, 1, 2, 3, 4, 6])
    return minv, mind, minn


def gen_crits(rng, k, n):
    crits = []
    vals = sorted(set(x for x in k if x is not None))
    if rng.random() < 0.3 and vals:
        for _ in range(rng.choice([1, 1, 2])):
            kind = rng.choice(['peak', 'sum', 'seeds', 'npixacc', 'peakacc', 'udelta'])
            if kind in ('peak', 'peakacc'):
                crits.append([kind, rng.choice(vals)])
            elif kind == 'udelta':
                # a criterion in the user's list that depends on the VALUE at which the regions meet
                # (pruning.min_delta handed over as a user criterion)
                a_, b_ = rng.choice(vals), rng.choice(vals)
                crits.append([kind, max(1, abs(a_ - b_) + rng.choice([0, 0, 1, -1]))])
            elif kind == 'sum':
                crits.append([kind, rng.choice(vals) * rng.randint(1, 3)])
            elif kind == 'seeds':
                # seed positions in the order the user happens to list them (not necessarily raster order)
                sd = []
                for _ in range(rng.randint(1, 4)):
                    x = rng.randrange(n)
                    if x not in sd:
                        sd.append(x)
                crits.append([kind, sd])
            else:
                crits.append([kind, rng.randint(1, 4)])
    return crits


def gen_long_axis_case(rng):
    """an axis longer than 8 / 15 / 16 bits count (a long spectrum, a survey strip): nearly everything below the threshold,
    a few small clusters of distinct values, some of them beyond coordinate 127 / 255 / 32767 / 65535"""
    L = rng.choice([130, 260, 300, 32770, 33000, 40000, 65540, 66000, 70000])
    lay = rng.choice(['1d', '1d', '2xL', 'Lx2'])
    shape = {'1d': [L], '2xL': [2, L], 'Lx2': [L, 2]}[lay]
    n = L * (1 if lay == '1d' else 2)
    k = [0] * n
    marks = sorted(set([rng.randint(0, 5), L - rng.randint(1, 8)] + [m for m in (126, 254, 32766, 65534) if m + 12 < L] +
                       [rng.randint(0, L - 12) for _ in range(3)]))
    vals = list(range(1, 200))
    rng.shuffle(vals)
    for m in marks:
        w = rng.randint(2, 9)
        for c in range(m, min(L, m + w)):
            for row in range(1 if lay == '1d' else 2):
                if rng.random() < 0.85 and vals:
                    p = c if lay == '1d' else (row * L + c if lay == '2xL' else c * 2 + row)
                    k[p] = vals.pop()
    case = {'shape': shape, 'fb': 0, 'k': k, 'dtype': rng.choice(['float64', 'float32', 'int32', 'int16', 'uint8']),
            'minv': [0, 1], 'mind': rng.choice([0, 0, 3, 20]), 'minn': rng.choice([0, 0, 2, 4]), 'crits': [], 'kind': 'longaxis',
            'periodic': [], 'adj': 'grid', 'layout': 'C', 'reuse': False, 'pstyle': 'py', 'crit_container': 'list'}
    if rng.random() < 0.3:
        case['periodic'] = [0 if lay != '2xL' else 1]
        case['per_as_list'] = rng.random() < 0.5
        case['per_spelling'] = rng.choice(['list', 'tuple', 'array'])
        case['per_negative'] = rng.random() < 0.3
    return case


def gen_compute_case(rng, maxpix=48, force=None):
    force = force or {}
    if force.get('allow_long') and rng.random() < LONG_AXIS_SHARE:
        return gen_long_axis_case(rng)
    shape = force.get('shape') or gen_shape(rng, maxpix, force.get('ndim'))
    n = 1
    for s in shape:
        n *= s
    k, kind = gen_values(rng, n, shape, big=bool(force.get('big')), bigint=bool(force.get('bigint')))
    fb = force.get('fb', rng.choice([0, 0, 0, 0, 1, 2, 4, 30, 40]))
    if kind in ('neardelta', 'bigint', 'fullrange'):
        fb = 0
    if kind == 'decimal':
        fb = 60
    has_nan = False
    if fb > 0 or rng.random() < 0.3:
        if rng.random() < 0.4 and n > 1:
            has_nan = True
            for i in rng.sample(range(n), rng.randint(1, max(1, n // 4))):
                k[i] = None
    if all(x is None for x in k):
        k[0] = 1
    dtype = force.get('dtype') or pick_dtype(rng, k, fb, has_nan)
    if kind == 'fullrange' and not force.get('dtype'):
        k = [x if x is not None else 0 for x in k]
        hi_ = max(abs(x) for x in k)
        dtype = 'int8' if hi_ <= 128 else 'int16' if hi_ <= 32768 else 'int32'
    if kind == 'decimal':
        dtype = 'float64'
    if kind == 'bigint' and not force.get('dtype'):
        dtype = 'int64'
        k = [x if x is not None else 2 ** 60 for x in k]
    minv, mind, minn = gen_params(rng, k, n, fb)
    if dtype in ('float32',) and minv != 'min' and fb <= 4 and rng.random() < 0.3 and not os.environ.get('VERIF_NO_THR32'):
        # a threshold that float64 can tell from a data value but float32 cannot (just below one of the values)
        vals_ = [x for x in k if x is not None and abs(x) < 4096]
        if vals_:
            minv = [rng.choice(vals_) * 2 ** 40 - 1, 2 ** 40]
    if kind == 'bigint' and minv != 'min' and minv[1] != 1:
        minv = [minv[0] // minv[1], 1]      # a float threshold cannot be compared exactly with int64 beyond 2**53
    if kind == 'fullrange':
        vals_ = sorted(set(k))
        minv = rng.choice(['min', [vals_[0], 1], [vals_[0] - 1, 1] if vals_[0] > -2 ** 31 else 'min'])
        mind = rng.choice([0, 0, 1, 100, 200, 40000, 2 ** 31])
    if kind == 'decimal':
        from fractions import Fraction
        mind = int(Fraction(float(rng.choice([0.1, 0.1, 0.2, 0.3, 0.05, 0.15]))) * 2 ** 60) if rng.random() < 0.8 else 0
        minv = rng.choice([[0, 1], 'min', [2 ** 60, 1]])
    if kind == 'neardelta':
        mind = rng.choice([10 ** 6, 10 ** 6, 2 * 10 ** 6, 0])
        minv = rng.choice([[-1, 1], [0, 1], 'min'])
    case = {'shape': shape, 'fb': fb, 'k': k, 'dtype': dtype, 'minv': minv, 'mind': mind, 'minn': minn,
            'crits': gen_crits(rng, k, n), 'kind': kind, 'periodic': [], 'adj': 'grid', 'layout': 'C'}
    r = rng.random()
    if 'adj' in force:
        case['adj'] = force['adj']
    elif 'periodic' in force:
        case['periodic'] = force['periodic']
        if case['periodic']:
            case['per_as_list'] = rng.random() < 0.5
            case['per_spelling'] = rng.choice(['list', 'list', 'tuple', 'array'])
            case['per_negative'] = rng.random() < 0.3
    elif r < 0.25:
        axes = [a for a in range(len(shape)) if rng.random() < 0.6]
        case['periodic'] = axes or [rng.randrange(len(shape))]
        case['per_as_list'] = rng.random() < 0.5
        case['per_spelling'] = rng.choice(['list', 'list', 'tuple', 'array'])
        case['per_negative'] = rng.random() < 0.25      # axes spelled as negative numbers (numpy convention)
    elif r < 0.33:
        case['adj'] = 'diag'
    elif r < 0.40:
        # user-supplied adjacency on an irregular mesh: grid adjacency with some nodes unconnected
        case['adj'] = 'holes'
        case['isolated'] = sorted(set(rng.randrange(n) for _ in range(rng.randint(1, max(1, n // 5)))))
    if case['crits']:
        case['crit_as_list'] = rng.random() < 0.5
    # unsigned dtypes with the default threshold are interesting at 0
    if dtype.startswith('uint') and rng.random() < 0.3:
        lo = min(x for x in k if x is not None)
        case['k'] = [x - lo for x in k]
    case['reuse'] = rng.random() < 0.3
    # how the numeric parameters are spelled: Python numbers, numpy scalars, or a fractional min_npix
    # (min_npix = n - 0.5 demands the same as n: "at least n pixels")
    case['pstyle'] = rng.choices(['py', 'np', 'half', 'omit'], weights=[55, 15, 10, 20])[0]
    if 'layout' not in force:
        case['layout'] = rng.choices(['C', 'F', 'strided', 'readonly', 'bigendian'], weights=[66, 14, 9, 5, 6])[0]
    if kind in ('fullrange', 'decimal'):
        # sums: int32 sums leave the dtype / float sums of decimals round -- not the subject of these cases
        case['crits'] = [c for c in case['crits'] if c[0] in ('seeds', 'npixacc')]
    if kind == 'bigint':
        # sums of 2**60 leave int64; the harness hands value thresholds over as floats
        case['crits'] = [c for c in case['crits'] if c[0] in ('seeds', 'npixacc')]
    # is_independent may be any iterable of functions, also one that can be walked only once
    case['crit_container'] = rng.choices(['list', 'tuple', 'iter', 'gen', 'map'], weights=[50, 10, 15, 15, 10])[0]
    case.update(force.get('override', {}))
    return case


# ---------------------------------------------------------------------------------------------
# exhaustive small scope (thorough tier): all value orderings on grids of <= 9 pixels, all arrays over a
# three-letter alphabet on grids of <= 8 pixels, each under four parameter sets

import math

PERM_GRIDS = [[1], [2], [3], [4], [5], [6], [7], [2, 2], [2, 3], [3, 2], [2, 4], [3, 3], [2, 2, 2]]
ALPHA_GRIDS = [[5], [6], [7], [8], [2, 3], [2, 4], [3, 3], [2, 2, 2]]
PARAM_SETS = [(0, 0), (1, 0), (0, 2), (2, 2)]


def _n(shape):
    n = 1
    for s in shape:
        n *= s
    return n


def _families():
    fams = []
    for g in PERM_GRIDS:
        fams.append(('perm', g, math.factorial(_n(g))))
    for g in ALPHA_GRIDS:
        fams.append(('alpha', g, 3 ** _n(g)))
    return fams


FAMILIES = _families()
EXHAUSTIVE_TOTAL = sum(f[2] for f in FAMILIES) * len(PARAM_SETS)


def unrank_perm(r, n):
    items = list(range(1, n + 1))
    out = []
    for i in range(n, 0, -1):
        f = math.factorial(i - 1)
        out.append(items.pop(r // f))
        r %= f
    return out


def exhaustive_compute_case(idx):
    """idx in [0, EXHAUSTIVE_TOTAL) -> case"""
    ps = idx % len(PARAM_SETS)
    r = idx // len(PARAM_SETS)
    for kind, g, cnt in FAMILIES:
        if r < cnt:
            n = _n(g)
            if kind == 'perm':
                k = unrank_perm(r, n)
            else:
                k = [(r // 3 ** i) % 3 for i in range(n)]
            mind, minn = PARAM_SETS[ps]
            return {'shape': list(g), 'fb': 0, 'k': k, 'dtype': 'float64', 'minv': [-1, 1], 'mind': mind, 'minn': minn, 'crits': [],
                    'kind': 'exh-' + kind, 'periodic': [], 'adj': 'grid', 'layout': 'C'}
        r -= cnt
    raise IndexError(idx)


# ---------------------------------------------------------------------------------------------
# all ordered forests (tree shapes) with a given number of nodes

_FOREST_MEMO = {0: [()]}


def forests(n):
    """all ordered forests with n nodes as nested tuples: a forest is a tuple of trees, a tree is the tuple of its children"""
    if n in _FOREST_MEMO:
        return _FOREST_MEMO[n]
    out = []
    for k in range(1, n + 1):
        for kids in forests(k - 1):
            for rest in forests(n - k):
                out.append((kids,) + rest)
    _FOREST_MEMO[n] = out
    return out


FOREST_SHAPES = [f for n in range(1, 8) for f in forests(n)]


def label_forest(shape, ids):
    """attach identifiers (taken from the iterator `ids` in prefix order) to a shape: nested [id, [children]]"""
    def tree(t):
        i = next(ids)
        return [i, [tree(c) for c in t]]
    return [tree(t) for t in shape]
