"""A 'session' = one computed dendrogram followed by operations (prune / reload / queries), run on
the real code and on the Lean model, observed after every step."""
import os
import tempfile
import warnings
from fractions import Fraction

import numpy as np

import impl
from common import Driver, parse_block, WORK

_driver = None


def driver():
    global _driver
    if _driver is None:
        _driver = Driver()
    return _driver


def reset_driver():
    global _driver
    if _driver is not None:
        _driver.close()
    _driver = None


class Step(object):
    def __init__(self, op, iobs, mobs, wf, extra=None):
        self.op = op
        self.iobs = iobs
        self.mobs = mobs
        self.wf = wf
        self.extra = extra or {}


def warm(d, rng_choice):
    """cache-warming queries before an operation"""
    for s in list(d):
        if 'level' in rng_choice:
            s.level
        if 'desc' in rng_choice:
            s.descendants
        if 'anc' in rng_choice:
            s.ancestor
        if 'npix' in rng_choice:
            s.get_npix()
        if 'peak' in rng_choice:
            s.get_peak()
    if 'newick' in rng_choice:
        d.to_newick()


def use_dendrogram(d, op):
    """read-only uses of a dendrogram that must leave it as it was"""
    with warnings.catch_warnings():
        warnings.simplefilter('ignore')
        if op[0] == 'plotsub':
            # a sub-tree plot: the lines of some structures with their descendants (what plot_tree(structure=...) and a
            # viewer selection draw), asked for by object or by identifier, possibly twice
            sts = list(d)
            if sts:
                p_ = d.plotter()
                for k in op[1]:
                    s_ = sts[k % len(sts)]
                    p_.get_lines(structures=[s_] if op[2] else [int(s_.idx)], subtree=True)
        elif op[0] == 'newickattr':
            # the Newick string of single structures (trunk structures, or every structure parents first)
            for s_ in (list(d.trunk) if op[1] == 'trunk' else list(d)):
                s_.newick


def run_session(case, ops=()):
    """returns (d, a, order, hook_used, [Step...]); raises impl.ImplError / Exception from the code"""
    drv = driver()
    d, a = impl.compute_impl(case, verbose=case.get('verbose', False))
    order, hooked = impl.recorded_order(d, a, case)
    wf = impl.forest_wellformed(d)
    iobs = impl.observe(d, case) if not wf else None
    mobs = parse_block(drv.ask(impl.compute_line(case, order, d)))
    steps = [Step(('compute',), iobs, mobs, wf)]
    unit = float(2 ** case['fb'])
    for op in ops:
        if op[0] == 'prune':
            mind, minn, crits, warmset = op[1:5]
            warm(d, warmset)
            kw = {}
            md = Fraction(mind, 2 ** case['fb'])
            kw['min_delta'] = int(md) if md.denominator == 1 else float(md)
            kw['min_npix'] = minn
            impl.style_params(case, kw)
            c2 = dict(case)
            c2['crits'] = crits
            fs = impl.user_criteria(c2, unit)
            if fs:
                kw['is_independent'] = fs if len(fs) > 1 else fs[0]
                if case.get('crit_container', 'list') != 'list' and not case.get('reuse'):
                    kw['is_independent'] = impl.as_container(fs, case['crit_container'])
            before = dict(d.params)
            if len(op) > 5 and op[5] == 'failfirst':
                # fault path: the same prune, but a user criterion raises the first time it is asked (i.e. at the first
                # leaf that passes everything else).  If the failed call had not touched the tree yet, the legal call
                # that follows must behave as if the failed one had never happened.
                n0 = len(list(d.all_structures))
                lm0 = np.array(d.index_map, copy=True)
                kwf = dict(kw)
                kwf['is_independent'] = list(fs) + [impl.raiser(0)]
                try:
                    with warnings.catch_warnings():
                        warnings.simplefilter('ignore')
                        d.prune(**kwf)
                    # the failing criterion was never asked: this WAS the prune; the call below repeats it
                except impl.Injected:
                    pass
                if len(list(d.all_structures)) != n0 or not np.array_equal(lm0, d.index_map):
                    raise impl.SkipCase('the injected fault hit after structures had been merged')
            if case.get('reuse'):
                # one criteria list object first handed to a stricter prune of an unrelated dendrogram
                lst = list(fs)
                kw['is_independent'] = lst
                from astrodendro import Dendrogram
                with warnings.catch_warnings():
                    warnings.simplefilter('ignore')
                    oshape = [s_ + 2 for s_ in case['shape']]
                    Dendrogram.compute((np.arange(int(np.prod(oshape)), dtype=float) * 5 % 7).reshape(oshape)).prune(
                        min_delta=kw.get('min_delta', 0) + 3, min_npix=minn + 2, is_independent=lst)
            with warnings.catch_warnings():
                warnings.simplefilter('ignore')
                d.prune(**kw)
            # the criteria prune actually applies (0 inherits the recorded value)
            eff_d = mind if mind != 0 else impl.to_k(before['min_delta'], case['fb'])
            eff_n = minn if minn != 0 else impl.npix_param(before['min_npix'])
            c3 = dict(case)
            c3['crits'] = crits
            line = 'prune crit=' + impl.crit_string(c3, mind=eff_d, minn=eff_n)
            wf = impl.forest_wellformed(d)
            iobs = impl.observe(d, case) if not wf else None
            mobs = parse_block(drv.ask(line))
            steps.append(Step(op, iobs, mobs, wf, {'params_before': before, 'params_after': dict(d.params),
                                                    'eff': (eff_d, eff_n)}))
        elif op[0] == 'reload':
            fmt = op[1]
            if fmt == 'fits' and case['fb'] >= 30:
                fmt = 'hdf5'    # FITS header cards cannot hold such parameters exactly (K7, reported by C09)
            os.makedirs(WORK, exist_ok=True)
            fd, path = tempfile.mkstemp(suffix='.' + fmt, dir=WORK)
            os.close(fd)
            try:
                with warnings.catch_warnings():
                    warnings.simplefilter('ignore')
                    d.save_to(path)
                    from astrodendro import Dendrogram
                    d2 = Dendrogram.load_from(path)
            finally:
                if os.path.exists(path):
                    os.remove(path)
            wf = impl.forest_wellformed(d2)
            iobs = impl.observe(d2, case) if not wf else None
            mobs = parse_block(drv.ask('reload'))
            steps.append(Step(op, iobs, mobs, wf, {'d_before': d}))
            d = d2
        elif op[0] == 'warm':
            warm(d, op[1])
        elif op[0] == 'plotter':
            with warnings.catch_warnings():
                warnings.simplefilter('ignore')
                d.plotter().get_lines()
        elif op[0] in ('plotsub', 'newickattr'):
            use_dendrogram(d, op)
            wf = impl.forest_wellformed(d)
            iobs = impl.observe(d, case) if not wf else None
            mobs = parse_block(drv.ask('obs'))
            steps.append(Step(op, iobs, mobs, wf))
        elif op[0] == 'catalog':
            # building a catalog must leave the dendrogram as it was
            nd = len(case['shape'])
            if nd in (2, 3) and len(d) > 0:
                from astrodendro import pp_catalog, ppv_catalog
                from astropy import units as u
                with warnings.catch_warnings():
                    warnings.simplefilter('ignore')
                    (pp_catalog if nd == 2 else ppv_catalog)(d, {'data_unit': u.Jy}, fields=['x_cen', 'area_exact'], verbose=False)
            wf = impl.forest_wellformed(d)
            try:
                iobs = impl.observe(d, case) if not wf else None
            except IndexError as e:
                raise impl.ImplError('accessors fail after building a catalog: %s' % e)
            mobs = parse_block(drv.ask('obs'))
            steps.append(Step(op, iobs, mobs, wf))
        else:
            raise ValueError(op)
    return d, a, order, hooked, steps


STRUCT_KEYS_ALL = ['par', 'kids', 'own', 'vmin', 'vmax', 'h', 'lvl', 'anc', 'desc', 'npix', 'npixsub',
                   'pixsub', 'peak', 'peaksub', 'small', 'tiown', 'tisub']


def diff_obs(iobs, mobs, struct_keys=(), top_keys=(), own_as_set=False, ids=True):
    """differences between implementation and model observations on a projection"""
    out = []
    if mobs is None or 'bad' in mobs:
        return ['model rejected the request: %r' % (mobs,)]
    if ids:
        if sorted(iobs['structs']) != sorted(mobs['structs']):
            return ['structure ids differ: impl %r model %r' % (sorted(iobs['structs']), sorted(mobs['structs']))]
        for sid in sorted(iobs['structs']):
            si, sm = iobs['structs'][sid], mobs['structs'][sid]
            for k in struct_keys:
                vi, vm = si[k], sm[k]
                if k == 'own' and own_as_set:
                    vi, vm = sorted(vi), sorted(vm)
                if k in ('peak', 'peaksub'):
                    vi, vm = tuple(vi), tuple(vm)
                if vi != vm:
                    out.append('structure %d: %s impl=%r model=%r' % (sid, k, vi, vm))
    for k in top_keys:
        if iobs.get(k) != mobs.get(k):
            out.append('%s impl=%r model=%r' % (k, iobs.get(k), mobs.get(k)))
    return out


def hier(obs):
    """hierarchy abstraction: set of (region with substructures, parent's region or None)"""
    st = obs['structs']
    return sorted((tuple(s['pixsub']), None if s['par'] is None else tuple(st[s['par']]['pixsub']))
                  for s in st.values())
