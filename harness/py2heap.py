"""py2heap -- translator for the *object-level* fragments of astrodendro: Python statements that read and write attributes
of `Structure` objects (parent / children links, own pixel list, the per-object caches) become Lean functions on the
object heap of `lean/ADModel/Cache.lean`, in the vocabulary of `lean/ADModel/HeapPrim.lean`.

`py2lean.py` translates scalar decision logic; this module translates *mutation*: `x.parent = p` becomes
`h.setParent x (some p)`, `x.children.remove(m)` becomes a checked `List.erase`, a `for` over a list becomes a fold over
the heap, a `while` becomes a structurally recursive function on a fuel argument (running out of fuel and Python
exceptions -- an attribute of `None`, `list.remove` of an absent element -- are both the result `none`).  The generated
definitions are proved equal to the hand-written heap model (`Heap.level`, `Heap.ancestor`, `Heap.descendants`,
`Heap.mergeWithParent`, `Heap.resetCache`, `Heap.finishPrune`) in `lean/ADGen/EquivHeap.lean`, for all heaps.

Scope (anything else is `Untranslatable`, never a guess):
  expressions  names of parameters / locals, `None`, `True`/`False`, natural literals, `x.attr` for the attributes of the
               view (an attribute of an optional object unwraps it: `None.attr` is the error result), one-line
               `@property`s of the class (inlined), `not`, `is None`, `is not None`, `and` / `or` of side-effect-free
               operands, `+`, `-` on naturals (see NOTE), comparisons of naturals, `[x]`, `[]`,
               `[e for v in l]`, `[v for v in l if c]`, truthiness of optionals / lists / objects
               (the class must define neither `__bool__` nor `__len__`: checked)
  statements   `return`, `if`/`elif`/`else`, assignment to locals and to attributes, `+=`, calls of methods listed in
               `inline` (translated as Lean functions of their own), `l.remove(x)`, `l.extend(e)`, `l.append(x)` on list
               attributes and local lists, `list(map(l.extend, ls))`, `del keep[x.idx]`, `for v in l:` (a fold; the body
               may not rebind locals of the enclosing scope), `while c:` / `while True:` with `break`
  skipped      assignments whose targets are all attributes outside the view (`_vmin`, `_values`, `_peak`, ...) and
               calls matching the fragment's `skip` patterns; their *number* is pinned by the spec, so a deleted or
               duplicated statement makes the fragment untranslatable.
NOTE  levels and counters are `Nat`; `a - b` is truncated subtraction.  The only subtraction in the fragments is
`self._level - 1` with `self._level = obj._level + diff`, `diff >= 1`.
"""
import ast
import re

from py2lean import Untranslatable, find_def, class_properties, _src, indent

LEAN_T = {'Obj': 'Nat', 'OptObj': 'Option Nat', 'ObjList': 'List Nat', 'Nat': 'Nat', 'OptNat': 'Option Nat',
          'OptObjList': 'Option (List Nat)', 'Bool': 'Bool', 'ObjListList': 'List (List Nat)', 'OptStr': 'Option String'}

LINKS_VIEW = {   # python attribute -> (getter, setter, type)
    'parent': ('fParent', 'setParent', 'OptObj'),
    'children': ('fKids', 'setKids', 'ObjList'),
    '_indices': ('fOwn', 'setOwn', 'ObjList'),
    '_level': ('fLvl', 'setLvl', 'OptNat'),
    '_ancestor': ('fAnc', 'setAnc', 'OptObj'),
    '_descendants': ('fDesc', 'setDesc', 'OptObjList'),
    '_newick': ('fNw', 'setNw', 'OptStr'),
}
LINKS_SKIP = {'_values', '_vmin', '_vmax', '_smallest_index', '_npix_total', '_peak', '_peak_subtree', '_tree_index'}


_RESERVED = set('''structure end open at from fun match with do then else if let in where class instance def theorem inductive
namespace section variable universe import export private protected return for have show by Type Prop Sort mutual deriving extends
macro syntax notation infix prefix postfix abbrev example axiom opaque attribute local scoped unless try catch finally break continue
mut nomatch calc using suffices obtain this h fuel none some true false'''.split())


def mangle(name):
    return name + '_' if name in _RESERVED else name


class HFrag:
    def __init__(self, name, file, qual, params, ret=None, locals_=None, inline=None, skip=(), n_skipped=0, cls='Structure',
                 props=(), doc='', select=None, view=None, skip_attrs=None, heap='Heap', cls_file=None, atoms=None,
                 alias_locals=None, transparent=()):
        self.name, self.file, self.qual = name, file, qual
        self.params = list(params)            # [(python name, type)] in the order of the generated definition
        self.ret = ret                        # type of the returned value, None for a procedure
        self.locals = dict(locals_ or {})     # declared types of local variables
        self.inline = dict(inline or {})      # method / function name -> (qual of its definition, [param names], file or None)
        self.skip = [re.compile(p) for p in skip]
        self.n_skipped = n_skipped            # number of statements the translation passes over (pinned)
        self.cls = cls
        self.props = list(props)
        self.doc = doc
        self.select = select
        self.view = view or LINKS_VIEW
        self.skip_attrs = skip_attrs if skip_attrs is not None else LINKS_SKIP
        self.heap = heap
        self.cls_file = cls_file or file      # file that defines the class
        self.atoms = dict(atoms or {})        # python source -> (lean term over the current heap `h`, type)
        self.alias_locals = dict(alias_locals or {})   # python source of an attribute that is treated as a local list -> its name
        self.transparent = list(transparent)  # functions that hand their argument back as far as the view is concerned (sorting)


class HTranslator:
    def __init__(self, frag, trees, lname=None):
        self.f = frag
        self.trees = trees                    # callable: file -> ast module
        self.tree = trees(frag.file)
        self.defs = []                        # auxiliary definitions (loops, inlined callees), in dependency order
        self.n = 0
        self.skipped = []
        self.uses_fuel = False
        self.lname = lname or ('Gen.' + frag.name)
        self.props_cache = None
        self.fallible = False

    # ------------------------------------------------------------------ helpers
    def fresh(self, base='t'):
        self.n += 1
        return '%s%d' % (base, self.n)

    def class_props(self):
        if self.props_cache is None:
            if self.f.cls:
                ctree = self.trees(self.f.cls_file)
                c = find_def(ctree, self.f.cls)
                for ch in c.body:
                    if isinstance(ch, ast.FunctionDef) and ch.name in ('__bool__', '__len__', '__nonzero__'):
                        raise Untranslatable('class %s defines %s: objects are no longer always true' % (self.f.cls, ch.name))
                self.props_cache = class_properties(ctree, self.f.cls)
            else:
                self.props_cache = {}
        return self.props_cache

    @staticmethod
    def balanced(t):
        d = 0
        for ch in t:
            d += (ch == '(') - (ch == ')')
            if d < 0:
                return False
        return d == 0

    @staticmethod
    def wrap(pre, body):
        """bind the unwrapped optionals of `pre` around `body`"""
        for var, term in reversed(pre):
            body = 'match %s with\n| none => none\n| some %s =>\n%s' % (term, var, indent(body))
        return body

    def truth(self, term, ty, node):
        if ty == 'Bool':
            return term
        if ty in ('OptObj', 'OptNat', 'OptObjList', 'OptStr'):
            return '(%s).isSome' % term
        if ty in ('ObjList', 'ObjListList'):
            return '(!(%s).isEmpty)' % term
        if ty == 'Obj':
            return 'true'
        if ty == 'Nat':
            return '(%s != 0)' % term
        raise Untranslatable('truth value of `%s` (%s)' % (_src(node), ty))

    def coerce(self, term, ty, want, node):
        if ty == want:
            return term
        if ty == 'None' and want.startswith('Opt'):
            return 'none'
        if (ty, want) in (('Obj', 'OptObj'), ('Nat', 'OptNat'), ('ObjList', 'OptObjList')):
            return '(some %s)' % term
        if ty == 'EmptyList' and want in ('ObjList', 'ObjListList'):
            return '[]'
        if ty == 'EmptyList' and want == 'OptObjList':
            return '(some [])'
        raise Untranslatable('`%s` has type %s where %s is needed' % (_src(node), ty, want))

    # ------------------------------------------------------------------ expressions
    def expr(self, node, env, pre):
        """-> (lean term, type); optionals that have to be unwrapped first are appended to `pre`"""
        if _src(node) in self.f.atoms:
            return self.f.atoms[_src(node)]
        if isinstance(node, ast.Call) and _src(node.func) in self.f.transparent and len(node.args) == 1 and not node.keywords:
            return self.expr(node.args[0], env, pre)
        if isinstance(node, ast.Constant):
            v = node.value
            if v is None:
                return 'none', 'None'
            if isinstance(v, bool):
                return ('true' if v else 'false'), 'Bool'
            if isinstance(v, int) and v >= 0:
                return str(v), 'Nat'
            raise Untranslatable('constant %r' % (v,))
        if isinstance(node, ast.Name):
            if node.id in env:
                return env[node.id]
            raise Untranslatable('name `%s` is not a parameter or local of this fragment' % node.id)
        if isinstance(node, ast.Attribute):
            props = self.class_props()
            t, ty = self.expr(node.value, env, pre)
            if ty == 'OptObj':
                u = self.fresh('o')
                pre.append((u, t))
                self.fallible = True
                t, ty = u, 'Obj'
            if ty != 'Obj':
                raise Untranslatable('attribute of `%s` (%s)' % (_src(node.value), ty))
            if node.attr == 'idx':
                return t, 'Obj'             # an object is named by its identifier
            if node.attr in self.f.view:
                g, _s, aty = self.f.view[node.attr]
                return '(h.%s %s)' % (g, t), aty
            if node.attr in props:
                # inline the one-line property with `self` bound to the object
                sub = ast.parse(_src(props[node.attr]), mode='eval').body
                env2 = dict(env)
                env2['self'] = (t, 'Obj')
                return self.expr(sub, env2, pre)
            raise Untranslatable('attribute `%s` is not part of the view' % node.attr)
        if isinstance(node, ast.UnaryOp) and isinstance(node.op, ast.Not):
            t, ty = self.expr(node.operand, env, pre)
            tr = self.truth(t, ty, node.operand)
            if tr.startswith('(!') and tr.endswith(')') and tr.count('(') == tr.count(')') and self.balanced(tr[2:-1]):
                return tr[2:-1], 'Bool'
            return '(!%s)' % tr, 'Bool'
        if isinstance(node, ast.Compare) and len(node.ops) == 1:
            op, right = node.ops[0], node.comparators[0]
            if isinstance(op, (ast.Is, ast.IsNot)) and isinstance(right, ast.Constant) and right.value is None:
                t, ty = self.expr(node.left, env, pre)
                if not ty.startswith('Opt'):
                    raise Untranslatable('`%s`: %s is never None' % (_src(node), ty))
                return '(%s).%s' % (t, 'isNone' if isinstance(op, ast.Is) else 'isSome'), 'Bool'
            ops = {ast.Lt: '<', ast.LtE: '≤', ast.Gt: '>', ast.GtE: '≥'}
            x, tx = self.expr(node.left, env, pre)
            y, ty_ = self.expr(right, env, pre)
            if tx == ty_ == 'Nat' and type(op) in ops:
                return '(decide (%s %s %s))' % (x, ops[type(op)], y), 'Bool'
            if tx == ty_ and tx in ('Nat', 'Obj') and isinstance(op, (ast.Eq, ast.NotEq)):
                return '(%s %s %s)' % (x, '==' if isinstance(op, ast.Eq) else '!=', y), 'Bool'
            raise Untranslatable('comparison `%s`' % _src(node))
        if isinstance(node, ast.BoolOp):
            parts = []
            for v in node.values:
                p2 = []
                t, ty = self.expr(v, env, p2)
                if p2:
                    raise Untranslatable('`%s` dereferences an optional inside and/or' % _src(v))
                parts.append(self.truth(t, ty, v))
            return '(' + (' && ' if isinstance(node.op, ast.And) else ' || ').join(parts) + ')', 'Bool'
        if isinstance(node, ast.BinOp) and isinstance(node.op, (ast.Add, ast.Sub)):
            x, tx = self.expr(node.left, env, pre)
            y, ty = self.expr(node.right, env, pre)
            if tx == 'OptNat':
                u = self.fresh('n')
                pre.append((u, x))
                self.fallible = True
                x, tx = u, 'Nat'
            if ty == 'OptNat':
                u = self.fresh('n')
                pre.append((u, y))
                self.fallible = True
                y, ty = u, 'Nat'
            if tx == ty == 'Nat':
                return '(%s %s %s)' % (x, '+' if isinstance(node.op, ast.Add) else '-', y), 'Nat'
            raise Untranslatable('arithmetic `%s`' % _src(node))
        if isinstance(node, ast.List):
            if not node.elts:
                return '[]', 'EmptyList'
            items = [self.expr(e, env, pre) for e in node.elts]
            if all(t == 'Obj' for _, t in items):
                return '[' + ', '.join(x for x, _ in items) + ']', 'ObjList'
            raise Untranslatable('list display `%s`' % _src(node))
        if isinstance(node, ast.ListComp) and len(node.generators) == 1 and isinstance(node.generators[0].target, ast.Name) \
                and not node.generators[0].is_async:
            g = node.generators[0]
            src, tsrc = self.expr(g.iter, env, pre)
            if tsrc != 'ObjList':
                raise Untranslatable('comprehension over `%s` (%s)' % (_src(g.iter), tsrc))
            v = g.target.id
            env2 = dict(env)
            env2[v] = (mangle(v), 'Obj')
            out = src
            for c in g.ifs:
                p2 = []
                t, ty = self.expr(c, env2, p2)
                if p2:
                    raise Untranslatable('comprehension condition `%s` dereferences an optional' % _src(c))
                out = '(%s.filter (fun %s => %s))' % (out, mangle(v), self.truth(t, ty, c))
            if isinstance(node.elt, ast.Name) and node.elt.id == v:
                return out, 'ObjList'
            p2 = []
            t, ty = self.expr(node.elt, env2, p2)
            if p2:
                raise Untranslatable('comprehension element `%s` dereferences an optional' % _src(node.elt))
            if ty == 'ObjList':
                return '(%s.map (fun %s => %s))' % (out, mangle(v), t), 'ObjListList'
            if ty == 'Obj':
                return '(%s.map (fun %s => %s))' % (out, mangle(v), t), 'ObjList'
            raise Untranslatable('comprehension element `%s` (%s)' % (_src(node.elt), ty))
        raise Untranslatable('expression `%s`' % _src(node))

    # ------------------------------------------------------------------ statements
    def is_skipped(self, s):
        src = _src(s)
        if any(p.search(src) for p in self.f.skip):
            return True
        targets = None
        if isinstance(s, ast.Assign) and len(s.targets) == 1:
            t = s.targets[0]
            targets = list(t.elts) if isinstance(t, ast.Tuple) else [t]
        if targets and all(isinstance(t, ast.Attribute) and t.attr in self.f.skip_attrs for t in targets):
            return True
        if isinstance(s, ast.Expr) and isinstance(s.value, ast.Call) and isinstance(s.value.func, ast.Attribute) \
                and s.value.func.attr in ('extend', 'append') and isinstance(s.value.func.value, ast.Attribute) \
                and s.value.func.value.attr in self.f.skip_attrs:
            return True
        return False

    @staticmethod
    def escapes(stmts):
        return any(isinstance(n, (ast.Return, ast.Break, ast.Continue, ast.Raise, ast.While)) for st in stmts for n in ast.walk(st))

    def assigned_names(self, stmts):
        out = []
        for s in stmts:
            for n in ast.walk(s):
                if isinstance(n, (ast.Assign, ast.AugAssign)):
                    ts = n.targets if isinstance(n, ast.Assign) else [n.target]
                    for t in ts:
                        for e in (t.elts if isinstance(t, ast.Tuple) else [t]):
                            if isinstance(e, ast.Name) and e.id not in out:
                                out.append(e.id)
                if isinstance(n, ast.Call) and isinstance(n.func, ast.Attribute) and n.func.attr in ('extend', 'append', 'remove') \
                        and isinstance(n.func.value, ast.Name) and n.func.value.id not in out:
                    out.append(n.func.value.id)
                if isinstance(n, ast.Call) and _src(n.func) == 'map' and n.args and isinstance(n.args[0], ast.Attribute) \
                        and isinstance(n.args[0].value, ast.Name) and n.args[0].value.id not in out:
                    out.append(n.args[0].value.id)
        return out

    def bind_local(self, name, term, ty, env, node, pre):
        """-> (let text, env')"""
        want = self.f.locals.get(name)
        if want is None:
            if ty in ('None', 'EmptyList'):
                raise Untranslatable('type of local `%s` is not declared' % name)
            want = ty
        if want == 'Obj' and ty == 'OptObj':
            u = self.fresh('o')
            pre.append((u, term))
            self.fallible = True
            term, ty = u, 'Obj'
        term = self.coerce(term, ty, want, node)
        env2 = dict(env)
        env2[name] = (mangle(name), want)
        return 'let %s : %s := %s\n' % (mangle(name), LEAN_T[want], term), env2

    def finish(self, env, ctl):
        return ctl['end'](env)

    def block(self, stmts, env, ctl):
        """translate `stmts`; ctl: {'end': env -> text (fell off the end), 'brk': env -> text or None, 'cont': likewise}"""
        if not stmts:
            return ctl['end'](env)
        s, rest = stmts[0], stmts[1:]
        if isinstance(s, ast.Pass) or (isinstance(s, ast.Expr) and isinstance(s.value, ast.Constant)):
            return self.block(rest, env, ctl)
        if self.is_skipped(s):
            self.skipped.append(_src(s))
            return self.block(rest, env, ctl)
        if isinstance(s, ast.Return):
            if self.f.ret is None and s.value is not None and ctl.get('ret') is None:
                raise Untranslatable('`return <value>` in a procedure')
            if ctl.get('in_fold'):
                raise Untranslatable('`return` inside a for loop')
            pre = []
            if s.value is None:
                return ctl['retfn'](None, env)
            t, ty = self.expr(s.value, env, pre)
            return self.wrap(pre, ctl['retfn']((t, ty, s.value), env))
        if isinstance(s, ast.Break):
            if ctl.get('brk') is None:
                raise Untranslatable('`break` outside a while loop')
            return ctl['brk'](env)
        if isinstance(s, ast.If) and rest and not self.escapes(list(s.body) + list(s.orelse)) and not ctl.get('in_fold'):
            # both branches fall through to `rest`: translate them once each and join, instead of copying `rest` into both
            pre = []
            c, tc = self.expr(s.test, env, pre)
            carried = [n for n in self.assigned_names(list(s.body) + list(s.orelse)) if n in env]
            new_names = [n for n in self.assigned_names(list(s.body) + list(s.orelse)) if n not in env]
            for n in new_names:
                # a name first bound inside a branch and read afterwards would be unbound on the other path
                if any(isinstance(x, ast.Name) and x.id == n for r in rest for x in ast.walk(r)):
                    raise Untranslatable('`%s` is bound in one branch of `if %s` only' % (n, _src(s.test)))
            tup = '(' + ', '.join(['h'] + [mangle(n) for n in carried]) + ')'
            saved = self.fallible
            self.fallible = False
            jctl = dict(ctl)
            jctl['end'] = lambda e: 'JOIN_END'
            a = self.block(list(s.body), env, jctl)
            b = self.block(list(s.orelse), env, jctl)
            fall = self.fallible
            self.fallible = saved or fall
            after = self.block(rest, env, ctl)
            if fall:
                a, b = a.replace('JOIN_END', 'some ' + tup), b.replace('JOIN_END', 'some ' + tup)
                return self.wrap(pre, 'match (if %s then\n%s\nelse\n%s) with\n| none => none\n| some %s =>\n%s' % (
                    self.truth(c, tc, s.test), indent(a, 4), indent(b, 4), tup, indent(after)))
            a, b = a.replace('JOIN_END', tup), b.replace('JOIN_END', tup)
            if carried:
                return self.wrap(pre, 'match (if %s then\n%s\nelse\n%s) with\n| %s =>\n%s' % (
                    self.truth(c, tc, s.test), indent(a, 4), indent(b, 4), tup, indent(after)))
            return self.wrap(pre, 'let h := (if %s then\n%s\nelse\n%s)\n%s' % (
                self.truth(c, tc, s.test), indent(a, 4), indent(b, 4), after))
        if isinstance(s, ast.If):
            pre = []
            c, tc = self.expr(s.test, env, pre)
            a = self.block(list(s.body) + rest, env, ctl)
            b = self.block(list(s.orelse) + rest, env, ctl)
            return self.wrap(pre, 'if %s then\n%s\nelse\n%s' % (self.truth(c, tc, s.test), indent(a), indent(b)))
        if isinstance(s, ast.AugAssign) and isinstance(s.target, ast.Name):
            opsym = {ast.Add: '+', ast.Sub: '-'}.get(type(s.op))
            if opsym is None:
                raise Untranslatable('`%s`' % _src(s))
            return self.block(ast.parse('%s = %s %s (%s)' % (s.target.id, s.target.id, opsym, _src(s.value))).body + rest, env, ctl)
        if isinstance(s, ast.Assign) and len(s.targets) == 1:
            tgt = s.targets[0]
            pre = []
            if isinstance(tgt, ast.Name):
                if ctl.get('in_fold') and tgt.id in ctl['outer_names']:
                    raise Untranslatable('the body of a for loop rebinds `%s` of the enclosing scope' % tgt.id)
                t, ty = self.expr(s.value, env, pre)
                text, env2 = self.bind_local(tgt.id, t, ty, env, s.value, pre)
                return self.wrap(pre, text + self.block(rest, env2, ctl))
            if isinstance(tgt, ast.Attribute) and tgt.attr in self.f.view:
                o, to = self.expr(tgt.value, env, pre)
                if to == 'OptObj':
                    u = self.fresh('o')
                    pre.append((u, o))
                    self.fallible = True
                    o, to = u, 'Obj'
                if to != 'Obj':
                    raise Untranslatable('assignment to an attribute of `%s` (%s)' % (_src(tgt.value), to))
                _g, setter, aty = self.f.view[tgt.attr]
                t, ty = self.expr(s.value, env, pre)
                val = self.coerce(t, ty, aty, s.value)
                return self.wrap(pre, 'let h := h.%s %s %s\n' % (setter, o, val) + self.block(rest, env, ctl))
            raise Untranslatable('assignment `%s`' % _src(s))
        if isinstance(s, ast.Delete) and len(s.targets) == 1 and isinstance(s.targets[0], ast.Subscript) \
                and _src(s.targets[0].value) == 'keep_structures':
            pre = []
            t, ty = self.expr(s.targets[0].slice, env, pre)
            if ty != 'Obj':
                raise Untranslatable('`%s`' % _src(s))
            return self.wrap(pre, 'let h := h.delAlive %s\n' % t + self.block(rest, env, ctl))
        if isinstance(s, ast.Expr) and isinstance(s.value, ast.Call):
            return self.call_stmt(s, rest, env, ctl)
        if isinstance(s, ast.For) and isinstance(s.target, ast.Name) and not s.orelse:
            return self.for_stmt(s, rest, env, ctl)
        if isinstance(s, ast.While) and not s.orelse:
            return self.while_stmt(s, rest, env, ctl)
        raise Untranslatable('statement `%s`' % _src(s).split('\n')[0])

    def list_place(self, node, env, pre):
        """a list that can be updated in place: -> (read term, write function term -> let text, element list type)"""
        if isinstance(node, ast.Name) and node.id in env and env[node.id][1] == 'ObjList':
            nm = mangle(node.id)
            return nm, (lambda new: 'let %s : List Nat := %s\n' % (nm, new)), 'ObjList'
        if isinstance(node, ast.Attribute) and node.attr in self.f.view:
            o, to = self.expr(node.value, env, pre)
            if to == 'OptObj':
                u = self.fresh('o')
                pre.append((u, o))
                self.fallible = True
                o, to = u, 'Obj'
            if to != 'Obj':
                raise Untranslatable('`%s`' % _src(node))
            g, setter, aty = self.f.view[node.attr]
            if aty == 'ObjList':
                return '(h.%s %s)' % (g, o), (lambda new: 'let h := h.%s %s (%s)\n' % (setter, o, new)), 'ObjList'
            if aty == 'OptObjList':
                u = self.fresh('l')
                pre.append((u, '(h.%s %s)' % (g, o)))
                self.fallible = True
                return u, (lambda new: 'let h := h.%s %s (some (%s))\n' % (setter, o, new)), 'ObjList'
        raise Untranslatable('`%s` is not a list of the view' % _src(node))

    def call_stmt(self, s, rest, env, ctl):
        call = s.value
        fn = call.func
        pre = []
        # list(map(l.extend, ls))  ==  l.extend(flatten(ls))
        if _src(fn) == 'list' and len(call.args) == 1 and isinstance(call.args[0], ast.Call) and _src(call.args[0].func) == 'map' \
                and len(call.args[0].args) == 2 and isinstance(call.args[0].args[0], ast.Attribute) \
                and call.args[0].args[0].attr == 'extend':
            rd, wr, _ = self.list_place(call.args[0].args[0].value, env, pre)
            t, ty = self.expr(call.args[0].args[1], env, pre)
            if ty != 'ObjListList':
                raise Untranslatable('`%s`: a list of lists is expected' % _src(s))
            return self.wrap(pre, wr('%s ++ (%s).flatten' % (rd, t)) + self.block(rest, env, ctl))
        if isinstance(fn, ast.Attribute) and fn.attr in ('remove', 'extend', 'append') and len(call.args) == 1 and not call.keywords:
            rd, wr, _ = self.list_place(fn.value, env, pre)
            t, ty = self.expr(call.args[0], env, pre)
            if fn.attr == 'remove':
                if ty != 'Obj':
                    raise Untranslatable('`%s`' % _src(s))
                self.fallible = True
                body = 'if (%s).contains %s then\n%s\nelse none' % (rd, t, indent(wr('(%s).erase %s' % (rd, t)) + self.block(rest, env, ctl)))
                return self.wrap(pre, body)
            if fn.attr == 'append':
                if ty != 'Obj':
                    raise Untranslatable('`%s`' % _src(s))
                return self.wrap(pre, wr('%s ++ [%s]' % (rd, t)) + self.block(rest, env, ctl))
            if ty == 'EmptyList':
                t, ty = '[]', 'ObjList'
            if ty != 'ObjList':
                raise Untranslatable('`%s`: extending by %s' % (_src(s), ty))
            return self.wrap(pre, wr('%s ++ %s' % (rd, t)) + self.block(rest, env, ctl))
        # inlined callee: x.method(args) or function(args)
        name = fn.attr if isinstance(fn, ast.Attribute) else (fn.id if isinstance(fn, ast.Name) else None)
        if name in self.f.inline:
            qual, pnames, file_ = self.f.inline[name]
            args = []
            if isinstance(fn, ast.Attribute):
                o, to = self.expr(fn.value, env, pre)
                if to == 'OptObj':
                    u = self.fresh('o')
                    pre.append((u, o))
                    self.fallible = True
                    o, to = u, 'Obj'
                if to != 'Obj':
                    raise Untranslatable('method call on `%s` (%s)' % (_src(fn.value), to))
                args.append(o)
            for a, pn in zip(call.args, pnames[1:] if isinstance(fn, ast.Attribute) else pnames):
                if pn is None:
                    continue                      # an argument outside the view (the label map)
                t, ty = self.expr(a, env, pre)
                if ty != 'Obj':
                    raise Untranslatable('argument `%s` (%s)' % (_src(a), ty))
                args.append(t)
            cname, cfall, cfuel = self.callee(name, qual, [p for p in pnames if p is not None], file_)
            fuel = ' fuel' if cfuel else ''
            if cfuel:
                self.uses_fuel = True
            if cfall:
                self.fallible = True
                return self.wrap(pre, 'match %s h%s %s with\n| none => none\n| some h =>\n%s' % (
                    cname, fuel, ' '.join(args), indent(self.block(rest, env, ctl))))
            return self.wrap(pre, 'let h := %s h%s %s\n' % (cname, fuel, ' '.join(args)) + self.block(rest, env, ctl))
        raise Untranslatable('call `%s`' % _src(s))

    def callee(self, name, qual, pnames, file_):
        for d in self.defs:
            if d.get('callee') == name:
                return d['lname'], d['fallible'], d['fuel']
        sub = HFrag(self.f.name + '__' + name.strip('_'), file_ or self.f.file, qual, [(p, 'Obj') for p in pnames], ret=None,
                    locals_=self.f.locals, inline=self.f.inline, skip=[p.pattern for p in self.f.skip], cls=self.f.cls,
                    view=self.f.view, skip_attrs=self.f.skip_attrs, heap=self.f.heap, cls_file=self.f.cls_file, atoms=self.f.atoms,
                    transparent=self.f.transparent)
        tr = HTranslator(sub, self.trees)
        tr.n = self.n + 100
        text = tr.translate_def()
        self.skipped.extend(tr.skipped)
        for d in tr.defs:
            self.defs.append(d)
        self.defs.append({'callee': name, 'lname': tr.lname, 'text': text, 'fallible': tr.fallible, 'fuel': tr.uses_fuel})
        return tr.lname, tr.fallible, tr.uses_fuel

    def for_stmt(self, s, rest, env, ctl):
        pre = []
        lst, tl = self.expr(s.iter, env, pre)
        if tl != 'ObjList':
            raise Untranslatable('`for %s in %s`: %s is not a list of objects' % (s.target.id, _src(s.iter), tl))
        # the iterated list is evaluated once; the body must not change it (it is the same Python list object)
        it_src = _src(s.iter)
        for n in ast.walk(ast.Module(body=s.body, type_ignores=[])):
            if isinstance(n, ast.Call) and isinstance(n.func, ast.Attribute) and n.func.attr in ('remove', 'extend', 'append', 'pop',
                                                                                                  'insert', 'sort', 'reverse', 'clear') \
                    and _src(n.func.value) == it_src:
                raise Untranslatable('the loop over `%s` changes that list' % it_src)
        v = s.target.id
        env2 = dict(env)
        env2[v] = (mangle(v), 'Obj')
        v = mangle(v)
        saved = self.fallible
        self.fallible = False
        inner_ctl = {'end': (lambda e: 'FOLD_END'), 'brk': None, 'in_fold': True, 'outer_names': set(env) - {s.target.id},
                     'retfn': None, 'ret': None}
        body = self.block(list(s.body), env2, inner_ctl)
        body_fallible = self.fallible
        self.fallible = saved or body_fallible
        if body_fallible:
            body = body.replace('FOLD_END', 'some h')
            text = 'match (%s).foldlM (fun (h : %s) (%s : Nat) =>\n%s) h with\n| none => none\n| some h =>\n%s' % (
                lst, self.f.heap, v, indent(body, 4), indent(self.block(rest, env, ctl)))
        else:
            body = body.replace('FOLD_END', 'h')
            text = 'let h := (%s).foldl (fun (h : %s) (%s : Nat) =>\n%s) h\n' % (lst, self.f.heap, v, indent(body, 4)) + \
                self.block(rest, env, ctl)
        return self.wrap(pre, text)

    def while_stmt(self, s, rest, env, ctl):
        self.uses_fuel = True
        self.fallible = True
        # variables the loop hands on: those that exist before it and are assigned inside; a name first assigned inside the
        # body is local to one iteration (it must be assigned before it is read there, or the translation of the body fails)
        carried = [n for n in self.assigned_names(s.body) if n in env]
        scope = [(env[n][0], env[n]) for n in env if env[n][0] == mangle(n)]          # variables in scope, passed to the loop function
        k = sum(1 for d in self.defs if d.get('loop')) + 1
        lname = '%s.loop%d' % (self.lname, k)
        ctypes = [LEAN_T[env[n][1]] for n in carried]
        rty = 'Option (%s)' % ' × '.join([self.f.heap] + ctypes)
        tup = '(' + ', '.join(['h'] + [mangle(n) for n in carried]) + ')'

        def leave(e):
            return 'some ' + tup
        args = ' '.join(n for n, _ in scope)

        def again(e):
            return '%s fuel h %s' % (lname, args) if args else '%s fuel h' % lname
        loop_ctl = {'end': again, 'brk': leave, 'retfn': None, 'ret': None, 'in_fold': False}
        if ctl.get('in_fold'):
            raise Untranslatable('while loop inside a for loop')
        pre = []
        is_true = isinstance(s.test, ast.Constant) and s.test.value is True
        if is_true:
            body = self.block(list(s.body), env, loop_ctl)
        else:
            c, tc = self.expr(s.test, env, pre)
            body = self.wrap(pre, 'if %s then\n%s\nelse\n%s' % (self.truth(c, tc, s.test), indent(self.block(list(s.body), env, loop_ctl)),
                                                                indent(leave(env))))
        # `return` inside a loop is not supported (retfn None would fail) -- checked by block()
        params = ' '.join('(%s : %s)' % (n, LEAN_T[t[1]]) for n, t in scope)
        text = ('def %s : Nat → %s → %s%s\n  | 0, _%s => none\n  | fuel + 1, h%s =>\n%s' % (
            lname, self.f.heap, ''.join(LEAN_T[t[1]] + ' → ' for _, t in scope), rty,
            ''.join(', _' for _ in scope), ''.join(', ' + n for n, _ in scope), indent(body, 4)))
        self.defs.append({'loop': True, 'lname': lname, 'text': text})
        call = '%s fuel h %s' % (lname, args) if args else '%s fuel h' % lname
        return 'match %s with\n| none => none\n| some %s =>\n%s' % (call, tup, indent(self.block(rest, env, ctl)))

    # ------------------------------------------------------------------ top level
    def translate_def(self):
        d = find_def(self.tree, self.f.qual)
        stmts = [s for s in d.body if not (isinstance(s, ast.Expr) and isinstance(s.value, ast.Constant))]
        if self.f.select:
            stmts = self.f.select(stmts)
            if not stmts:
                raise Untranslatable('the statements of fragment %s were not found' % self.f.name)
        self.src = '\n'.join(_src(s) for s in stmts)
        if self.f.alias_locals:
            al = self.f.alias_locals

            class _A(ast.NodeTransformer):
                def visit_Attribute(self, node):
                    if _src(node) in al:
                        return ast.copy_location(ast.Name(id=al[_src(node)], ctx=node.ctx), node)
                    self.generic_visit(node)
                    return node
            stmts = [ast.fix_missing_locations(_A().visit(ast.parse(_src(x)).body[0])) for x in stmts]
        env = dict((p, (mangle(p), t)) for p, t in self.f.params)
        ret = self.f.ret

        def retfn(val, e):
            if ret is None:
                return 'RET_H'
            if val is None:
                raise Untranslatable('bare `return` in a function with a result')
            t, ty, node = val
            return 'RET_V(%s)' % self.coerce(t, ty, ret, node)

        def end(e):
            if ret is not None:
                raise Untranslatable('control can fall off the end of %s' % self.f.qual)
            return 'RET_H'
        body = self.block(stmts, env, {'end': end, 'brk': None, 'retfn': retfn, 'ret': ret, 'in_fold': False})
        if any('loop' in d_ for d_ in self.defs) and 'RET' in ''.join(d_['text'] for d_ in self.defs if d_.get('loop')):
            raise Untranslatable('`return` inside a while loop')
        if self.fallible:
            body = body.replace('RET_H', 'some h')
            body = re.sub(r'RET_V\(', 'some (h, ', body)
            rty = 'Option %s' % (self.f.heap if ret is None else '(%s × %s)' % (self.f.heap, LEAN_T[ret]))
        else:
            body = body.replace('RET_H', 'h')
            body = re.sub(r'RET_V\(', '(h, ', body)
            rty = self.f.heap if ret is None else '%s × %s' % (self.f.heap, LEAN_T[ret])
        params = '(h : %s)%s %s' % (self.f.heap, ' (fuel : Nat)' if self.uses_fuel else '',
                                    ' '.join('(%s : %s)' % (mangle(p), LEAN_T[t]) for p, t in self.f.params))
        return 'def %s %s : %s :=\n%s' % (self.lname, params, rty, indent(body))

    def translate(self):
        main = self.translate_def()
        if len(self.skipped) != self.f.n_skipped:
            raise Untranslatable('fragment %s is expected to pass over %d statement(s) outside the view, found %d: %s' % (
                self.f.name, self.f.n_skipped, len(self.skipped), '; '.join(self.skipped)))
        doc = '/-- %s — generated from `%s` in %s\n```python\n%s\n```\npassed over (outside the view): %s -/' % (
            self.f.doc, self.f.qual, self.f.file, indent(self.src, 4).replace('-/', '- /'),
            '; '.join('`%s`' % x for x in self.skipped).replace('-/', '- /') or 'nothing')
        aux = '\n\n'.join(d['text'] for d in self.defs)
        return (aux + '\n\n' if aux else '') + doc + '\n' + main
