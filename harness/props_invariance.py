"""C15 (purity / determinism), C16 (axis and value-map invariance), C17 (periodic axes), C20 (equality)."""
import copy
import io
import contextlib
import os
import tempfile
import warnings

import numpy as np

import gen
import impl
import preds
import session
import props_compute as pc
from common import parse_block, WORK


def full_view(obs):
    """everything C15 says must be identical: structures, identifiers, label map, Newick text"""
    return (sorted((sid, s['par'], tuple(s['kids']), tuple(sorted(s['own']))) for sid, s in obs['structs'].items()),
            obs['trunk'], obs['lmap'], obs['newick'])


def holds_exactly(case, dt):
    """can dtype `dt` hold the case's values exactly?"""
    ks = case['k']
    fb = case['fb']
    if dt in gen.INT_RANGE:
        if fb != 0 or any(x is None for x in ks):
            return False
        lo, hi = gen.INT_RANGE[dt]
        return all(lo <= x <= hi for x in ks)
    mant = 24 if dt == 'float32' else 53
    return all(x is None or abs(x) < 2 ** mant for x in ks)


def gen_item_C15(rng, idx, tier):
    case = gen.gen_compute_case(rng, maxpix=40 if tier == 'quick' else 64)
    if idx % 4 == 0:
        # int8-range data with a large min_delta: differences overflow the narrow dtype
        n = len(case['k'])
        case['k'] = [rng.randint(-128, 127) for _ in range(n)]
        case['fb'] = 0
        case['dtype'] = 'int16'
        case['mind'] = rng.choice([100, 130, 150, 200, 250])
        case['minv'] = [-129, 1]
        case['kind'] = 'int8-range'
    if idx % 4 == 1:
        n = len(case['k'])
        case['k'] = [rng.randint(0, 255) for _ in range(n)]
        case['fb'] = 0
        case['dtype'] = 'int16'
        case['mind'] = rng.choice([0, 100, 130, 200])
        case['minv'] = rng.choice(['min', [-1, 1]])
        case['kind'] = 'uint8-range'
    prelude = [rng.choice(['compute', 'prune', 'plot', 'newick', 'save']) for _ in range(rng.randint(0, 3))]
    return {'case': case, 'prelude': prelude, 'pseed': rng.randrange(10 ** 6)}


def run_prelude(prelude, pseed):
    import random
    from astrodendro import Dendrogram
    r = random.Random(pseed)
    d = Dendrogram.compute(np.array([[r.randint(0, 9) for _ in range(5)] for _ in range(4)], dtype=float))
    for op in prelude:
        with warnings.catch_warnings():
            warnings.simplefilter('ignore')
            if op == 'compute':
                d = Dendrogram.compute(np.array([r.randint(0, 9) for _ in range(12)], dtype=float).reshape(3, 4))
            elif op == 'prune':
                d.prune(min_npix=r.randint(1, 3))
            elif op == 'plot':
                d.plotter().get_lines()
            elif op == 'newick':
                d.to_newick()
            elif op == 'save':
                os.makedirs(WORK, exist_ok=True)
                fd, path = tempfile.mkstemp(suffix='.hdf5', dir=WORK)
                os.close(fd)
                try:
                    d.save_to(path)
                finally:
                    os.remove(path)


def eval_C15(item):
    case = item['case']
    res, d, a, steps = pc.base_eval({'case': case, 'ops': []}, 'C15')
    st = steps[0]
    if st.iobs is None:
        return res
    base = full_view(st.iobs)
    res['corr'] += session.diff_obs(st.iobs, st.mobs, ['par', 'kids'], ['trunk', 'lmap', 'newick'])
    for sid in st.iobs['structs']:
        if sid in st.mobs['structs'] and sorted(st.iobs['structs'][sid]['own']) != sorted(st.mobs['structs'][sid]['own']):
            res['corr'].append('structure %d own pixels differ from the model' % sid)
    variants = [('repeat', {}), ('verbose', {'verbose': True})]
    for lay in ('F', 'strided', 'readonly', 'bigendian'):
        variants.append(('layout=' + lay, {'layout': lay}))
    for dt in gen.INT_DTYPES + ['float32', 'float64']:
        if dt != case['dtype'] and holds_exactly(case, dt):
            variants.append(('dtype=' + dt, {'dtype': dt}))
    variants.append(('after-prelude', {}))
    for name, ov in variants:
        c2 = dict(case)
        c2.update(ov)
        nb = None
        if name == 'after-prelude':
            run_prelude(item['prelude'], item['pseed'])
            if case.get('periodic'):
                # one neighbours object used for several arrays of different shapes, as a script would
                from astrodendro.dendrogram import periodic_neighbours
                from astrodendro import Dendrogram
                per = list(case['periodic'])
                nb = periodic_neighbours(impl.spell_axes(case, per))
                other_shape = [s_ + 2 for s_ in case['shape']]
                import random
                rr = random.Random(item['pseed'])
                other = np.array([rr.randint(0, 9) for _ in range(int(np.prod(other_shape)))], dtype=float).reshape(other_shape)
                Dendrogram.compute(other, neighbours=nb)
        try:
            arr = impl.make_array(c2)
            before = np.array(arr, copy=True)
            d2, a2 = impl.compute_impl(c2, verbose=bool(ov.get('verbose')), neighbours_obj=nb)
            wf = impl.forest_wellformed(d2)
            if wf:
                res['pred'].append('%s: %s' % (name, wf[0]))
                continue
            o2 = impl.observe(d2, c2)
        except Exception as e:
            res['pred'].append('variant %s raised %s: %s' % (name, type(e).__name__, str(e)[:100]))
            continue
        if not np.array_equal(a2, before, equal_nan=True) if a2.dtype.kind == 'f' else not np.array_equal(a2, before):
            res['pred'].append('variant %s: compute modified its input array' % name)
        if a2.flags.writeable != arr.flags.writeable or a2.dtype != arr.dtype or a2.strides != arr.strides:
            res['pred'].append('variant %s: compute changed its input array object (writeable %r -> %r, dtype %s -> %s)'
                               % (name, arr.flags.writeable, a2.flags.writeable, arr.dtype, a2.dtype))
        if full_view(o2) != base:
            diff = 'newick %r vs %r' % (o2['newick'], st.iobs['newick']) if o2['newick'] != st.iobs['newick'] else 'structures / label map differ'
            msg = 'variant %s gives a different dendrogram than the original call (%s): %s' % (name, case['dtype'], diff)
            # known finding K4: NumPy's default argsort is unstable and its algorithm depends on the
            # dtype, so inputs with equal values may be processed in a different (but still
            # non-increasing) order.  Signature: only the dtype differs, the two recorded orders are
            # both admissible and differ, and the variant agrees with the model run on ITS recorded order.
            k4 = False
            if name.startswith('dtype='):
                order2, _ = impl.recorded_order(d2, a2, c2)
                order1, _ = impl.recorded_order(d, a, case)
                if order1 != order2 and sorted(order1) == sorted(order2) and \
                        [case['k'][p] for p in order1] == [case['k'][p] for p in order2]:
                    m2 = parse_block(session.driver().ask(impl.compute_line(c2, order2, d2)))
                    if not pc.hyp_failures(m2) and 'bad' not in m2 and \
                            not session.diff_obs(o2, m2, ['par', 'kids'], ['trunk', 'lmap', 'newick']):
                        k4 = True
            if k4:
                res['known'].append(('K4', 'with equal values the processing order (np.argsort, unstable, dtype-specific algorithm) '
                                           'depends on the dtype of the input, and so do structures / identifiers'))
                res['tags'].append('K4')
            else:
                res['pred'].append(msg)
    # fault path: a compute on the SAME array object that fails part-way (a user criterion or neighbours function raises)
    # must leave the array as it was, and a subsequent compute on it must give the original result
    import random
    rr = random.Random(item.get('pseed', 0))
    for mode in ('crit', 'nbrs'):
        c2 = dict(case)
        c2['reuse'] = False
        try:
            arr = impl.make_array(c2)
            before = np.array(arr, copy=True)
            flags0 = (arr.flags.writeable, arr.dtype, arr.strides)
            try:
                impl.compute_impl(c2, arr=arr, fail=(mode, rr.randint(0, 6)))
                failed = False
            except impl.Injected:
                failed = True
            if (arr.flags.writeable, arr.dtype, arr.strides) != flags0:
                res['pred'].append('a compute that failed inside a user %s left the input array changed: writeable %r -> %r'
                                   % ('criterion' if mode == 'crit' else 'neighbours function', flags0[0], arr.flags.writeable))
            if not np.array_equal(arr, before, equal_nan=True) if arr.dtype.kind == 'f' else not np.array_equal(arr, before):
                res['pred'].append('a compute that failed inside a user callback modified the input array')
            d3, a3 = impl.compute_impl(c2, arr=arr)
            if impl.forest_wellformed(d3):
                res['pred'].append('after-failed-compute: %s' % impl.forest_wellformed(d3)[0])
            elif full_view(impl.observe(d3, c2)) != base:
                res['pred'].append('computing again on the same array after a failed compute gives a different dendrogram')
            res['tags'].append('failed-compute:%s' % ('raised' if failed else 'not-reached'))
        except impl.Injected:
            pass
        except Exception as e:
            res['pred'].append('after-failed-compute raised %s: %s' % (type(e).__name__, str(e)[:100]))
    res['tags'].append('variants=%d' % len(variants))
    return res


# ---------------------------------------------------------------------------------------------
# C16 / C17

def flat_map_regions(obs, sigma):
    st = obs['structs']
    return sorted((tuple(sorted(sigma[p] for p in s['pixsub'])),
                   None if s['par'] is None else tuple(sorted(sigma[p] for p in st[s['par']]['pixsub'])))
                  for s in st.values())


def trunk_regions(obs, sigma):
    return sorted(tuple(sorted(sigma[p] for p in obs['structs'][t]['pixsub'])) for t in obs['trunk'])


def assigned(obs, sigma):
    return sorted(sigma[p] for p, l in enumerate(obs['lmap']) if l != -1)


def n_leaves(obs):
    return sum(1 for s in obs['structs'].values() if not s['kids'])


def distinct_above(case, d):
    ctx = preds.Ctx(case, d)
    vals = [case['k'][p] for p in ctx.kept]
    return len(set(vals)) == len(vals)


def non_monotone(case, d):
    """a sum criterion over data with a negative above-threshold value: adding pixels can turn it false"""
    ctx = preds.Ctx(case, d)
    return any(c[0] == 'sum' for c in case.get('crits', [])) and \
        any(x is not None and ctx.minv < x < 0 for x in case['k'])


def components_map(case, d, st, sigma):
    """connected components of the above-threshold pixels in the run's own adjacency, as sets of mapped pixels
    (the trunk regions before the final drop of failing parentless leaves are exactly these, theorem C03_trunks)"""
    ctx = preds.Ctx(case, d)
    return sorted(tuple(sorted(sigma[p] for p in comp)) for comp in ctx.components(ctx.kept))


def transform_case(case, tr, rng_params):
    """returns (new case, sigma: old flat index -> new flat index) or None if not applicable"""
    shape = tuple(case['shape'])
    n = int(np.prod(shape))
    idx = np.arange(n).reshape(shape)
    karr = np.array([(-10 ** 9 if x is None else x) for x in case['k']], dtype=object).reshape(shape)
    nanmask = np.array([x is None for x in case['k']]).reshape(shape)
    c2 = copy.deepcopy(case)
    kind = tr[0]
    if kind == 'perm':
        perm = tr[1]
        new_idx = idx.transpose(perm)
        c2['periodic'] = sorted(perm.index(a) for a in case.get('periodic', []))
        # half of the relabelled inputs are handed over as non-C-contiguous arrays (what img.T is)
        c2['layout'] = 'F' if len(case['k']) % 2 == 0 else 'C'
    elif kind == 'flip':
        ax = tr[1]
        new_idx = np.flip(idx, axis=ax)
    elif kind == 'unit':
        pos = tr[1]
        new_idx = np.expand_dims(idx, pos)
        c2['periodic'] = sorted(a + (1 if a >= pos else 0) for a in case.get('periodic', []))
    elif kind == 'pad':
        if case.get('periodic'):
            return None
        widths, fill = tr[1], tr[2]
        new_idx = np.pad(idx, widths, constant_values=-1)
    elif kind == 'roll':
        ax, k = tr[1], tr[2]
        new_idx = np.roll(idx, k, axis=ax)
    else:
        new_idx = idx
    flat_new = new_idx.ravel()
    sigma = {}
    newk = []
    for j, old in enumerate(flat_new):
        if old == -1:
            newk.append(tr[2])   # pad fill: None (NaN) or a below-threshold value
        else:
            sigma[int(old)] = j
            newk.append(case['k'][int(old)])
    c2['shape'] = list(new_idx.shape)
    c2['k'] = newk
    if kind == 'affine':
        a, b = tr[1], tr[2]
        c2['k'] = [None if x is None else a * x + b for x in case['k']]
        c2['mind'] = a * case['mind']
        if case['minv'] != 'min':
            num, den = case['minv']
            c2['minv'] = [a * num + b * den, den]
        # user criteria follow the value map (sums are not affine-invariant: excluded by the generator)
        c2['crits'] = [[c[0], a * c[1] + b] if c[0] in ('peak', 'peakacc') else [c[0], a * c[1]] if c[0] == 'udelta' else c
                       for c in case.get('crits', [])]
    if kind == 'rescale':
        # the same integers with a finer binary point: every value, threshold and min_delta divided by 2**j
        c2['fb'] = case['fb'] + tr[1]
        c2['crits'] = [c for c in case.get('crits', []) if c[0] != 'sum']
    if kind == 'mono':
        vals = sorted(set(x for x in case['k'] if x is not None))
        f = dict((v, (i + 1) ** 2 + 3 * i) for i, v in enumerate(vals))   # strictly increasing
        c2['k'] = [None if x is None else f[x] for x in case['k']]
        if case['minv'] != 'min':
            num, den = case['minv']
            # largest mapped value whose preimage is <= threshold, else below everything
            below = [v for v in vals if v * den <= num]
            c2['minv'] = [f[below[-1]] if below else f[vals[0]] - 1, 1] if vals else [0, 1]
    if kind == 'mono':
        c2['crits'] = []
    if 'seeds' in [c[0] for c in c2.get('crits', [])]:
        c2['crits'] = [[c[0], [sigma[p] for p in c[1]]] if c[0] == 'seeds' else c for c in c2['crits']]
    if case.get('inf'):
        if kind == 'mono':
            c2.pop('inf')          # a strictly increasing map may send +inf to a finite top value
        else:
            c2['inf'] = [sigma[p_] for p_ in case['inf']]
    if not str(case.get('dtype', 'float64')).startswith('float'):
        # integer base image: the transformed image stays an integer image where it can (wide enough for the value maps)
        c2['dtype'] = 'int64' if c2['fb'] == 0 and all(x is not None and abs(x) < 2 ** 62 for x in c2['k']) else 'float64'
    return c2, sigma


def gen_item_C16(rng, idx, tier):
    case = gen.gen_compute_case(rng, maxpix=36 if tier == 'quick' else 60)
    if case['dtype'].startswith('float') or case['fb'] != 0 or any(x is None for x in case['k']) or case.get('inf') \
            or case['dtype'].startswith('uint'):
        case['dtype'] = 'float64'        # otherwise: an integer image (signed, any width)
    case['layout'] = 'C'
    if case['minv'] != 'min' and case['minv'][1] == 2 ** 40:
        # gen's float32 special (a threshold 2**-40 below a data value): the value maps below add offsets of up to
        # 2**30, and `a*thr + b` must stay exactly representable in float64 -- the same cut as a half-integer
        case['minv'] = [2 * ((case['minv'][0] + 1) // 2 ** 40) - 1, 2]
    if case.get('adj') != 'grid':
        case['adj'] = 'grid'
    case['crits'] = [c for c in case.get('crits', []) if c[0] != 'sum']
    if rng.random() < 0.6:
        # distinct values: the hierarchy itself must be invariant
        vals = list(range(1, len(case['k']) + 1))
        rng.shuffle(vals)
        case['k'] = [None if x is None else v for x, v in zip(case['k'], vals)]
        case['kind'] = 'perm'
    if case['dtype'] == 'float64' and case['fb'] == 0 and rng.random() < 0.12:
        pc.add_inf_pixels(rng, case)       # a saturated (+inf) pixel: above every threshold, like any other value
    nd = len(case['shape'])
    trs = []
    perm = list(range(nd))
    rng.shuffle(perm)
    trs.append(['perm', perm])
    trs.append(['flip', rng.randrange(nd)])
    if nd < 4:
        trs.append(['unit', rng.randint(0, nd)])
    vals = [x for x in case['k'] if x is not None]
    lowfill = None
    if case['minv'] != 'min' and vals:
        num, den = case['minv']
        lowfill = (num // den) - rng.randint(0, 2)
    fill = rng.choice([None, lowfill])
    if case['fb'] == 0 and fill is not None and case['dtype'].startswith('float') is False:
        fill = None
    trs.append(['pad', [[rng.randint(0, 2), rng.randint(0, 2)] for _ in range(nd)], fill])
    trs.append(['affine', rng.choice([1, 2, 4, 8]), rng.randint(-20, 20)])
    # magnitudes that are large, and spacings that are tiny, relative to the values (exact in float64)
    trs.append(['affine', rng.choice([1, 2]), rng.choice([2 ** 20, -2 ** 22, 10 ** 6, 2 ** 30])])
    trs.append(['rescale', rng.choice([20, 30, 40])])
    trs.append(['mono'])
    thr = None
    if vals:
        thr = rng.choice(sorted(vals))
        if thr >= impl.HUGE:
            thr = None           # the sentinel stands for +inf: not a threshold
    if idx % 8 == 3:
        # decimal fractions in [1, 2) with a decimal min_delta (see gen: kind 'decimal'): only transformations that
        # are exact on such floats (relabellings, powers of two)
        from fractions import Fraction
        case['k'] = [None if x is None else int(Fraction(float(1 + rng.randint(0, 9) / 10.0 + rng.choice([0, 0, 0.05]))) * 2 ** 60)
                     for x in case['k']]
        case['fb'] = 60
        case['dtype'] = 'float64'
        case['kind'] = 'decimal'
        case['mind'] = int(Fraction(float(rng.choice([0.1, 0.2, 0.3, 0.05]))) * 2 ** 60) if rng.random() < 0.8 else 0
        case['minv'] = rng.choice([[0, 1], [2 ** 60, 1]])
        case['crits'] = [c for c in case['crits'] if c[0] in ('seeds', 'npixacc')]
        case.pop('inf', None)
        trs = [t for t in trs if t[0] in ('perm', 'flip', 'unit')] + \
            [['pad', [[rng.randint(0, 2), rng.randint(0, 2)] for _ in range(nd)], None], ['affine', rng.choice([2, 4]), 0],
             ['rescale', rng.choice([1, 3])]]
        thr = None
    if idx % 16 == 11:
        # values just above 1 (1 + r * 2**-52) with a min_delta that is not a multiple of their spacing: every difference
        # is exact in float64, a sum `base + delta` is not; the exact shift v -> v - 1 makes everything small
        case['k'] = [None if x is None else 2 ** 60 + 256 * rng.randint(0, 24) for x in case['k']]
        case['fb'] = 60
        case['dtype'] = 'float64'
        case['kind'] = 'nearone'
        case['mind'] = 256 * rng.randint(0, 6) + rng.choice([1, 3, 17, 129])
        case['minv'] = [0, 1]
        case['crits'] = []
        case.pop('inf', None)
        trs = [t for t in trs if t[0] in ('perm', 'flip', 'unit')] + [['affine', 1, -2 ** 60], ['affine', 2, -2 ** 61]]
        thr = None
    return {'case': case, 'trs': trs, 'thr': thr}


def _run(case):
    d, a, order, hooked, steps = session.run_session(case, [])
    return d, steps[0]


def compare_transformed(res, base_case, d0, st0, tr, name):
    out = transform_case(base_case, tr, None)
    if out is None:
        return
    c2, sigma = out
    if tr[0] == 'mono' and not pc.no_pruning(base_case):
        return
    try:
        d2, st2 = _run(c2)
    except Exception as e:
        res['pred'].append('%s: transformed input raised %s: %s' % (name, type(e).__name__, str(e)[:80]))
        return
    if st2.iobs is None:
        res['pred'].append('%s: %s' % (name, st2.wf[0]))
        return
    res['hyp'] += pc.hyp_failures(st2.mobs)
    # correspondence of the transformed run with the model
    if pc.regions(st2.iobs) != pc.regions(st2.mobs):
        res['corr'].append('%s: regions of the transformed run differ from the model' % name)
    ident = dict((p, p) for p in range(len(c2['k'])))
    if distinct_above(base_case, d0):
        if flat_map_regions(st0.iobs, sigma) != flat_map_regions(st2.iobs, ident):
            res['pred'].append('%s changes the hierarchy (distinct values): %r -> %r'
                               % (name, flat_map_regions(st0.iobs, sigma), flat_map_regions(st2.iobs, ident)))
    else:
        msgs = []
        if trunk_regions(st0.iobs, sigma) != trunk_regions(st2.iobs, ident):
            msgs.append('%s changes the trunk regions' % name)
        if assigned(st0.iobs, sigma) != assigned(st2.iobs, ident):
            msgs.append('%s changes the set of assigned pixels' % name)
        if pc.no_pruning(base_case) and n_leaves(st0.iobs) != n_leaves(st2.iobs):
            res['pred'].append('%s changes the number of leaves (no pruning): %d -> %d' % (name, n_leaves(st0.iobs), n_leaves(st2.iobs)))
        # known finding K5 / K6: with equal values AND a criterion that can turn false as a structure grows
        # (pruning.min_sum on negative data) whether an isolated region survives depends on the order in
        # which equal values are processed.  Signature: ties, a sum criterion, a negative above-threshold
        # value, both runs agree with the model on their own recorded orders, and the connected components
        # (regions before the final drop of failing parentless leaves) still correspond.
        if msgs and non_monotone(base_case, d0) and not res['corr'] and \
                pc.regions(st0.iobs) == pc.regions(st0.mobs) and pc.regions(st2.iobs) == pc.regions(st2.mobs) and \
                components_map(base_case, d0, st0, sigma) == components_map(c2, d2, st2, ident):
            fid = 'K5' if name.startswith('cyclic') else 'K6'
            res['known'].append((fid, 'with equal values and min_sum on negative data, which isolated regions survive depends on the '
                                      'processing order of equal values (np.argsort), which is not equivariant under shifts / axis relabelling'))
            res['tags'].append(fid)
        else:
            res['pred'] += msgs


def eval_C16(item):
    case = item['case']
    res, d0, a0, steps = pc.base_eval({'case': case, 'ops': []}, 'C16')
    st0 = steps[0]
    if st0.iobs is None:
        return res
    if pc.regions(st0.iobs) != pc.regions(st0.mobs):
        res['corr'].append('regions differ from the model')
    res['tags'].append('distinct' if distinct_above(case, d0) else 'ties')
    for tr in item['trs']:
        compare_transformed(res, case, d0, st0, tr, tr[0] + (str(tr[1:]) if tr[0] in ('perm', 'flip', 'unit', 'affine', 'rescale') else ''))
    # raising the threshold (distinct values, no pruning): restriction of every structure
    if item['thr'] is not None and distinct_above(case, d0) and pc.no_pruning(case):
        c2 = copy.deepcopy(case)
        c2['minv'] = [item['thr'], 1]
        ctx = preds.Ctx(case, d0)
        if item['thr'] >= ctx.minv:
            d2, st2 = _run(c2)
            if st2.iobs is not None:
                keep = set(p for p in range(len(case['k'])) if case['k'][p] is not None and case['k'][p] > item['thr'])
                want = sorted(x for x in (tuple(sorted(p for p in s['own'] if p in keep)) for s in st0.iobs['structs'].values()) if x)
                got = sorted(tuple(sorted(s['own'])) for s in st2.iobs['structs'].values())
                if want != got:
                    res['pred'].append('raising min_value to %s does not simply restrict the structures: expected own sets %r, got %r' % (item['thr'], want, got))
    return res


def gen_item_C17(rng, idx, tier):
    nd = rng.choice([1, 2, 2, 3, 3, 4])
    # short axes on purpose
    while True:
        shape = [rng.choice([1, 2, 2, 3, 4, 5, 6]) for _ in range(nd)]
        n = int(np.prod(shape))
        if n <= (40 if tier == 'quick' else 64):
            break
    axes = [a for a in range(nd) if rng.random() < 0.6] or [rng.randrange(nd)]
    case = gen.gen_compute_case(rng, force={'shape': shape, 'periodic': axes})
    case['per_as_list'] = len(axes) > 1 or rng.random() < 0.5
    case['per_negative'] = rng.random() < 0.3       # axes spelled as negative numbers (numpy convention)
    case['dtype'] = 'float64'
    if rng.random() < 0.5:
        vals = list(range(1, n + 1))
        rng.shuffle(vals)
        case['k'] = [None if x is None else v for x, v in zip(case['k'], vals)]
        case['kind'] = 'perm'
    ax = rng.choice(axes)
    shifts = [['roll', ax, k] for k in sorted(set([1, shape[ax] - 1 if shape[ax] > 1 else 0, rng.randint(0, shape[ax]), shape[ax]]))]
    return {'case': case, 'trs': shifts}


def eval_C17(item):
    case = item['case']
    res, d0, a0, steps = pc.base_eval({'case': case, 'ops': []}, 'C17')
    st0 = steps[0]
    if st0.iobs is None:
        return res
    if pc.regions(st0.iobs) != pc.regions(st0.mobs):
        res['corr'].append('regions differ from the model: impl %r model %r' % (pc.regions(st0.iobs), pc.regions(st0.mobs)))
    ctx = preds.Ctx(case, d0)
    # all hierarchy guarantees with wrap-around adjacency, and no wrap on undeclared axes
    res['pred'] += preds.pred_C03(ctx, d0, st0.iobs, pc.no_pruning(case))
    res['pred'] += preds.pred_C01(ctx, d0, st0.iobs)
    res['tags'].append('distinct' if distinct_above(case, d0) else 'ties')
    res['tags'].append('periodic_axes=%d/%d' % (len(case['periodic']), len(case['shape'])))
    for tr in item['trs']:
        compare_transformed(res, case, d0, st0, tr, 'cyclic shift by %d along periodic axis %d' % (tr[2], tr[1]))
    return res


# ---------------------------------------------------------------------------------------------
# C20

def gen_item_C20(rng, idx, tier):
    case = gen.gen_compute_case(rng, maxpix=30)
    case['dtype'] = 'float64'
    case['pstyle'] = 'py'      # equality looks at the recorded parameter values themselves
    kind = rng.choice(['same', 'params', 'crits', 'data', 'nanmask', 'loaded', 'loaded', 'pruned', 'pruned2', 'shape', 'minv', 'nondendro', 'wcs'])
    if kind == 'loaded' and rng.random() < 0.4:
        # integer data beyond 2**53 with an integer threshold: parameters that a float cannot hold
        case['k'] = [2 ** 60 + 1 + ((x or 0) % 13) for x in case['k']]
        case['fb'] = 0
        case['dtype'] = 'int64'
        case['kind'] = 'bigint'
        case['crits'] = []
        case['mind'] = case['mind'] % 7
        case['minv'] = rng.choice(['min', [2 ** 60 + rng.randint(0, 6), 1]])
        for key in ('inf',):
            case.pop(key, None)
    elif kind == 'loaded' and rng.random() < 0.5:
        # integer images of every width and signedness (FITS stores some of them with an offset)
        dt = rng.choice(['uint8', 'uint16', 'uint32', 'int8', 'int16', 'int32'])
        lo, hi = gen.INT_RANGE[dt]
        span_ = min(hi - lo, 200)
        base = rng.choice([lo, hi - span_, max(lo, -100)])
        case['k'] = [base + (abs(x or 0) * 7) % (span_ + 1) for x in case['k']]
        case['fb'] = 0
        case['dtype'] = dt
        case['kind'] = 'int-image'
        case['crits'] = []
        case['mind'] = case['mind'] % 50
        case['minv'] = rng.choice(['min', [base + rng.randint(0, 20), 1]])
        case.pop('inf', None)
    return {'case': case, 'kind': kind, 'r': rng.randrange(10 ** 6)}


def label_partition(obs):
    groups = {}
    for p, l in enumerate(obs['lmap']):
        if l != -1:
            groups.setdefault(l, []).append(p)
    return sorted(tuple(v) for v in groups.values())


def eval_C20(item):
    import random
    case = item['case']
    kind = item['kind']
    r = random.Random(item['r'])
    res = {'corr': [], 'pred': [], 'hyp': [], 'known': [], 'tags': ['kind=' + kind], 'nontrivial': True,
           'key': repr((case['shape'], case['k'], case['minv'], case['mind'], case['minn'], kind, item['r']))}
    d1, a1 = impl.compute_impl(case)
    o1 = impl.observe(d1, case)
    c2 = copy.deepcopy(case)
    other = None
    if kind == 'same':
        pass
    elif kind == 'wcs':
        # the same data, parameters and structures, described by different world coordinate systems (or by one and by none):
        # nothing the property lists differs
        case = dict(case)
        case['wcs'] = r.choice([0.0, 1.0])
        c2['wcs'] = r.choice([None, 0.0, 2.5])
        d1, a1 = impl.compute_impl(case)
        o1 = impl.observe(d1, case)
    elif kind == 'params':
        c2['mind'] = case['mind'] + r.randint(1, 6)
        c2['minn'] = case['minn'] + r.randint(0, 3)
    elif kind == 'crits':
        vals = sorted(set(x for x in case['k'] if x is not None))
        c2['crits'] = [['peak', r.choice(vals)]] if vals else []
    elif kind == 'data':
        i = r.randrange(len(case['k']))
        c2['k'][i] = (case['k'][i] or 0) + r.choice([1, -1, 5])
    elif kind == 'nanmask':
        i = r.randrange(len(case['k']))
        c2['k'][i] = None if case['k'][i] is not None else 3
        if all(x is None for x in c2['k']):      # an all-NaN array has no finite minimum: not a dendrogram input
            c2['k'][i] = 7
    elif kind == 'shape':
        c2['periodic'] = []
        c2['adj'] = 'grid'
        c2['crits'] = [c for c in c2.get('crits', []) if c[0] != 'seeds']
        if len(case['shape']) >= 2:
            c2['shape'] = [case['shape'][0] * case['shape'][1]] + list(case['shape'][2:])
        else:
            c2['shape'] = [1, case['shape'][0]]
    elif kind == 'minv':
        if case['minv'] == 'min':
            vals = [x for x in case['k'] if x is not None]
            c2['minv'] = [min(vals) - 5, 1]
        else:
            c2['minv'] = [case['minv'][0] - case['minv'][1], case['minv'][1]]
    if kind == 'nondendro':
        for other in (None, 3, 'x', [1], a1):
            try:
                if (d1 == other) is not False or (d1 != other) is not True:
                    res['pred'].append('comparison with %r is not False' % (type(other).__name__,))
            except Exception as e:
                res['pred'].append('comparison with %s raised %s' % (type(other).__name__, type(e).__name__))
        return res
    true_params = None
    if kind == 'pruned2':
        # compute with both criteria set, then prune lowering one (warning only) and raising the other; compare with
        # the dendrogram computed directly with the parameters that are really in force afterwards
        D = max(case['mind'], 2)
        n0 = max(case['minn'], 1)
        n1 = n0 + r.randint(1, 3)
        case = dict(case)
        case['mind'], case['minn'], case['crits'] = D, n0, []
        c2 = copy.deepcopy(case)
        c2['minn'] = n1
        d1, a1 = impl.compute_impl(c2)           # the reference: computed with (D, n1)
        o1 = impl.observe(d1, c2)
        d2, a2 = impl.compute_impl(case)
        with warnings.catch_warnings():
            warnings.simplefilter('ignore')
            d2.prune(min_delta=(D // 2) / float(2 ** case['fb']), min_npix=n1)
        true_params = {'min_delta': D, 'min_npix': n1}
    else:
        d2, a2 = impl.compute_impl(c2)
    fmt = None
    if kind == 'loaded':
        fmt = r.choice(['hdf5', 'fits'])
        os.makedirs(WORK, exist_ok=True)
        fd, path = tempfile.mkstemp(suffix='.' + fmt, dir=WORK)
        os.close(fd)
        try:
            with warnings.catch_warnings():
                warnings.simplefilter('ignore')
                d1.save_to(path)
                from astrodendro import Dendrogram
                d2 = Dendrogram.load_from(path)
        finally:
            os.remove(path)
    elif kind == 'pruned':
        with warnings.catch_warnings():
            warnings.simplefilter('ignore')
            d2.prune(min_npix=case['minn'] + r.randint(1, 4))
    o2 = impl.observe(d2, c2)
    try:
        e12 = bool(d1 == d2)
        e21 = bool(d2 == d1)
    except Exception as e:
        res['pred'].append('== raised %s: %s' % (type(e).__name__, str(e)[:80]))
        return res
    if e12 != e21:
        res['pred'].append('== is not symmetric: %r vs %r' % (e12, e21))
    # specification
    same_data = list(c2['shape']) == list(case['shape']) and c2['k'] == case['k']
    if kind in ('loaded', 'pruned', 'pruned2'):
        same_data = True
    p1, p2 = d1.params, d2.params
    if true_params is not None:
        fbk = case['fb']
        p2 = dict(p2)
        p2['min_delta'] = true_params['min_delta'] / float(2 ** fbk)
        p2['min_npix'] = true_params['min_npix']
        p1 = dict(p1)
    same_minv = p1['min_value'] == p2['min_value']
    compat = all(p1[k] == 0 or p2[k] == 0 or p1[k] == p2[k] for k in ('min_delta', 'min_npix'))
    same_part = label_partition(o1) == label_partition(o2) if same_data else False
    spec = same_data and same_minv and compat and same_part
    # the operator as implemented (faithful model eqD): it does not look at the other label map
    eqd = same_data and same_minv and compat
    res['tags'].append('spec=%s' % spec)
    # the Lean model of the operator (eqD) and of the specification (eqSpec) on the same pair
    from fractions import Fraction

    def view(dd, oo, cc):
        fb = cc['fb']
        mv = dd.params['min_value']
        f = Fraction(mv.item() if hasattr(mv, 'item') else mv) * (2 ** fb)
        if np.asarray(dd.data).dtype.kind in 'iu':
            ks = ','.join(str(int(x) * (2 ** fb)) for x in np.asarray(dd.data).ravel().tolist())
        else:
            data = np.asarray(dd.data, dtype=float).ravel()
            ks = ','.join('nan' if np.isnan(x) else str(int(Fraction(float(x)) * (2 ** fb))) for x in data)
        return '%s@%s@%d/%d@%d@%d@%s' % (','.join(str(x) for x in np.asarray(dd.data).shape), ks or '-', f.numerator, f.denominator,
                                        impl.to_k(dd.params['min_delta'], fb), impl.npix_param(dd.params['min_npix']),
                                        ','.join(str(x) for x in oo['lmap']) or '-')
    try:
        ans = dict(l.split(' ', 1) for l in session.driver().ask('eq a=%s b=%s' % (view(d1, o1, case), view(d2, o2, c2))))
        if 'eqd' in ans:
            if bool(int(ans['eqd'])) != e12 or bool(int(ans['eqd_rev'])) != e21:
                res['corr'].append('== gives %r / %r, the model of the operator (eqD) %s / %s' % (e12, e21, ans['eqd'], ans['eqd_rev']))
            if bool(int(ans['eqspec'])) != spec:
                res['corr'].append('specification computed by the harness %r, Lean eqSpec %s' % (spec, ans['eqspec']))
        else:
            res['corr'].append('model rejected the eq request: %r' % (ans,))
    except impl.ImplError:
        pass
    if kind == 'loaded' and not (e12 and e21):
        # "a dendrogram equals its own saved-and-loaded copy"
        k8 = False
        if fmt == 'fits':
            try:
                from astropy.io.fits.card import _format_float
                for key in ('min_value', 'min_delta'):
                    sv, ld = d1.params[key], d2.params.get(key)
                    if isinstance(sv, (float, np.floating)) and ld is not None and float(ld) != float(sv):
                        cands = set()
                        for v_ in (sv, float(sv)):
                            try:
                                cands.add(float(_format_float(v_)))
                            except Exception:  # noqa
                                pass
                        if float(ld) in cands and abs(float(ld) - float(sv)) <= 1e-6 * abs(float(sv)):
                            k8 = True
            except Exception:  # noqa
                k8 = False
        if k8:
            res['known'].append(('K8', 'a dendrogram saved to FITS does not equal its re-loaded copy when a float parameter does not '
                                       'survive the header card (K7)'))
            res['tags'].append('K8')
        else:
            res['pred'].append('a dendrogram does not compare equal to its own saved-and-loaded copy (%s): params saved %r, loaded %r'
                               % (fmt, dict(d1.params), dict(d2.params)))
        return res
    if e12 != spec:
        if e12 == eqd and e12 and not same_part:
            res['known'].append(('D10', '__eq__ compares the label map of self with itself: dendrograms on the same data and compatible '
                                        'parameters compare equal although they partition the pixels differently'))
            res['tags'].append('D10')
        else:
            res['pred'].append('%s: == gives %r, specification %r (same data %r, same min_value %r, compatible params %r, same partition %r)'
                               % (kind, e12, spec, same_data, same_minv, compat, same_part))
    return res
