"""Proof obligations over the definitions generated from /repo's source (see py2lean.py, genspec.py).

`obligations(pid)` regenerates lean/ADGen/Gen.lean from the source tree under test and decides which theorems of
lean/ADGen/Equiv.lean that serve property `pid` still check:

* generated text identical to the committed snapshot lean/ADGen/Gen.lean  -> the theorems were checked by `lake build`
  (status 'current'); they are audited with `#print axioms` like every other theorem;
* text differs (the source of a fragment changed) -> the regenerated definitions and Equiv.lean are compiled together in
  a scratch file; theorems that no longer check (or whose fragment could not be translated any more) are 'broken'.
  A harmless rewrite that the proofs' automation still handles is status 'regenerated-ok'.
A broken obligation is not by itself a violation: ./check then searches for a failing input with an enlarged budget and
reports `no-failing-input-found` if there is none.
"""
import difflib
import hashlib
import json
import os
import re
import subprocess
import time

import common
import genspec

EQUIV = os.path.join(common.LEAN, 'ADGen', 'Equiv.lean')
SNAP = os.path.join(common.LEAN, 'ADGen', 'Gen.lean')
HEADER = 'import ADModel\n'
ALLOWED_AXIOMS = {'propext', 'Classical.choice', 'Quot.sound'}


EQUIVS = [os.path.join(common.LEAN, 'ADGen', f) for f in
          ('Equiv.lean', 'EquivHeapLevel.lean', 'EquivHeapAncestor.lean', 'EquivHeapDesc.lean', 'EquivHeapPrune.lean',
           'EquivHeapHistory.lean')]


def theorem_table():
    """[(theorem name relative to `GenEq`, first line, last line, set of fragment / constant names it mentions)] over the
    equivalence files, concatenated in import order (1-based lines relative to the concatenated text without import lines
    and `#print axioms` lines)"""
    body = ''
    for path in EQUIVS:
        if not os.path.exists(path):
            continue
        src = open(path).read()
        src = re.sub(r'^import .*\n', '', src, flags=re.M)
        src = re.sub(r'^#print axioms .*\n?', '', src, flags=re.M)
        body += src if src.endswith('\n') else src + '\n'
    lines = body.split('\n')
    stack = []
    starts = []
    for i, ln in enumerate(lines):
        m = re.match(r'namespace\s+([\w.]+)', ln)
        if m:
            stack.append(m.group(1))
            continue
        m = re.match(r'end\s+([\w.]+)\s*$', ln)
        if m and stack and stack[-1] == m.group(1):
            stack.pop()
            continue
        m = re.match(r'(?:@\[[^\]]*\]\s*)?(?:private\s+|protected\s+)?(theorem|def|lemma|abbrev|inductive|structure)\s+([A-Za-z_][\w.\']*)', ln)
        if m:
            full = '.'.join(stack + [m.group(2)])
            rel = full[len('GenEq.'):] if full.startswith('GenEq.') else '_root_.' + full
            starts.append((i, 'theorem' if m.group(1) == 'lemma' else m.group(1), rel))
    out = []
    for k, (i, kind, name) in enumerate(starts):
        j = starts[k + 1][0] if k + 1 < len(starts) else len(lines)
        text = '\n'.join(lines[i:j])
        frs = set(re.findall(r'(?<![A-Za-z])Gen\.([A-Za-z_]\w*)', text))
        out.append({'name': name, 'kind': kind, 'first': i + 1, 'last': j, 'frags': frs, 'text': text})
    # a theorem that uses another theorem / definition of these files depends on that one's fragments too
    changed = True
    while changed:
        changed = False
        for t in out:
            for other in out:
                if other is not t and not other['frags'] <= t['frags'] and \
                        re.search(r'(?<![\w.])%s(?![\w\'])' % re.escape(other['name'].split('.')[-1]), t['text']):
                    t['frags'] |= other['frags']
                    changed = True
    return body, out


def frag_props():
    fp = {}
    for fr in genspec.FRAGS:
        fp[fr.name] = set(fr.props)
        for h in fr.inline:
            fp['%s__%s' % (fr.name, h)] = set(fr.props)
    for fr in genspec.HFRAGS:
        fp[fr.name] = set(fr.props)
    for name, _rel, _f, _k, props in genspec.CONSTS:
        fp[name] = set(props)
    return fp


def theorems_for(pid):
    """theorems serving property `pid` (all theorems when pid is None)"""
    _, table = theorem_table()
    fp = frag_props()
    return [t for t in table if t['kind'] == 'theorem' and (pid is None or any(pid in fp.get(f, fp.get(f.split('__')[0], ())) for f in t['frags']))]


def obligations(pid, repo=None):
    t0 = time.time()
    repo = repo or common.REPO
    text, errs = genspec.generate(repo)
    full = HEADER + text
    snap = open(SNAP).read() if os.path.exists(SNAP) else ''
    mine = theorems_for(pid)
    res = {'theorems': ['GenEq.' + t['name'] for t in mine], 'fragments': sorted(set(f for t in mine for f in t['frags'])),
           'untranslatable': errs, 'broken': [], 'diff': [], 'status': 'current'}
    if not mine:
        res['status'] = 'none'
        return res
    if full == snap and not errs:
        res['elapsed_s'] = round(time.time() - t0, 2)
        return res
    res['diff'] = [ln for ln in difflib.unified_diff(snap.split('\n'), full.split('\n'), 'Gen.lean (snapshot)',
                                                     'Gen.lean (regenerated from %s)' % repo, lineterm='', n=1)
                   if not ln.startswith(('---', '+++'))][:60]
    body, table = theorem_table()
    # one scratch file: regenerated definitions + the proofs, compiled by `lake env lean`; results are cached by content
    scratch_src = 'import ADProofs\n' + text + '\n' + body + '\n' + \
        ''.join('#print axioms GenEq.%s\n' % t['name'] for t in table if t['kind'] == 'theorem' and not t['name'].startswith('_root_.'))
    key = hashlib.sha256(scratch_src.encode()).hexdigest()[:20]
    cdir = os.path.join(common.VERIF, '.work', 'gencache')
    os.makedirs(cdir, exist_ok=True)
    cpath = os.path.join(cdir, key + '.json')
    if os.path.exists(cpath):
        try:
            out = json.load(open(cpath))['out']
        except Exception:
            out = None
    else:
        out = None
    if out is None:
        os.makedirs(common.WORK, exist_ok=True)
        spath = os.path.join(common.WORK, 'GenScratch_%d.lean' % os.getpid())
        with open(spath, 'w') as f:
            f.write(scratch_src)
        r = subprocess.run(['lake', 'env', 'lean', spath], cwd=common.LEAN, stdout=subprocess.PIPE, stderr=subprocess.STDOUT,
                           universal_newlines=True)
        out = r.stdout
        os.remove(spath)
        tmp = cpath + '.%d' % os.getpid()
        with open(tmp, 'w') as f:
            json.dump({'out': out}, f)
        os.replace(tmp, cpath)
    off = 1 + text.count('\n') + 1        # lines before `body` in the scratch file
    bad_lines = {}
    for m in re.finditer(r'^[^\n:]*GenScratch_\d+\.lean:(\d+):\d+: error:? ?([^\n]*)', out, flags=re.M):
        bad_lines.setdefault(int(m.group(1)), m.group(2))
    broken = {}
    gen_errors = []
    for ln, msg in sorted(bad_lines.items()):
        rel = ln - off
        hit = [t for t in table if t['first'] <= rel <= t['last']]
        if hit:
            broken.setdefault(hit[0]['name'], msg)
        else:
            gen_errors.append('line %d of the generated definitions: %s' % (ln, msg))
    # a theorem is also broken when a fragment it mentions could not be translated, or an axiom crept in
    for t in table:
        if t['kind'] != 'theorem':
            continue
        for f in t['frags']:
            if f in errs:
                broken.setdefault(t['name'], 'fragment %s could not be translated: %s' % (f, errs[f]))
        m = re.search(r"'GenEq\.%s' depends on axioms: \[([^\]]*)\]" % re.escape(t['name']), out.replace('\n  ', ' '))
        if m and not set(a.strip() for a in m.group(1).split(',') if a.strip()) <= ALLOWED_AXIOMS:
            broken.setdefault(t['name'], 'depends on axioms %s' % m.group(1))
        elif not m and ("'GenEq.%s' does not depend on any axioms" % t['name']) not in out and t['name'] not in broken:
            broken.setdefault(t['name'], 'was not checked (an earlier definition it needs failed)')
    if gen_errors:
        for t in table:
            if t['kind'] == 'theorem':
                broken.setdefault(t['name'], gen_errors[0])
    mine_names = set(t['name'] for t in mine)
    res['broken'] = [('GenEq.' + n, msg) for n, msg in broken.items() if n in mine_names]
    res['status'] = 'broken' if res['broken'] else 'regenerated-ok'
    res['elapsed_s'] = round(time.time() - t0, 2)
    return res


def write_snapshot(repo=None):
    text, errs = genspec.generate(repo or common.REPO)
    if errs:
        raise SystemExit('untranslatable: %r' % errs)
    with open(SNAP, 'w') as f:
        f.write(HEADER + text)


if __name__ == '__main__':
    import sys
    if sys.argv[1] == '--snapshot':
        write_snapshot()
        sys.exit(0)
    print(json.dumps(obligations(sys.argv[1], sys.argv[2] if len(sys.argv) > 2 else None), indent=1, default=str))
